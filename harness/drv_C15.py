"""C15 driver — PKCE binds the code to the party that started the flow.

Drives the REAL authorization and token endpoints of providers built with the pkce add-on
(idpyoidc.server.oauth2.add_on.pkce.add_support) in several configurations, and the REAL relying-party
add-on (idpyoidc.client.oauth2.add_on.pkce) through Service.construct_request.  Every flow is
(authorization request -> code -> token request); the observed outcome is compared with Model/Pkce.v
(flow / rp_make, evaluated by vm_compute with the hash given as a finite table computed here with hashlib),
and judged by an oracle written from the property text (recomputes the transform with hashlib/base64).
"""
import base64
import hashlib

import engine as E
from engine import coq_str, coq_list, coq_bool, coq_n, coq_opt

RULE = ("flows through the real authorization+token endpoints of 9 providers (configured method sets "
        "{all four, S256, plain+S256, S256+S512} x essential on/off, OIDC and plain OAuth2) x per-client "
        "pkce_essential unset/true/false; (1) exhaustive 2^4 presence table of code_challenge, "
        "code_challenge_method, code_verifier and a token-request code_challenge_method for every method; "
        "(2) single-fault matrix around a valid flow: verifier missing / empty / one character changed / case "
        "swapped / '=' padded / +/ for -_ / challenge replayed as verifier with a 'plain' method in the token "
        "request / verifier of another flow / method unknown / method unsupported by the configuration / no "
        "challenge; (3) verifier lengths 0,1,42,43,64,128,129,1000 and alphabets unreserved / other ASCII / "
        "non-ASCII; (4) the real RP add-on for every configured method x length, its requests sent to every "
        "provider; (5) random multi-fault flows.  A case is one flow; non-trivial when a challenge was sent "
        "or PKCE is essential.")
ASSUMPTIONS = [
    "HB bits v = b64url_nopad(sha<bits>(ascii v)) is an arbitrary function in C15_bound/_essential/_no_downgrade; "
    "C15_near_miss_refused assumes it injective (collision-free hash), C15_rp_op_agree assumes its output non-empty",
    "the authorization code resolves to the grant of the authorization request that produced it (C02/C14)",
    "Message.from_dict drops empty-string parameters (modelled as norm); parameters are strings",
]

PKCE_FN = "idpyoidc.server.oauth2.add_on.pkce.add_support"
ALL = ["plain", "S256", "S384", "S512"]
UNRES = "abcdefghijklmnopqrstuvwxyzABCDEFGHIJKLMNOPQRSTUVWXYZ0123456789-._~"


# ---------------------------------------------------------------- independent reference transform
def ref_tr(method, v):
    """RFC 7636 transform, written from the RFC (not from the repo). None = no such method / not computable."""
    if method == "plain":
        return v
    bits = {"S256": 256, "S384": 384, "S512": 512}.get(method)
    if bits is None:
        return None
    try:
        raw = v.encode("ascii")
    except UnicodeEncodeError:
        return None
    return base64.urlsafe_b64encode(hashlib.new("sha%d" % bits, raw).digest()).decode("ascii").rstrip("=")


def hb_table(strings):
    rows = []
    seen = set()
    for s in strings:
        if s is None or s in seen:
            continue
        seen.add(s)
        try:
            raw = s.encode("ascii")
        except UnicodeEncodeError:
            continue
        for bits in (256, 384, 512):
            d = base64.urlsafe_b64encode(hashlib.new("sha%d" % bits, raw).digest()).decode("ascii").rstrip("=")
            rows.append("(%s, %s, %s)" % (coq_n(bits), coq_str(s), coq_str(d)))
    return coq_list(rows, "(N * pystr * pystr)")


# ---------------------------------------------------------------- providers
class Prov:
    def __init__(self, srv, methods, essential, oidc):
        kw = {"essential": essential}
        if methods is not None:
            kw["code_challenge_methods"] = {m: m for m in methods}
        self.server = srv.make_server(add_ons={"pkce": {"function": PKCE_FN, "kwargs": kw}}, oidc=oidc)
        self.methods = list(methods) if methods is not None else list(ALL)
        self.essential = essential
        self.oidc = oidc
        self.az = self.server.get_endpoint("authorization")
        self.tk = self.server.get_endpoint("token")
        self.n = 0
        # what the server really holds (the model is given these, not what we asked for)
        conf = self.server.context.add_on["pkce"]
        self.methods = list(conf["code_challenge_methods"].keys())
        self.essential = bool(conf["essential"])

    def set_client_flag(self, ce):
        rec = self.server.context.cdb["client_1"]
        if ce is None:
            rec.pop("pkce_essential", None)
        else:
            rec["pkce_essential"] = ce

    def authz(self, cc, ccm, state="ST", cookie=None):
        """returns ('code', code) | ('AzRefused', n) | ('AzRaised', name); self.last_cookie is the session cookie of the response"""
        self.n += 1
        self.cookie_in = cookie
        if self.n % 200 == 0 and cookie is None:
            self.server.context.session_manager.flush()
        req = {"client_id": "client_1", "redirect_uri": "https://client_1.example.com/cb", "scope": "openid",
               "state": state, "response_type": "code"}
        if cc is not None:
            req["code_challenge"] = cc
        if ccm is not None:
            req["code_challenge_method"] = ccm
        return self.authz_req(req)

    def authz_req(self, req):
        try:
            pr = self.az.parse_request(dict(req))
        except Exception as e:
            return ("AzRaised", type(e).__name__)
        if "error" in pr:
            d = pr.get("error_description", "")
            if d.startswith("Missing required code_challenge"):
                return ("AzRefused", 1)
            if d.startswith("Unsupported code_challenge_method"):
                return ("AzRefused", 2)
            return ("AzRefused", 0)
        try:
            ck = getattr(self, "cookie_in", None)
            res = self.az.process_request(pr, http_info={"cookie": ck} if ck else None)
        except Exception as e:
            return ("AzRaised", type(e).__name__)
        self.last_cookie = res.get("cookie") if isinstance(res, dict) else None
        ra = res.get("response_args") if isinstance(res, dict) else None
        if ra is None or "code" not in ra:
            return ("AzRefused", 0)
        return ("code", ra["code"])

    def token(self, code, cv, tccm, extra=None):
        """returns ('Tokens',) | ('TkRefused', n) | ('TkRaised', exc)"""
        treq = {"grant_type": "authorization_code", "code": code, "redirect_uri": "https://client_1.example.com/cb",
                "client_id": "client_1", "client_secret": self.server.context.cdb["client_1"]["client_secret"]}
        if cv is not None:
            treq["code_verifier"] = cv
        if tccm is not None:
            treq["code_challenge_method"] = tccm
        if extra:
            treq.update(extra)
        return self.token_req(treq)

    def token_req(self, treq):
        try:
            tp = self.tk.parse_request(dict(treq))
        except UnicodeEncodeError:
            return ("TkRaised", "UnicodeError")
        except KeyError:
            return ("TkRaised", "KeyError")
        except Exception as e:
            return ("TkRaised", "TypeError")
        if "error" in tp:
            d = tp.get("error_description", "")
            if d.startswith("Missing code_verifier"):
                return ("TkRefused", 3)
            if d.startswith("PKCE check failed"):
                return ("TkRefused", 4)
            return ("TkRefused", 0)
        try:
            tr = self.tk.process_request(tp)
        except Exception as e:
            return ("TkRaised", "TypeError")
        ra = tr.get("response_args") if isinstance(tr, dict) else None
        if ra is None or "access_token" not in ra:
            return ("TkRefused", 0)
        return ("Tokens",)


def coq_outcome(o):
    if o[0] == "Tokens":
        return "Tokens"
    if o[0] in ("AzRefused", "TkRefused"):
        return "(%s %s)" % (o[0], coq_n(o[1]))
    if o[0] == "AzRaised":
        return "(AzRefused 99%N)"
    return "(TkRaised %s)" % o[1]


def s_opt(x):
    return coq_opt(x, coq_str, "pystr")


def b_opt(x):
    return coq_opt(x, coq_bool, "bool")


# ---------------------------------------------------------------- one flow = one case
def run_flow(ctx, prov, ce, cc, ccm, cv, tccm, kind, cases, code_from=None, note=None):
    """Runs one flow on the real endpoints, applies the oracle, appends the model case.
    code_from: (cc', ccm') of ANOTHER flow whose verifier is being presented here is expressed by the caller
    simply as cv = that other verifier; the code always comes from this flow's authorization request."""
    prov.set_client_flag(ce)
    a = prov.authz(cc, ccm)
    if a[0] == "code":
        out = prov.token(a[1], cv, tccm)
    else:
        out = a
    return record_flow(ctx, prov, ce, cc, ccm, cv, tccm, kind, cases, out, note)


def record_flow(ctx, prov, ce, cc, ccm, cv, tccm, kind, cases, out, note=None):
    rec = {"kind": kind, "provider": {"methods": prov.methods, "essential": prov.essential, "oidc": prov.oidc},
           "pkce_essential": ce, "code_challenge": cc, "code_challenge_method": ccm, "code_verifier": cv,
           "token_code_challenge_method": tccm, "outcome": list(out)}
    if note:
        rec["note"] = note
    carried = isinstance(cc, str) and cc != ""
    essential = ce if ce is not None else prov.essential
    ctx.case_seen(rec, nontrivial=carried or essential)
    ctx.count("kind:" + kind)
    ctx.count("out:" + out[0] + (str(out[1]) if len(out) > 1 else ""))
    oracle(ctx, prov, rec, out, carried, essential)
    term = "(%s, %s, %s, %s, %s, %s, %s, %s, %s)" % (
        coq_list([coq_str(m) for m in prov.methods], "pystr"), coq_bool(prov.essential), b_opt(ce),
        s_opt(cc), s_opt(ccm), s_opt(cv), s_opt(tccm), hb_table([cv]), coq_outcome(out))
    cases.append((term, rec))
    return out


def oracle(ctx, prov, rec, out, carried, essential):
    """The property text decided on the observed behaviour; no model involved."""
    cc, ccm, cv = rec["code_challenge"], rec["code_challenge_method"], rec["code_verifier"]
    got_code = out[0] in ("Tokens", "TkRefused", "TkRaised")
    if out[0] == "Tokens" and carried:
        method = ccm if (isinstance(ccm, str) and ccm != "") else "plain"
        if not (isinstance(cv, str) and cv != ""):
            ctx.violation("tokens-missing-verifier",
                          "tokens issued although the authorization request carried code_challenge=%r and the token "
                          "request carried no code_verifier" % (cc,), rec)
        else:
            t = ref_tr(method, cv)
            if t is None:
                ctx.violation("tokens-unknown-method",
                              "tokens issued although method %r (recorded at authorization time) has no transform "
                              "for verifier %r" % (method, cv), rec)
            elif t != cc:
                ctx.violation("tokens-wrong-verifier",
                              "tokens issued although %s(code_verifier=%r) = %r differs from the code_challenge %r"
                              % (method, cv, t, cc), rec)
    if essential and got_code:
        method = ccm if (isinstance(ccm, str) and ccm != "") else "plain"
        if not carried:
            ctx.violation("essential-no-challenge",
                          "PKCE essential (client flag %r, global %r) but an authorization request without "
                          "code_challenge obtained a code" % (rec["pkce_essential"], prov.essential), rec)
        elif method not in prov.methods:
            ctx.violation("essential-unsupported-method",
                          "PKCE essential but an authorization request with unsupported method %r (configured %r) "
                          "obtained a code" % (method, prov.methods), rec)


# ---------------------------------------------------------------- generators
def rstr(rng, n, alpha=UNRES):
    return "".join(rng.choice(alpha) for _ in range(n))


def near_misses(rng, v):
    res = []
    if v:
        i = rng.randrange(len(v))
        c = v[i]
        repl = rng.choice([x for x in UNRES if x != c])
        res.append(("one-char", v[:i] + repl + v[i + 1:]))
        sw = v.swapcase()
        if sw != v:
            res.append(("case", sw))
        res.append(("drop-last", v[:-1]))
    res.append(("pad", v + "="))
    res.append(("append", v + "A"))
    res.append(("space", v + " "))
    alt = v.replace("-", "+").replace("_", "/")
    if alt != v:
        res.append(("b64-alphabet", alt))
    return res


def presence_table(ctx, provs, rng, cases):
    for prov in provs:
        for m in ALL + ["S1", ""]:
            v = rstr(rng, rng.choice([43, 64, 128]))
            c = ref_tr(m, v) if m in ALL else v
            for bits in range(16):
                cc = c if bits & 1 else None
                ccm = m if bits & 2 else None
                cv = v if bits & 4 else None
                tccm = rng.choice(["plain", "S256", m]) if bits & 8 else None
                # when the method is absent the default applies: make half of those flows valid for it
                if ccm is None and cc is not None and bits & 4 and rng.random() < 0.5:
                    cc = v
                for ce in (None, True, False):
                    if ce is not None and bits not in (0, 2, 5, 7, 15) and rng.random() < 0.6:
                        continue
                    run_flow(ctx, prov, ce, cc, ccm, cv, tccm, "presence", cases)


def single_faults(ctx, provs, rng, cases):
    for prov in provs:
        for m in ALL:
            for ce in (None, True, False):
                v = rstr(rng, rng.choice([43, 50, 128]))
                c = ref_tr(m, v)
                run_flow(ctx, prov, ce, c, m, v, None, "valid", cases)
                run_flow(ctx, prov, ce, c, m, None, None, "fault:no-verifier", cases)
                run_flow(ctx, prov, ce, c, m, "", None, "fault:empty-verifier", cases)
                for name, w in near_misses(rng, v):
                    run_flow(ctx, prov, ce, c, m, w, None, "fault:verifier-" + name, cases)
                # downgrade attempts: the challenge itself replayed as verifier, token request says plain
                run_flow(ctx, prov, ce, c, m, c, "plain", "fault:downgrade-plain", cases)
                run_flow(ctx, prov, ce, c, m, v, "plain", "token-method-plain", cases)
                run_flow(ctx, prov, ce, c, m, v, "nonsense", "token-method-unknown", cases)
                # a verifier that belongs to another flow
                v2 = rstr(rng, len(v))
                run_flow(ctx, prov, ce, c, m, v2, None, "fault:other-flow-verifier", cases)
                # challenge computed with another method than the one named
                for m2 in ALL:
                    if m2 != m:
                        run_flow(ctx, prov, ce, ref_tr(m2, v), m, v, None, "fault:challenge-of-%s" % m2, cases)
                # challenge near misses
                for name, c2 in near_misses(rng, c)[:4]:
                    run_flow(ctx, prov, ce, c2, m, v, None, "fault:challenge-" + name, cases)
                # method faults
                for bad in ("s256", "S1", "none", "S256 ", "PLAIN"):
                    run_flow(ctx, prov, ce, c, bad, v, None, "fault:unknown-method", cases)
                run_flow(ctx, prov, ce, None, m, v, None, "fault:no-challenge", cases)
                run_flow(ctx, prov, ce, "", m, v, None, "fault:empty-challenge", cases)
                run_flow(ctx, prov, ce, None, None, None, None, "no-pkce", cases)


def lengths_and_alphabets(ctx, provs, rng, cases):
    alphas = [("unreserved", UNRES), ("ascii-other", " !\"#$%&'()*+,/:;<=>?@[\\]^`{|}"), ("non-ascii", "åäöé€λж"),
              ("mixed", UNRES + "å +/=")]
    for prov in provs[:4]:
        for n in (0, 1, 42, 43, 64, 128, 129, 1000):
            for an, alpha in alphas:
                if n == 1000 and an != "unreserved":
                    continue
                v = rstr(rng, n, alpha)
                for m in ALL:
                    if n == 1000 and m not in ("plain", "S256"):
                        continue
                    c = ref_tr(m, v)
                    if c is None:
                        # no transform exists (non-ASCII under a hash method): the best an attacker can send
                        c = rstr(rng, 43)
                    run_flow(ctx, prov, None, c, m, v, None, "length:%d:%s" % (n, an), cases)
                    if n and rng.random() < 0.3:
                        w = v[:-1] + ("å" if an != "non-ascii" else "a")
                        run_flow(ctx, prov, None, c, m, w, None, "length-fault:%d:%s" % (n, an), cases)


def random_flows(ctx, provs, rng, cases, n):
    pool_m = ALL + ["S1", "", "s256"]
    for _ in range(n):
        prov = rng.choice(provs)
        ce = rng.choice([None, None, True, False])
        v = rstr(rng, rng.choice([1, 43, 44, 64, 128]), rng.choice([UNRES, UNRES, UNRES + "å="]))
        m = rng.choice(pool_m)
        c = ref_tr(m, v) if m in ALL else v
        if c is None:
            c = rstr(rng, 43)
        cc = rng.choice([c, c, c, None, "", v, rstr(rng, 43)])
        ccm = rng.choice([m, m, m, None, rng.choice(pool_m)])
        cv = rng.choice([v, v, v, None, "", c, v[:-1], v + "=", v.swapcase()])
        tccm = rng.choice([None, None, "plain", "S256", m])
        run_flow(ctx, prov, ce, cc, ccm, cv, tccm, "random", cases)


# ---------------------------------------------------------------- the real relying party
def make_rp(secret):
    from idpyoidc.client.defaults import DEFAULT_OAUTH2_SERVICES
    from idpyoidc.client.entity import Entity
    from idpyoidc.client.oauth2.add_on import do_add_ons
    config = {
        "client_id": "client_1", "client_secret": secret,
        "redirect_uris": ["https://client_1.example.com/cb"],
        "preference": {"response_types": ["code"]},
        "add_ons": {"pkce": {"function": "idpyoidc.client.oauth2.add_on.pkce.add_support",
                             "kwargs": {"code_challenge_length": 64, "code_challenge_method": "S256"}}},
    }
    ent = Entity(config=config, services=DEFAULT_OAUTH2_SERVICES, client_type="oauth2")
    do_add_ons(config["add_ons"], ent.get_services())
    return ent


def rp_cases(ctx, provs, rng, cases, rpcases, unres_cases):
    import idpyoidc.client.oauth2.add_on.pkce as cp
    import idpyoidc.client.util as cu
    from idpyoidc.message.oauth2 import AuthorizationResponse
    # the real generator: alphabet check only (its randomness is not ours)
    for n in (0, 1, 43, 64, 128, 300):
        s = cu.unreserved(n)
        if len(s) != n:
            ctx.violation("rp-verifier-length", "unreserved(%d) returned %d characters" % (n, len(s)), {"unreserved": n})
        unres_cases.append(("(%s, true)" % coq_str(s), {"unreserved": s}))
    unres_cases.append(("(%s, false)" % coq_str("ab c"), {"unreserved": "ab c"}))
    alphabet = cu.BASECHR
    real_unreserved = cp.unreserved
    cp.unreserved = lambda size=64: "".join(rng.choice(alphabet) for _ in range(size))
    try:
        ent = make_rp(provs[0].server.context.cdb["client_1"]["client_secret"])
        rctx = ent.get_context()
        azs = ent.get_service("authorization")
        tks = ent.get_service("accesstoken")
        seq = 0
        for method in ("S256", "S384", "S512", "plain", "S1", None):
            for length in (None, 0, 1, 42, 43, 64, 128, 129, 1000):
                if length == 1000 and method not in ("S256", None):
                    continue
                kw = {}
                if method is not None:
                    kw["code_challenge_method"] = method
                if length is not None:
                    kw["code_challenge_length"] = length
                rctx.add_on["pkce"] = kw
                for prov in provs:
                    if length in (1, 42, 129, 1000) and prov is not provs[0] and rng.random() < 0.7:
                        continue
                    seq += 1
                    state = "rpstate%d" % seq
                    rec = {"kind": "rp", "rp_method": method, "rp_length": length,
                           "provider": {"methods": prov.methods, "essential": prov.essential, "oidc": prov.oidc}}
                    try:
                        areq = azs.construct_request({"state": state, "response_type": "code"}).to_dict()
                    except Exception as e:
                        rec["rp_outcome"] = type(e).__name__
                        ctx.case_seen(rec, True)
                        ctx.count("rp:" + type(e).__name__)
                        if type(e).__name__ == "Unsupported":
                            rpcases.append(("(%s, %s, %s, %s)" % (s_opt(method), coq_str(""), hb_table([]),
                                                                  "(@Err (pystr * pystr) (Refused 5%N))"), rec))
                        else:
                            ctx.mismatch("relying party raised %r" % e, rec)
                        break
                    item = rctx.cstate.get_set(state, claim=["code_verifier"])
                    v = item.get("code_verifier", "")
                    cc, ccm = areq.get("code_challenge"), areq.get("code_challenge_method")
                    rec.update({"code_challenge": cc, "code_challenge_method": ccm, "code_verifier": v})
                    want_len = 64 if length is None else length
                    if len(v) != want_len:
                        ctx.violation("rp-verifier-length", "RP configured with length %r drew a verifier of %d characters"
                                      % (length, len(v)), rec)
                    rpcases.append(("(%s, %s, %s, (Ok (%s, %s)))" % (s_opt(method), coq_str(v), hb_table([v]),
                                                                      coq_str(cc or ""), coq_str(ccm or "")), rec))
                    # oracle for the RP alone: the challenge is the RFC transform of the verifier it will send
                    if ref_tr(ccm, v) != cc:
                        ctx.violation("rp-challenge-wrong", "RP sent code_challenge %r for verifier %r under %r" % (cc, v, ccm), rec)
                    # send it to the provider
                    prov.set_client_flag(None)
                    areq["scope"] = "openid"
                    a = prov.authz_req(areq)
                    if a[0] == "code":
                        rctx.cstate.update(state, AuthorizationResponse(code=a[1], state=state))
                        treq = tks.construct_request(state=state).to_dict()
                        sent_v = treq.get("code_verifier")
                        out = prov.token_req(treq)
                    else:
                        sent_v = None
                        out = a
                    rec["token_code_verifier"] = sent_v
                    rec["outcome"] = list(out)
                    ctx.case_seen(rec, True)
                    ctx.count("rp:" + out[0] + (str(out[1]) if len(out) > 1 else ""))
                    supported = ccm in prov.methods
                    # RP-agree oracle. Configuration domain: code_challenge_length >= 1 (a length of 0 is outside
                    # the supported configuration space: the RP then sends no verifier at all and the provider must
                    # refuse; that flow is still run and compared with the model, C15_rp_op_agree_refuted).
                    if supported and out[0] != "Tokens" and v != "":
                        ctx.violation("rp-op-disagree",
                                      "pair produced by the library's RP (method %r, verifier length %d) refused by the "
                                      "library's provider (configured %r): %r" % (ccm, len(v), prov.methods, out), rec)
                    if v == "":
                        ctx.count("rp:length-0-outside-oracle-domain")
                    oracle(ctx, prov, {"code_challenge": cc, "code_challenge_method": ccm, "code_verifier": sent_v,
                                       "pkce_essential": None, **rec}, out, bool(cc), prov.essential)
                    term = "(%s, %s, %s, %s, %s, %s, %s, %s, %s)" % (
                        coq_list([coq_str(m) for m in prov.methods], "pystr"), coq_bool(prov.essential), b_opt(None),
                        s_opt(cc), s_opt(ccm), s_opt(sent_v), s_opt(None),
                        hb_table([sent_v]), coq_outcome(out))
                    cases.append((term, rec))
    finally:
        cp.unreserved = real_unreserved


def downgrade_pairs(ctx, provs, rng, cases):
    """same flow with and without a token-request method: outcomes must be equal (oracle, property text:
    'under the method recorded at authorization time')."""
    for prov in provs:
        for m in ALL:
            v = rstr(rng, 43)
            c = ref_tr(m, v)
            for cv in (v, c, v + "x"):
                base = run_flow(ctx, prov, None, c, m, cv, None, "pair-base", cases)
                for t in ("plain", "S256", "S512", "zzz"):
                    o = run_flow(ctx, prov, None, c, m, cv, t, "pair-variant", cases)
                    if o != base:
                        ctx.violation("token-method-honoured",
                                      "outcome changes from %r to %r when the token request adds code_challenge_method=%r"
                                      % (base, o, t), {"provider": prov.methods, "m": m, "cv": cv, "c": c})


def browser_session_flows(ctx, provs, rng, cases):
    """several authorizations from one browser session (the session cookie of the first response is presented again,
    new state, new challenge): every code is bound to the challenge of ITS OWN authorization request"""
    for prov in provs:
        prov.set_client_flag(None)
        for m in [x for x in ALL if x in prov.methods][:3]:
            vs = [rstr(rng, 43) for _ in range(4)]
            cs = [ref_tr(m, v) for v in vs]
            a0 = prov.authz(cs[0], m, state="S0")
            ck = getattr(prov, "last_cookie", None)
            if a0[0] != "code" or not ck:
                ctx.notes.append("browser session flow: no cookie / code on %r (%r)" % (prov.methods, a0))
                continue
            ctx.count("browser-session:" + m)
            # later requests of the same browser; the verifier of an EARLIER request must not redeem a later code
            for i, (own, other) in enumerate([(1, 0), (2, 1), (3, 0)]):
                a = prov.authz(cs[own], m, state="S%d" % own, cookie=ck)
                ck = getattr(prov, "last_cookie", None) or ck
                if a[0] != "code":
                    record_flow(ctx, prov, None, cs[own], m, vs[own], None, "browser-later-refused", cases, a)
                    continue
                out = prov.token(a[1], vs[other], None)
                record_flow(ctx, prov, None, cs[own], m, vs[other], None, "browser-earlier-verifier", cases, out,
                            note="code of request %d, verifier of request %d, same browser session" % (own, other))
                if out[0] != "Tokens":
                    out2 = prov.token(a[1], vs[own], None)
                    record_flow(ctx, prov, None, cs[own], m, vs[own], None, "browser-own-verifier", cases, out2,
                                note="code of request %d with its own verifier (after a refused attempt)" % own)
            # a later request WITHOUT a challenge from the same browser must not inherit the first one's binding
            if not prov.essential:
                a = prov.authz(None, None, state="S9", cookie=ck)
                if a[0] == "code":
                    out = prov.token(a[1], None, None)
                    record_flow(ctx, prov, None, None, None, None, None, "browser-no-pkce-after-pkce", cases, out)


def build_providers():
    import srv
    provs = []
    for methods in (None, ["S256"], ["plain", "S256"], ["S256", "S512"]):
        for essential in (True, False):
            provs.append(Prov(srv, methods, essential, True))
    provs.append(Prov(srv, None, True, False))      # plain OAuth2 authorization server
    return provs


def run(ctx):
    import logging
    logging.getLogger("idpyoidc").setLevel(logging.CRITICAL)
    rng = ctx.rng
    provs = build_providers()
    cases, rpcases, unres = [], [], []
    single_faults(ctx, provs, rng, cases)
    presence_table(ctx, provs, rng, cases)
    lengths_and_alphabets(ctx, provs, rng, cases)
    downgrade_pairs(ctx, provs, rng, cases)
    browser_session_flows(ctx, provs, rng, cases)
    rp_cases(ctx, provs, rng, cases, rpcases, unres)
    random_flows(ctx, provs, rng, cases, 600 if ctx.quick else 30000)
    imp = ["Lib.Base", "Lib.PyStr", "Lib.PkceTy", "Gen.PkceTables", "Model.Pkce"]
    ctx.coq_check_cases(imp, "flow_case", "chk_flow", cases, shard=400, label="flow", diag="flow_model")
    ctx.coq_check_cases(imp, "rp_case", "chk_rp", rpcases, shard=200, label="rp", diag="rp_model")
    ctx.coq_check_cases(imp, "pystr * bool", "chk_unreserved", unres, shard=200, label="unres")


def replay(ctx, rp):
    """Re-run the recorded flow (or, for a broken obligation, the generator with the recorded seed)."""
    case = rp.get("case") or {}
    if "code_challenge" in case and "provider" in case and case.get("kind") != "rp":
        import srv
        p = case["provider"]
        prov = Prov(srv, p["methods"], p["essential"], p.get("oidc", True))
        cases = []
        out = run_flow(ctx, prov, case.get("pkce_essential"), case.get("code_challenge"), case.get("code_challenge_method"),
                       case.get("code_verifier"), case.get("token_code_challenge_method"), "replay", cases)
        ctx.notes.append("replayed flow outcome: %r (recorded %r)" % (out, case.get("outcome")))
        imp = ["Lib.Base", "Lib.PyStr", "Lib.PkceTy", "Gen.PkceTables", "Model.Pkce"]
        ctx.coq_check_cases(imp, "flow_case", "chk_flow", cases, label="replay", diag="flow_model")
        return
    ctx.notes.append("replay re-runs the generator with the recorded seed")
    ctx.rng.seed(rp.get("seed", ctx.seed))
    run(ctx)
