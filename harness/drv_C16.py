"""C16 driver — request objects (by value, by request_uri, pushed) and the PAR store.

Drives the REAL authorization and pushed-authorization endpoints (OAuth2 and OIDC flavour, three
client-authentication set-ups of the authorization endpoint) with request objects derived from a genuine
one, and PAR operation sequences under a controlled clock, including redemptions through spellings of an
issued request_uri that are not the issued string (SPELLINGS).  Every case is a trace of operations; the
Gallina model (Model/Jar.v) is evaluated on the same trace inside coqc (Model/JarCheck.v chk_compact).
The oracle below is written from the property text and uses only the generator's ground truth
(who signed what with which algorithm; which uri was pushed when).
The registered algorithm of a client is written into the client database for the static clients; a third client
registers through the REAL registration endpoint (gen_registered): there the ground truth is what the client asked for
and what the provider advertises, the model's `register` step yields the provider the trace is evaluated on.
Registration HISTORIES (gen_histories): the same id is registered again with other key material; the ground truth is the
material of the registration in force (the latest accepted one), the model (Model/JarReg.v) computes the key jar entry
and the record of the id from the history and the trace is evaluated on the provider the model says there is.
"""
import copy
import json

import engine as E
from engine import coq_str, coq_list, coq_bool, coq_z, coq_n, coq_nat, coq_opt

RULE = ("a case is a trace of operations on one real provider: authorization parse_request (request object by value / "
        "by request_uri served by a stub httpc / redeeming a pushed request) | PAR parse+process | clock tick. "
        "(1) single-fault matrix, enumerated: genuine object of client_1 x {6 algorithms, unsigned, unsigned with left-over "
        "signature, tampered payload, header alg swapped in/across families, signature missing, foreign keys (other client, "
        "outsider, provider's own) x iss values, iss absent, inner client_id/redirect_uri/scope/state conflicts, missing inner "
        "parameters, malformed} x 3 transports x {OAuth2, OIDC} x 3 client-authn set-ups; "
        "(2) algorithm matrix: signing alg x registered request_object_signing_alg {absent, RS256, ES256, HS256, none, list, ES256K} "
        "x provider supported sets {default, [RS256,ES256], [RS256,none]} x 3 transports x flavours; "
        "(3) random multi-fault; (4) PAR op orders over {push, redeem-first, redeem-latest, tick, re-push} exhaustive up to "
        "length 4 (quick) / 6 (thorough), random beyond, ttl 10 s, tick 6 s; "
        "(5) request_uri spellings: every spelling of an issued urn that is not the issued string (case of scheme / NID / hex "
        "digits, surrounding whitespace, trailing fragment / query / slash, percent-encoded characters, UUID without dashes / in "
        "braces) x every word P{V,L}^1..3 with a V (V = redeem through the spelling, L = through the exact urn: before, after, "
        "repeatedly) + words with a signed push, ticks and two pushes, x {OAuth2, OIDC}; random words mixing spellings. "
        "(6) the wrapper dimension: a JWE to the provider's RSA-OAEP / ECDH-ES key around {claims nobody signed, alg=none JWS, JWS under a "
        "foreign / another client's key, signature not covering the payload, no signature, genuine RS256/ES256/HS256 (permitted or not "
        "by the configuration)}, a JWE to a key the provider lacks, truncated / altered JWEs, x registered request_object_signing_alg "
        "{absent, RS256, ES256, HS256, none} x provider sets x 3 transports x flavours x cty {absent, JWT}; other cty / alg / enc "
        "header values, JWE in JWE, other plaintexts; registered request_object_encryption_alg/_enc matching / not matching the wrapper "
        "x provider sets; claims of another client inside the wrapper x client-authn set-ups; PAR words with wrapped pushes; random. "
        "(7) the registration dimension: a third client registers through the REAL registration endpoint (parse_request + "
        "process_request; JWKS with RSA / P-256 / P-384 / P-521 / Ed25519 keys, subsets, no JWKS) asking for every JOSE signing "
        "algorithm {RS/PS/ES256-512, EdDSA, HS256-512, none}, nothing, or a value outside JOSE, at providers whose OWN key set is "
        "{RSA+P-256, RSA, P-256, RSA+P-384, all types} and whose request_object_signing_alg_values_supported is {default, three "
        "restricted lists} (contains / lacks the value); the response, the client database and the registration-read endpoint are "
        "compared; then objects signed with the algorithm asked for, with other advertised algorithms (one per key family) under "
        "keys the client registered, HS256 with its client secret, unsigned, under a foreign key, x 3 transports against that "
        "client; refused registrations followed by objects in the client's name; static clients next to a registered one; random. "
        "(8) registration HISTORIES: the id of the third client is registered 1..3 times (the first through parse_request + "
        "process_request, the later ones Registration.process_request(..., new_id=False) - the library's registration update / re-use "
        "of an id), each registration bringing {a jwks, a jwks_uri document served by the stub httpc at the step's own URI or "
        "(accepted republication) at the URI of an earlier step, an empty jwks, no key material at all} with keys of generation {0,1,2} (all / fewer / mixed generations / the first generation again) and being issued a new "
        "client_secret, accepted or refused (a refused one in first / middle position), asking for request_object_signing_alg by "
        "position patterns; after every prefix of every history: RS256 / ES256 objects under the keys of EVERY generation, HS256 "
        "objects under the secret of EVERY registration (also refused / never made ones), unsigned, x 3 transports; the key jar entry "
        "of the id is read after every registration; same keys with a changing registered algorithm; static clients next to it; random "
        "histories x random objects x provider key sets. "
        "Non-trivial = at least one object/pushed request "
        "is accepted or a refusal is caused by exactly one fault, or a registration was accepted (and what it stored was judged).")
ASSUMPTIONS = [
    "JWS signatures are ideal (symbolic Sig k (alg, claims)): verification succeeds iff the verifier holds key k and header/payload are the signed ones",
    "cryptojwt KeyJar/JWS key selection is as transcribed in Model/Jar.v lookup_keys / try_verify (one key per issuer and key type in the harness)",
    "C16_unforgeable (Section Unforgeable: Variable K, k0, Hypothesis secret): the private key k0 of an honest client never occurs in anything published",
    "the httpc fetch of a request_uri is an arbitrary finite table url -> document (docs); theorems hold for every table",
    "uuid4 request_uri values are fresh (never issued twice): C16_par_once assumes NoDup of the pushed request_uris",
    "client authentication at the PAR endpoint is C01's subject: the harness always presents valid credentials of the pusher",
    "redirect URIs are simple https URIs compared as strings (URI matching is C06's subject)",
    "an encrypted wrapper (JWE) is ideal: it opens iff it is addressed to a key the provider holds and is intact (Model/Jar.v jwe_state); "
    "the key-management / content-encryption algorithms do not matter (both RSA-OAEP and ECDH-ES are driven)",
    "client authentication by request_param (Model/Jar.v request_param): the method answers an identity only for a JWS whose signature "
    "verified under a key of its iss - bare, or inside a wrapper whose header says cty JWT; on claims nobody signed inside a wrapper it "
    "gives up and the next configured method decides, as on an alg=none JWS (library repair f092826; before it the iss of such claims was "
    "taken as the authenticated client and the model transcribed that); a wrapper without cty JWT around a JWS is read as raw text and "
    "given up on too, so there the wrapper carries less authority than the bare JWS (the exception left in C16_wrapper_by_value)",
    "jti/exp/nbf claims, nested request/request_uri claims are outside the modelled fragment",
    "dynamic registration (Model/Jar.v register): only request_object_signing_alg is transcribed; whether the rest of a registration "
    "request is acceptable is C19's subject and enters as the flag rq_ok; the client_id the provider assigns is new (fixed by a "
    "client_id_generator in the harness); the keys of the JWKS are in the key jar afterwards (observed, not modelled)",
    "registration histories (Model/JarReg.v reregister / after / latest): a registration under an id replaces the id's record and "
    "key jar entry by what THIS request brings plus the secret issued for it (transcribed from Registration.client_registration_setup; "
    "a refused one changes nothing); the key numbers a registration brings are the generator's ground truth, the key jar entry the "
    "model computes is compared with the live key jar after every registration; every registration is issued a secret "
    "(set_secret=True, the library's default); OKP keys are outside the model",
    "keys registered BY REFERENCE (jwks_uri) are whatever the client serves at the registered URI; refresh rule modelled: an "
    "accepted registration deletes the id's key jar entry and files a fresh KeyBundle for the URI, which fetches the document at "
    "its first use (the harness reads the key jar right after every registration: that is the first use; the KeyBundle's httpc "
    "is set to the stub httpc); the document behind the URI of the registration IN FORCE is not replaced after that registration "
    "(every registration of a history publishes at its OWN URI jwks/<index>.json, so a refused or replaced by-reference "
    "registration cannot change what the one in force refers to; the deliberate same-URI rows - uri-republished, "
    "uri-republished-jwks-between, random `doc` - republish through an ACCEPTED registration, which is then in force itself, so "
    "the keys in force = the keys it brought = what is served at its URI; the driver reports a generator error otherwise).  "
    "A document replaced behind the back of the registration in force, picked up by KeyBundle.update on a missing-key look-up "
    "or a time-out, is key refresh: outside the modelled fragment of C16",
    "observation (not a violation; decided with the property's owner): a requested request_object_signing_alg the provider does NOT "
    "advertise is dropped by the registration negotiation (filter_client_request / match_claim), the registration is accepted with 201 "
    "and the response / client database / read endpoint all lack the parameter, so the provider's supported set is what is permitted "
    "for that client - including unsigned objects when the provider lists \"none\" (C16_registered_dropped); the oracle judges such a "
    "client by the value the registration response echoes",
    "EdDSA (OKP keys) is driven and judged by the oracle but outside the modelled fragment (alg_kind answers AlgUnknown)",
    "a statically configured client is a record the deployer writes into the client database (no library code between the "
    "configuration and context.cdb): that is what World.configure does",
]

ISS = "https://example.com/"
JWS = "<JWS>"
LIST_PARAMS = ("scope", "response_type")


# ------------------------------------------------------------------ spellings of an issued request_uri
# urn = "urn:uuid:" + 36 characters.  Every entry yields a string that names the same URN to a tolerant reader but is
# not the string that was issued (when the UUID happens to have no letter a case entry can coincide with the issued
# string: the oracle compares strings, so that is then simply a redemption through the issued request_uri).
def _pct(t):
    return "".join("%%%02X" % ord(c) for c in t)


def _flip_one(u):
    for i in range(9, len(u)):
        if u[i].isalpha():
            return u[:i] + u[i].swapcase() + u[i + 1:]
    return u


SPELLINGS = [
    ("hex-upper", lambda u: u[:9] + u[9:].upper()),
    ("hex-one-letter", _flip_one),
    ("scheme-upper", lambda u: "URN" + u[3:]),
    ("nid-upper", lambda u: u[:4] + "UUID" + u[8:]),
    ("prefix-upper", lambda u: "URN:UUID:" + u[9:]),
    ("prefix-title", lambda u: "Urn:Uuid:" + u[9:]),
    ("all-upper", lambda u: u.upper()),
    ("swapcase", lambda u: u.swapcase()),
    ("lead-space", lambda u: " " + u),
    ("trail-space", lambda u: u + " "),
    ("both-space", lambda u: "  " + u + " "),
    ("lead-tab", lambda u: "\t" + u),
    ("trail-newline", lambda u: u + "\n"),
    ("trail-crlf", lambda u: u + "\r\n"),
    ("trail-nbsp", lambda u: u + "\u00a0"),
    ("fragment", lambda u: u + "#x"),
    ("empty-fragment", lambda u: u + "#"),
    ("query", lambda u: u + "?x=1"),
    ("empty-query", lambda u: u + "?"),
    ("trail-slash", lambda u: u + "/"),
    ("pct-colons", lambda u: "urn%3Auuid%3A" + u[9:]),
    ("pct-colons-lower", lambda u: "urn%3auuid%3a" + u[9:]),
    ("pct-first-hex", lambda u: u[:9] + "%%%02x" % ord(u[9]) + u[10:]),
    ("pct-dashes", lambda u: u[:9] + u[9:].replace("-", "%2D")),
    ("pct-uuid", lambda u: u[:9] + _pct(u[9:])),
    ("pct-scheme-letter", lambda u: "%75" + u[1:]),
    ("pct-everything", lambda u: _pct(u)),
    ("no-dashes", lambda u: u[:9] + u[9:].replace("-", "")),
    ("braces", lambda u: u[:9] + "{" + u[9:] + "}"),
    ("plus-for-space", lambda u: u + "+"),
]
SPELL = dict(SPELLINGS)


# ------------------------------------------------------------------ Coq literals
CONST = {"client_id": "k_client_id", "redirect_uri": "k_redirect_uri", "scope": "k_scope", "state": "k_state",
         "response_type": "k_response_type", "request": "k_request", "request_uri": "k_request_uri", "iss": "k_iss",
         "aud": "k_aud", "authenticated": "k_authenticated", "nonce": "k_nonce", "True": "s_true",
         "client_1": "s_c1", "client_2": "s_c2", "https://client_1.example.com/cb": "s_r1",
         "https://client_2.example.com/cb": "s_r2", "openid": "s_openid", "email": "s_email", "code": "s_code",
         "https://example.com/": "s_op", "<JWS>": "s_jws", "RS256": "s_rs256", "ES256": "s_es256", "HS256": "s_hs256",
         "RS384": "s_rs384", "none": "s_none", "in0": "s_in0", "out0": "s_out0",
         "https://client_1.example.com/ro/0": "s_doc0", "RSA-OAEP": "s_rsa_oaep", "ECDH-ES": "s_ecdh_es",
         "A256GCM": "s_a256gcm", "A128GCM": "s_a128gcm", "client_d": "s_cd", "https://client_d.example.com/cb": "s_rd",
         "ES384": "s_es384", "ES512": "s_es512", "RS512": "s_rs512", "PS256": "s_ps256", "PS384": "s_ps384", "PS512": "s_ps512",
         "HS384": "s_hs384", "HS512": "s_hs512", "ind": "s_ind", "outd": "s_outd"}
_coq_str = coq_str


def coq_str(s):
    return CONST.get(s) or _coq_str(s)


def canon_claims(c):
    out = {}
    for k, v in c.items():
        if k in LIST_PARAMS and isinstance(v, str):
            v = v.split(" ")
        out[k] = v
    return out


def coq_pv(v):
    if isinstance(v, (list, tuple)):
        return "(PL_ %s)" % coq_list([coq_str(x) for x in v], "pystr")
    return "(PS_ %s)" % coq_str(v)


def coq_params(d):
    return coq_list(["(%s, %s)" % (coq_str(k), coq_pv(v)) for k, v in d.items()], "(pystr * pv)")


JSTATE = {None: "JOpens", "tag": "JDamaged", "cut": "JDamaged", "seg4": "JDamaged"}


def coq_wobj(o):
    import srv_c16 as S
    if "bad" in o:
        return "WBad"
    if "jwe" in o:
        h, inner = o["jwe"], o["inner"]
        st = "JNoKey" if h["to"] != "OP" else JSTATE[h.get("damage")]
        hdr = "(jhdr %s %s %s %s)" % (coq_str(h["alg"]), coq_str(h["enc"]), coq_bool((h.get("cty") or "").lower() == "jwt"), st)
        if "json" in inner:
            return "(wencj %s %s)" % (hdr, coq_params(canon_claims(inner["json"])))
        if "text" in inner or "jwe" in inner:
            return "(WEnc %s IOther)" % hdr
        return "(wenc %s %s)" % (hdr, coq_wobj(inner))
    sg = o.get("sig")
    cl = coq_params(canon_claims(o["claims"]))
    if sg is None:
        return "(WObj %s %s None)" % (coq_str(o["alg"]), cl)
    k = coq_nat(S.keynum(sg["owner"], S.slot_of(sg["alg"]) if S.gen_of(sg["owner"])[0] == S.DYN else S.ALG_KTY[sg["alg"]]))
    if sg["alg"] == o["alg"] and canon_claims(sg["claims"]) == canon_claims(o["claims"]) and list(sg["claims"]) == list(o["claims"]):
        return "(wgen %s %s %s)" % (coq_str(o["alg"]), cl, k)
    return "(wsig %s %s %s %s %s)" % (coq_str(o["alg"]), cl, k, coq_str(sg["alg"]), coq_params(canon_claims(sg["claims"])))


def coq_wopt(o):
    return "None" if o is None else "(Some %s)" % coq_wobj(o)


def coq_reg(v):
    if v is None:
        return "RAbsent"
    if isinstance(v, str):
        return "(RStr %s)" % coq_str(v)
    return "(RList %s)" % coq_list([coq_str(x) for x in v], "pystr")


METH = {"request_param": "MReqParam", "public": "MPublic", "none": "MNoneM"}
HOOK = {"Authorization._do_request_uri": "HDoRequestUri", "PushedAuthorization._do_request_uri": "HParRequestUri",
        "Authorization._post_parse_request": "HPostParse"}


def coq_cfg_var(oc):
    """the per-case variable part of the configuration (compact)"""
    sl = lambda l: coq_list([coq_str(x) for x in l], "pystr")
    cl = coq_list(["(%s, %s, %s, %s, %s)" % (coq_str(c["cid"]), coq_reg(c["reg"]),
                                               coq_opt(c["request_uris"], sl, "(list pystr)"),
                                               coq_opt(c.get("enc_alg"), coq_str, "pystr"), coq_opt(c.get("enc_enc"), coq_str, "pystr"))
                   for c in oc["clients"]], "(pystr * regalg * option (list pystr) * option pystr * option pystr)")
    return "(%s, %s, %s, %s, %s, %s, %s, %s, %s, %s, %s, %s)" % (
        coq_bool(oc["oidc"]), coq_bool(oc["has_par"]), coq_list([METH[m] for m in oc["methods"]], "meth"),
        coq_bool(oc["methods_configured"]), coq_list([HOOK.get(h, "HOther") for h in oc["hooks"]], "hook"),
        coq_list([HOOK.get(h, "HOther") for h in oc["par_hooks"]], "hook"),
        "None" if oc["prov_algs"] == oc.get("prov_default") else "(Some %s)" % coq_list([coq_str(a) for a in oc["prov_algs"]], "pystr"),
        coq_bool(oc["ru_supported"]), coq_z(oc["ttl"]), cl,
        coq_opt(oc.get("prov_enc_algs"), sl, "(list pystr)"), coq_opt(oc.get("prov_enc_encs"), sl, "(list pystr)"))


KTY = {"RSA": "KRsa", "EC": "KEc", "oct": "KOct"}


def coq_static(oc):
    jar = coq_list(["(%s, %s)" % (coq_str(i), coq_list(["(%s, %s)" % (KTY[t], coq_nat(n)) for t, n in ks], "(kty * nat)"))
                    for i, ks in oc["jar"]], "(pystr * list (kty * nat))")
    base = coq_list(["(%s, %s, %s)" % (coq_str(c["cid"]), coq_list([coq_str(u) for u in c["redirect_uris"]], "pystr"),
                                         coq_list([coq_list([coq_str(x) for x in rt], "pystr") for rt in c["response_types"]], "(list pystr)"))
                     for c in oc["clients"]], "(pystr * list pystr * list (list pystr))")
    return jar, base, coq_list([coq_str(a) for a in oc["prov_default"]], "pystr")


def coq_out(o):
    if o["k"] == "acc":
        p = dict(o["params"])
        if "request" in p:
            p["request"] = JWS
        return "(BAcc %s %s)" % (coq_bool(o["vr"]), coq_params(p))
    if o["k"] == "err":
        code = {"invalid_request": 1, "unauthorized_client": 2}.get(o["error"], 9)
        st = "None" if o["state"] is None else "(Some %s)" % coq_pv(o["state"])
        return "(BErr %s %s %s)" % (coq_n(code), coq_n(o["desc"]), st)
    return "(BExc %s)" % coq_n(o["tag"])


def coq_op(op):
    if op[0] == "authz":
        outer = dict(op[1])
        if "request" in outer:
            outer["request"] = JWS
        return "(OAuthz %s %s)" % (coq_params(outer), coq_wopt(op[2]))
    if op[0] == "push":
        body = dict(op[2])
        if "request" in body:
            body["request"] = JWS
        return "(OPush %s %s %s %s)" % (coq_str(op[1]), coq_params(body), coq_wopt(op[3]), coq_str(op[4] or "urn:none"))
    return "(OTick %s)" % coq_z(op[1])


def coq_obs(ob):
    keys = coq_list([coq_str(k) for k in ob.get("keys", [])], "pystr")
    if ob["t"] == "authz":
        return "(BAuthz %s %s)" % (coq_out(ob["out"]), keys)
    if ob["t"] == "push":
        pr = ob["proc"]
        p = "BPNone" if pr is None else ("(BUrn %s)" % coq_z(pr["expires_in"]) if pr["k"] == "urn" else "(BPExc %s)" % coq_n(pr["tag"]))
        st = ob["stored"]
        if st is None:
            s = "None"
        else:
            ps = dict(st["params"])
            ps.pop("__par_expires_at", None)
            if "request" in ps:
                ps["request"] = JWS
            s = "(Some (%s, %s, %s))" % (coq_bool(st["vr"]), coq_params(ps), coq_z(ob["left"]))
        return "(BPush %s %s %s %s)" % (coq_out(ob["out"]), p, s, keys)
    return "BTick"


# ------------------------------------------------------------------ ground-truth helpers
def modelled(world_oidc, ops, docs):
    """inputs outside the fragment of Model/Jar.v (the oracle still judges them)"""
    import srv_c16 as S

    def obj_ok(o):
        if o is None or "bad" in o:
            return True
        if "jwe" in o:
            inner = o["inner"]
            if "text" in inner or "jwe" in inner:
                return True
            if "json" in inner:
                return obj_ok({"alg": "none", "claims": inner["json"], "sig": None})
            return obj_ok(inner)
        if o["alg"] not in S.ALG_KTY or S.ALG_KTY[o["alg"]] == "OKP":
            return False
        if o.get("sig") and S.ALG_KTY.get(o["sig"]["alg"]) == "OKP":
            return False
        for c in [o["claims"]] + ([o["sig"]["claims"]] if o.get("sig") else []):
            if any(k in c for k in ("request", "request_uri", "id_token_hint", "prompt", "authenticated")):
                return False
            if any(not isinstance(v, (str, list)) for v in c.values()):
                return False
            sc = canon_claims(c).get("scope", [])
            if "offline_access" in sc:
                return False
            if world_oidc and "id_token" in canon_claims(c).get("response_type", []):
                return False
        return True

    for op in ops:
        if op[0] == "authz":
            if not obj_ok(op[2]) or any(k in op[1] for k in ("id_token_hint", "prompt")):
                return False
            if world_oidc and "id_token" in op[1].get("response_type", []):
                return False
            if "offline_access" in op[1].get("scope", []):
                return False
        elif op[0] == "push":
            if not obj_ok(op[3]) or any(k in op[2] for k in ("id_token_hint", "prompt")):
                return False
            if "offline_access" in op[2].get("scope", []):
                return False
    return all(obj_ok(o) for o in docs.values())


def permitted(alg, reg, prov):
    """the property's notion: the registered algorithm if there is one, else the provider's supported set"""
    if reg is None:
        return alg in prov
    if isinstance(reg, str):
        return alg == reg
    return alg in reg


class Runner:
    def __init__(self, ctx):
        import srv
        import srv_c16 as S
        self.ctx, self.S = ctx, S
        self.worlds = {}
        self.clock = None
        self.srv = srv
        self.cases = {}       # static literal -> list of (term, record)
        self.rcases = {}      # the same for registration + request-object traces (case type rcase)
        self.hcases = {}      # the same for registration HISTORIES + request-object traces (case type hcase, Model/JarReg.v)
        self.dyn_material = None      # ground truth: the (owner generation, slot) pairs of the registration in force for client_d
        self.dyn_ever = set()         # ... and everything any accepted registration under the id ever brought
        self.hist_stats = {"stored": 0, "again": 0, "refused": 0}
        self.known = ("client_1", "client_2")      # the clients the provider knows, by generator ground truth
        self.reg_stats = {"stored": 0, "refused": 0, "exact": 0, "dropped": 0}
        self.accepted_genuine = 0
        self.accepted_wrapped = set()
        self.hooks_bad = False

    def world(self, oidc, methods="all", has_par=True, ttl=3600, opkeys=None):
        key = (oidc, methods, has_par, ttl, opkeys)
        if key not in self.worlds:
            self.worlds[key] = (self.S.World(oidc, methods, has_par, ttl) if opkeys is None
                                else self.S.RegWorld(oidc, methods, has_par, ttl, opkeys))
            if self.clock is not None:
                self.clock.uninstall()
            self.clock = self.srv.Clock().install()
        return self.worlds[key]

    # ---- run one case on the real code
    def run_case(self, kind, wkey, conf, docs, ops, t0=1_700_000_000, note="", register=None, history=None):
        """conf: dict(reg=..., request_uris=..., prov_algs=..., ru_supported=...); docs: url -> symbolic object;
        ops: list of ("authz", outer, obj) | ("push", pusher, body, obj) | ("tick", dt) | ("redeem", who, which, outer_extra);
        register (worlds with a registration endpoint: wkey has a fifth component, the provider's own key set):
        {"alg": requested request_object_signing_alg | None, "slots": which of its public keys the JWKS carries,
         "ok": the rest of the request is acceptable, "over": other registration parameters} - client_d registers
        through the real registration endpoint before the operations run;
        history: a list of registrations under the id client_d (srv_c16.RegWorld.register_step: the first one creates
        the id, the later ones are Registration.process_request(..., new_id=False)), all before the operations run"""
        S, ctx = self.S, self.ctx
        w = self.world(*wkey)
        w.configure(**conf)
        self.clock.now = t0
        rec = {"kind": kind, "note": note, "world": {"oidc": wkey[0], "methods": wkey[1], "has_par": wkey[2], "ttl": wkey[3]},
               "conf": conf, "docs": docs, "ops": [], "t0": t0}
        if len(wkey) > 4:
            rec["world"]["opkeys"] = wkey[4]
        oc0 = robs = None
        self.pending = []       # verdicts on the registration: reported once the trace is recorded in rec
        self.known = ("client_1", "client_2")
        in_force = None
        self.dyn_material, self.dyn_ever = None, set()
        hobs = []
        if register is not None:
            oc0 = w.observed_config()          # the provider before the registration: the model's input
            oc0["prov_default"] = w.base_algs
            robs = w.register(register.get("alg"), register.get("slots") or [], register.get("over"))
            rec["register"], rec["registration"] = register, robs
            in_force = self.judge_registration(rec, w, register, robs, oc0["prov_algs"])
            if robs["k"] == "stored":
                self.dyn_material = {(S.DYN, sl) for sl in (register.get("slots") or []) if "jwks" not in (register.get("over") or {})}
                self.dyn_material.add((S.DYN, "oct"))
                self.dyn_ever = set(self.dyn_material)
        if history is not None:
            oc0 = w.observed_config()          # the provider before any registration under the id
            oc0["prov_default"] = w.base_algs
            rec["history"] = history
            # precondition of the ground truth (see ASSUMPTIONS): the document behind the jwks_uri of the registration in
            # force is not replaced afterwards (only a REFUSED registration could do that: an accepted one is in force itself)
            last = max([i for i, sp in enumerate(history) if not sp.get("refuse")], default=None)
            if last is not None and history[last].get("via") == "jwks_uri" and any(
                    sp.get("via") == "jwks_uri" and S.jwks_uri_of(j, sp) == S.jwks_uri_of(last, history[last])
                    for j, sp in enumerate(history) if j > last):
                ctx.broken.append("generator: history %r replaces the document at the jwks_uri of the registration in force after "
                                  "that registration (key refresh is outside the modelled fragment)" % (history,))
            for i, spec in enumerate(history):
                ho = w.register_step(i, spec)
                hobs.append(ho)
                in_force = self.judge_history_step(w, i, spec, ho, oc0["prov_algs"], in_force)
            rec["registrations"] = hobs
        for u, o in docs.items():
            w.docs[u] = w.wire(o)
        oc = w.observed_config()
        if not oc["hooks"] or oc["hooks"][-1] != "Authorization._post_parse_request":
            self.hooks_bad = True
        reg = {c["cid"]: c["reg"] for c in oc["clients"]}
        if register is not None:
            # ground truth for the dynamically registered client: what it asked for (when the provider advertises it),
            # never what the client database happens to hold
            reg.pop(S.DYN, None)
            if robs["k"] == "stored":
                reg[S.DYN] = in_force
        if history is not None:
            # ... and over a history: what the LATEST accepted registration asked for
            reg.pop(S.DYN, None)
            if self.dyn_material is not None:
                reg[S.DYN] = in_force
        prov = oc["prov_algs"]
        ledger = {}        # urn -> ground truth of the push that was issued this urn
        markers = {}       # state marker of pushed content -> urn issued for it
        trace = []
        nontrivial = False
        real_ops = []
        for op in ops:
            if op[0] == "tick":
                self.clock.tick(op[1])
                trace.append((op, {"t": "tick"}))
                rec["ops"].append({"op": "tick", "dt": op[1]})
                real_ops.append(op)
                continue
            if op[0] == "push":
                _, pusher, body, obj = op[:4]
                body = dict(body)
                ref = body.pop("__ref", None)            # re-push attempt: request_uri := a urn issued earlier
                if ref is not None:
                    urns = list(ledger.keys())
                    body["request_uri"] = urns[ref] if urns and -len(urns) <= ref < len(urns) else "urn:uuid:00000000-0000-4000-8000-000000000000"
                if obj is not None:
                    body["request"] = w.wire(obj)
                out, urn, proc = w.push(pusher, body)
                stored = w.stored(urn) if urn else None
                # remaining lifetime as stored; a stored request WITHOUT expiry marker never expires: recorded as 10**9
                left = 0
                if urn and urn in w.ctx.par_db:
                    _exp = w.ctx.par_db[urn].get("__par_expires_at")
                    left = (_exp - self.clock.now) if isinstance(_exp, int) else 10 ** 9
                ob = {"t": "push", "out": out, "proc": proc, "stored": stored, "left": left, "keys": sorted(w.ctx.par_db.keys())}
                full = ("push", pusher, body, obj, urn)
                trace.append((full, ob))
                real_ops.append(full)
                rec["ops"].append({"op": "push", "pusher": pusher, "body": {k: (JWS if k == "request" else v) for k, v in body.items()},
                                   "obj": obj, "urn": urn, "out": out, "proc": proc})
                ctx.count("push:" + out["k"] + ("/" + str(out.get("desc") or out.get("cls") or "")))
                if proc is not None and proc["k"] == "urn":
                    ledger[urn] = {"at": self.clock.now, "expires_in": proc["expires_in"], "pusher": pusher, "body": body, "obj": obj,
                                   "redeemed": False, "stored": stored}
                    mk = stored["params"].get("state") if stored else None
                    if mk is not None and mk not in markers:
                        markers[mk] = urn
                    if ref is not None:
                        # the PAR endpoint resolved a request_uri: content of another push lives on under a new uri
                        ctx.violation("par-repush-extends", "PAR endpoint accepted a pushed request carrying request_uri=%s and "
                                      "issued %s for it" % (body.get("request_uri"), urn), rec)
                    # the object pushed must be authenticated exactly like one passed by value
                    self.judge_object(rec, "pushed", obj, body, stored, pusher, reg, prov, when="push")
                    nontrivial = True
                continue
            if op[0] in ("authz", "redeem"):
                red_info = {}
                if op[0] == "redeem":
                    _, which, outer = op[:3]
                    urns = list(ledger.keys())
                    outer = dict(outer)
                    outer["request_uri"] = urns[which] if urns and -len(urns) <= which < len(urns) else "urn:uuid:11111111-0000-4000-8000-000000000000"
                    obj = op[3] if len(op) > 3 else None
                    spelling = op[4] if len(op) > 4 else None
                    red_info = {"which": which}
                    if spelling is not None:
                        # the request_uri presented is a spelling of the issued one, not the issued string
                        outer["request_uri"] = SPELL[spelling](outer["request_uri"])
                        red_info["spelling"] = spelling
                        ctx.count("spelling:" + spelling)
                else:
                    _, outer, obj = op[:3]
                    outer = dict(outer)
                if obj is not None:
                    outer["request"] = w.wire(obj)
                out, msg = w.authz(outer)
                ob = {"t": "authz", "out": out, "keys": sorted(w.ctx.par_db.keys())}
                full = ("authz", outer, obj)
                trace.append((full, ob))
                real_ops.append(full)
                rec["ops"].append(dict({"op": "authz", "outer": {k: (JWS if k == "request" else v) for k, v in outer.items()}, "obj": obj, "out": out},
                                       **red_info))
                ctx.count("authz:" + out["k"] + ("/" + str(out.get("desc") or out.get("cls") or "")))
                if out["k"] != "acc":
                    continue
                nontrivial = True
                eff = out["params"]
                ru = outer.get("request_uri")
                # ---------------- oracle: PAR clause
                if ru and ru.startswith("urn:uuid:") and w.par is not None:
                    led = ledger.get(ru)
                    if led is None:
                        ctx.violation("par-unknown-uri", "authorization request accepted through request_uri %s that was never issued" % ru, rec)
                    else:
                        if led["redeemed"]:
                            ctx.violation("par-replay", "pushed request %s redeemed a second time" % ru, rec)
                        if self.clock.now > led["at"] + led["expires_in"]:
                            ctx.violation("par-expired", "pushed request %s (pushed at %d, expires_in %d) redeemed at %d" % (
                                ru, led["at"], led["expires_in"], self.clock.now), rec)
                        led["redeemed"] = True
                        want = led["stored"]["params"] if led["stored"] else {}
                        for k, v in want.items():
                            if k in ("__par_expires_at", "redirect_uri"):
                                continue
                            if eff.get(k) != v:
                                ctx.violation("par-wrong-content", "redeeming %s gave %s=%r, pushed was %r" % (ru, k, eff.get(k), v), rec)
                        if led["obj"] is not None and out["vr"]:
                            self.judge_object(rec, "pushed", led["obj"], led["body"], out, eff.get("client_id"), reg, prov, when="redeem")
                # content pushed under one uri must not surface through another uri / another transport
                st = eff.get("state")
                from_push = st in markers and outer.get("state") != st and not (obj and canon_claims(obj.get("claims", {})).get("state") == st)
                if from_push and markers[st] != ru:
                    src = ledger[markers[st]]
                    sig = "par-repush-extends" if self.clock.now > src["at"] + src["expires_in"] else "par-other-uri"
                    ctx.violation(sig, "content pushed under %s took effect through %r at %d" % (markers[st], ru, self.clock.now), rec)
                # one push is redeemed at most once, whatever the spelling of the request_uri presented: redemptions are
                # attributed to a push by its content (the unique state marker it carried), not by the uri string
                if from_push:
                    src = ledger[markers[st]]
                    src.setdefault("through", []).append(ru)
                    if len(src["through"]) > 1:
                        ctx.violation("par-multi-redeem", "the request pushed once under %s was redeemed %d times, through request_uri %r" % (
                            markers[st], len(src["through"]), src["through"]), rec)
                    if self.clock.now > src["at"] + src["expires_in"] and markers[st] != ru:
                        ctx.violation("par-expired", "pushed request %s (pushed at %d, expires_in %d) redeemed at %d through %r" % (
                            markers[st], src["at"], src["expires_in"], self.clock.now, ru), rec)
                # ---------------- oracle: request object clauses (by value / by request_uri)
                if obj is not None and "request" in outer:
                    self.judge_object(rec, "value", obj, outer, out, eff.get("client_id"), reg, prov)
                if ru and not ru.startswith("urn:uuid:") and ru in docs:
                    self.judge_object(rec, "uri", docs[ru], outer, out, eff.get("client_id"), reg, prov)
        for sig, what in self.pending:
            ctx.violation(sig, what, rec)
        if register is not None and robs["k"] == "stored":
            nontrivial = True
        if history is not None and self.dyn_material is not None:
            nontrivial = True
        ctx.case_seen(rec, nontrivial)
        if not modelled(wkey[0], real_ops, docs):
            ctx.unmodelled += 1
            return rec
        oc["prov_default"] = w.base_algs
        jar, base, dprov = coq_static(oc)
        cdocs = coq_list(["(%s, %s)" % (coq_str(u), coq_wobj(o)) for u, o in docs.items()], "(pystr * wobj)")
        ctrace = coq_list(["(%s, %s)" % (coq_op(o), coq_obs(b)) for o, b in trace], "(op * obs)")
        if history is not None:
            # the key jar BEFORE any registration under the id (the model files the material itself), the requests, the
            # material each one brings, what was observed of each (response / client database / read endpoint / key jar)
            jar0 = coq_static(oc0)[0]
            steps = []
            for i, (spec, ho) in enumerate(zip(history, hobs)):
                rq = "(%s, %s, %s, %s)" % (coq_str(S.DYN), coq_opt(spec.get("alg"), coq_str, "pystr"),
                                           coq_bool(not spec.get("refuse")), "None")
                ks = coq_list(["(%s, %s)" % (KTY[S.DYN_KEYDEFS[sl]["type"]], coq_nat(S.keynum(S.gen_owner(g), sl)))
                               for g, sl in (spec.get("keys") or []) if spec.get("via") and S.DYN_KEYDEFS[sl]["type"] in KTY], "(kty * nat)")
                if ho["k"] == "stored":
                    ro = "(BStored %s %s %s)" % (coq_reg(ho["echo"]), coq_reg(ho["stored"]), coq_reg(ho["read"]))
                else:
                    ro = "BRefused"
                je = coq_opt(ho["jar"], lambda l: coq_list(["(%s, %s)" % (KTY[t], coq_nat(n)) for t, n in l], "(kty * nat)"), "(list (kty * nat))")
                steps.append("(%s, %s, %s, %s, %s)" % (rq, ks, coq_nat(S.keynum(S.gen_owner(i), "oct")), ro, je))
            term = "(%s, %s, %s, %s, %s)" % (coq_cfg_var(oc0), coq_list(steps, "hstep"), cdocs, coq_z(t0), ctrace)
            self.hcases.setdefault((jar0, base, dprov), []).append((term, rec))
            return rec
        if register is None:
            term = "(%s, %s, %s, %s)" % (coq_cfg_var(oc), cdocs, coq_z(t0), ctrace)
            self.cases.setdefault((jar, base, dprov), []).append((term, rec))
            return rec
        # registration + trace: the configuration BEFORE the registration, the request, what was observed of the
        # registration (response / client database / read endpoint), the trace
        rq = "(%s, %s, %s, %s)" % (coq_str(S.DYN), coq_opt(register.get("alg"), coq_str, "pystr"),
                                   coq_bool(register.get("ok", True)), "None")
        if robs["k"] == "stored":
            ro = "(BStored %s %s %s)" % (coq_reg(robs["echo"]), coq_reg(robs["stored"]), coq_reg(robs["read"]))
        else:
            ro = "BRefused"
        term = "(%s, %s, %s, %s, %s, %s)" % (coq_cfg_var(oc0), rq, ro, cdocs, coq_z(t0), ctrace)
        self.rcases.setdefault((jar, base, dprov), []).append((term, rec))
        return rec

    # ---- the oracle for the registration step
    def judge_registration(self, rec, w, register, robs, advertised):
        """Ground truth: the algorithm the client asked for and the set the provider advertises.  Returns the
        registration in force for the request objects that follow (None: the provider's set applies)."""
        ctx, S = self.ctx, self.S
        asked = register.get("alg")
        ctx.count("register:%s/%s" % (robs["k"], "asked" if asked is not None else "silent"))
        if robs["k"] == "refused":
            self.reg_stats["refused"] += 1
            # a refused registration registers nothing
            if robs["left_cdb"] or robs["left_jar"]:
                self.pending.append(("reg-refused-left-behind", "the registration was refused (%s) but left %r in the client database / %r "
                              "in the key jar" % (robs["why"], robs["left_cdb"], robs["left_jar"])))
            return None
        self.reg_stats["stored"] += 1
        self.known = ("client_1", "client_2", robs["cid"])
        if robs["cid"] != S.DYN or robs["new"] != [S.DYN]:
            ctx.broken.append("harness: the registration created %r (expected exactly %s)" % (robs["new"], S.DYN))
        if asked is not None and asked in advertised:
            # (1) an advertised algorithm is registered exactly as asked, whatever keys the provider itself owns
            self.reg_stats["exact"] += 1
            in_force = asked
            if robs["stored"] != asked:
                self.pending.append(("reg-alg-not-stored", "client registered request_object_signing_alg=%s, which the provider advertises (%r; own "
                              "keys: %s), the registration was accepted, but the client database holds %r" % (
                                  asked, advertised, w.opkeys, robs["stored"])))
        else:
            # not asked for / not advertised: whatever the provider registered instead, it must say so (2)
            self.reg_stats["dropped"] += 1
            in_force = robs["echo"]
        # (2) the response and the read endpoint tell the client what is in force
        if not (robs["echo"] == robs["stored"] == robs["read"]) or robs["read_error"]:
            self.pending.append(("reg-echo-differs", "request_object_signing_alg asked %r: registration response says %r, client database holds %r, "
                          "registration-read returns %r%s" % (asked, robs["echo"], robs["stored"], robs["read"],
                                                             " (%s)" % robs["read_error"] if robs["read_error"] else "")))
        return in_force

    # ---- the oracle for one registration of a history under the id client_d
    def judge_history_step(self, w, i, spec, ho, advertised, in_force):
        """Ground truth: what the generator put into the i-th registration request (key generations / slots, by jwks, by
        jwks_uri or not at all; the algorithm asked for) and whether the request is acceptable.  The registration in
        force is the latest accepted one: ITS keys and the secret issued for IT are the client's registered keys, its
        request_object_signing_alg is the registered algorithm.  Returns the algorithm in force afterwards."""
        ctx, S = self.ctx, self.S
        jar = None if ho["jar"] is None else sorted((t, n) for t, n in ho["jar"])
        if spec.get("refuse"):
            if ho["k"] != "refused":
                ctx.broken.append("history: the registration meant to be refused (%r) was accepted" % (spec,))
                return in_force
            self.hist_stats["refused"] += 1
            before = None if ho["jar_before"] is None else sorted((t, n) for t, n in ho["jar_before"])
            if jar != before or not ho["record_unchanged"] or ho["new"]:
                self.pending.append(("reg-refused-left-behind", "registration #%d under %s was refused (%s) but the key jar entry went from %r "
                                     "to %r / the record changed: %s / new ids %r" % (i, S.DYN, ho["why"], before, jar, not ho["record_unchanged"], ho["new"])))
            return in_force
        if ho["k"] != "stored":
            ctx.broken.append("history: registration #%d %r was refused: %s" % (i, spec, ho["why"]))
            return in_force
        self.hist_stats["stored"] += 1
        if i > 0 and self.dyn_material is not None:
            self.hist_stats["again"] += 1
        if ho["cid"] != S.DYN:
            ctx.broken.append("harness: registration #%d created %r (expected %s)" % (i, ho["cid"], S.DYN))
        brought = {(S.gen_owner(g), sl) for g, sl in (spec.get("keys") or [])} if spec.get("via") else set()
        # the secret in force: every generation whose issued secret IS the client's current secret (one, unless the
        # provider hands the same secret out again)
        cur = w.ctx.cdb[S.DYN].get("client_secret")
        brought |= {(S.gen_owner(j), "oct") for j in range(min(i + 1, S.GENERATIONS))
                    if cur is not None and w.keys[S.gen_owner(j)]["oct"].key in (cur, str(cur).encode())}
        self.dyn_material = brought
        self.dyn_ever |= brought
        # the key jar entry of the id holds the registered keys: those of THIS registration, nothing of a replaced one
        want = sorted((S.DYN_KEYDEFS[sl]["type"] if sl != "oct" else "oct", S.keynum(o, sl)) for o, sl in brought
                      if sl == "oct" or S.DYN_KEYDEFS[sl]["type"] in S.KTYS)
        if jar != want:
            extra = [k for k in (jar or []) if k not in want]
            old = [k for k in extra if k[1] in {S.keynum(o, sl) for o, sl in self.dyn_ever}]
            self.pending.append(("reg-replaced-keys-kept" if old else "reg-keys-differ",
                                 "after registration #%d under %s (%s, keys %r) the key jar holds %r for the id, the registration brought "
                                 "%r%s" % (i, S.DYN, spec.get("via") or "no key material", spec.get("keys"), jar, want,
                                           ": %r belong to a registration that was replaced" % old if old else "")))
        asked = spec.get("alg")
        if asked is not None and asked in advertised:
            now = asked
            if ho["stored"] != asked:
                self.pending.append(("reg-alg-not-stored", "registration #%d under %s asked request_object_signing_alg=%s, which the provider "
                                     "advertises, it was accepted, but the client database holds %r" % (i, S.DYN, asked, ho["stored"])))
        else:
            now = ho["echo"]
        if not (ho["echo"] == ho["stored"] == ho["read"]) or ho["read_error"]:
            self.pending.append(("reg-echo-differs", "registration #%d: request_object_signing_alg asked %r: response says %r, client database "
                                 "holds %r, registration-read returns %r%s" % (i, asked, ho["echo"], ho["stored"], ho["read"],
                                                                              " (%s)" % ho["read_error"] if ho["read_error"] else "")))
        self.known = ("client_1", "client_2", S.DYN)
        return now

    # ---- the oracle for one object that may have taken effect
    def judge_object(self, rec, transport, obj, outer, out, ident, reg, prov, when="", wrapped=None):
        """out: canonical accepted outcome (or stored snapshot); ident: the client the effective request is attributed to;
        wrapped: the object came inside an encrypted wrapper ("jws": a JWS inside; "json": claims nobody signed)"""
        ctx, S = self.ctx, self.S
        if obj is None or out is None or out.get("k") != "acc":
            return
        eff = out["params"]
        if "bad" in obj:
            if out.get("vr"):
                ctx.violation("malformed-effect", "%s: a malformed request object produced a verified request" % transport, rec)
            return
        if "jwe" in obj:
            # encryption adds no authority: what counts is the innermost object - a JWS signed by the identified
            # client's registered key with a permitted algorithm; anything else inside the wrapper is unsigned / nothing
            h, inner = obj["jwe"], obj["inner"]
            kind = "json" if "json" in inner else "jws" if "claims" in inner else "other"
            ic = canon_claims(inner["json"] if kind == "json" else inner["claims"]) if kind != "other" else {}
            if not (bool(out.get("vr")) or any(eff.get(k) == v and outer.get(k) != v for k, v in ic.items())):
                return
            if h["to"] != "OP" or h.get("damage"):
                ctx.violation("jwe-unopened-effect", "%s: a wrapper the provider cannot decrypt (to=%s, damage=%s) produced a verified "
                              "request" % (transport, h["to"], h.get("damage")), rec)
                return
            if kind == "other":
                ctx.violation("malformed-effect", "%s: a wrapper around something that is neither a JWS nor claims produced a verified request" % transport, rec)
                return
            inner_obj = {"alg": "none", "claims": inner["json"], "sig": None} if kind == "json" else inner
            return self.judge_object(rec, transport, inner_obj, outer, out, ident, reg, prov, when=when, wrapped=kind)
        claims = canon_claims(obj["claims"])
        took = bool(out.get("vr")) or any(eff.get(k) == v and outer.get(k) != v for k, v in claims.items())
        if not took:
            return
        tag = "%s%s%s" % (transport, "/" + when if when else "", "/jwe(%s)" % wrapped if wrapped else "")
        alg, sg = obj["alg"], obj.get("sig")
        if ident not in self.known:
            ctx.violation("no-identified-client", "%s: object parameters took effect for unregistered/absent client %r" % (tag, ident), rec)
            return
        if alg != "none":
            if sg is None:
                ctx.violation("unsigned-but-alg", "%s: object with alg=%s and no signature took effect" % (tag, alg), rec)
            elif sg["alg"] != alg or canon_claims(sg["claims"]) != claims:
                ctx.violation("tampered", "%s: object whose header/payload differ from what was signed took effect" % tag, rec)
            elif sg["owner"] == "OP":
                ctx.violation("op-own-key", "%s: object signed with the provider's own key took effect for %s" % (tag, ident), rec)
            elif sg["owner"] == "mallory":
                ctx.violation("foreign-key", "%s: object signed with an unregistered key took effect for %s" % (tag, ident), rec)
            elif S.gen_of(sg["owner"])[0] != ident:
                ctx.violation("xclient-foreign-signer", "%s: object signed by %s took effect for %s" % (tag, sg["owner"], ident), rec)
            elif ident == S.DYN and self.dyn_material is not None and (
                    sg["owner"], "oct" if S.ALG_KTY[sg["alg"]] == "oct" else S.slot_of(sg["alg"])) not in self.dyn_material:
                # the client's registered keys are those of the registration in force: the latest accepted one
                mat = (sg["owner"], "oct" if S.ALG_KTY[sg["alg"]] == "oct" else S.slot_of(sg["alg"]))
                ctx.violation("superseded-registration-key" if mat in self.dyn_ever else "unregistered-key",
                              "%s: object signed %s with %s of %s took effect for %s; the registration in force brought %r%s" % (
                                  tag, alg, "the client_secret" if mat[1] == "oct" else "the %s key" % mat[1], mat[0], ident,
                                  sorted(self.dyn_material), " (that material belongs to a registration that was replaced)"
                                  if mat in self.dyn_ever else ""), rec)
        if claims.get("client_id", ident) != ident:
            ctx.violation("xclient-inner-client-id", "%s: object naming client_id=%r took effect for %s" % (tag, claims.get("client_id"), ident), rec)
        if claims.get("iss", ident) != ident:
            ctx.violation("xclient-iss", "%s: object with iss=%r took effect for %s" % (tag, claims.get("iss"), ident), rec)
        if not permitted(alg, reg.get(ident), prov):
            r = reg.get(ident)
            if alg == "none":
                sig = "unsigned-inside-jwe" if wrapped else "unsigned-accepted"
            elif isinstance(r, str) and alg in r:
                sig = "alg-substring"
            else:
                sig = "alg-not-permitted"
            ctx.violation(sig, "%s: object with alg=%s took effect for %s (registered %r, provider set %r)" % (tag, alg, ident, r, prov), rec)
        for k, v in claims.items():
            if eff.get(k) != v:
                ctx.violation("override", "%s: object parameter %s=%r did not override (effective %r)" % (tag, k, v, eff.get(k)), rec)
        in_force = not (ident == S.DYN and self.dyn_material is not None and sg is not None and alg in S.ALG_KTY and alg != "none" and (
            sg["owner"], "oct" if S.ALG_KTY[alg] == "oct" else S.slot_of(alg)) not in self.dyn_material)
        if alg != "none" and sg is not None and sg["alg"] == alg and canon_claims(sg["claims"]) == claims and S.gen_of(sg["owner"])[0] == ident and in_force:
            self.accepted_genuine += 1
            ctx.count("genuine-accepted:" + transport)
            if ident == S.DYN:
                ctx.count("genuine-accepted-registered:" + transport)
                if rec.get("history") and len([h for h in rec["history"] if not h.get("refuse")]) > 1:
                    ctx.count("genuine-accepted-reregistered:" + transport)
            if wrapped:
                self.accepted_wrapped.add(transport)
                ctx.count("genuine-accepted-jwe:" + transport)


# ------------------------------------------------------------------ generators
def base_outer(cid="client_1", n=0):
    import srv_c16 as S
    return {"client_id": cid, "redirect_uri": S.REDIRECT[cid], "scope": ["openid"], "state": "out%d" % n, "response_type": ["code"]}


def base_claims(cid="client_1", n=0):
    import srv_c16 as S
    return {"client_id": cid, "redirect_uri": S.REDIRECT[cid], "scope": "openid email", "state": "in%d" % n,
            "response_type": "code", "iss": cid, "aud": ISS}


def genuine(owner, alg, claims):
    return {"alg": alg, "claims": claims, "sig": None if alg == "none" else {"owner": owner, "alg": alg, "claims": claims}}


def without(d, *ks):
    return {k: v for k, v in d.items() if k not in ks}


def fault_objects(n=0):
    """(name, object, outer-overrides) — every individual check of the property violated alone"""
    import srv_c16 as S
    c = base_claims("client_1", n)
    F = []
    for alg in ("RS256", "RS384", "PS256", "ES256", "HS256", "HS384"):
        F.append(("genuine-" + alg, genuine("client_1", alg, c), {}))
    F.append(("unsigned", genuine("client_1", "none", c), {}))
    F.append(("unsigned-noiss", genuine("client_1", "none", without(c, "iss")), {}))
    F.append(("unsigned-leftover-sig", {"alg": "none", "claims": c, "sig": {"owner": "client_1", "alg": "RS256", "claims": c}}, {}))
    F.append(("unsigned-NONE", {"alg": "NONE", "claims": c, "sig": None}, {}))
    F.append(("tampered-scope", {"alg": "RS256", "claims": dict(c, scope="openid phone"), "sig": {"owner": "client_1", "alg": "RS256", "claims": c}}, {}))
    F.append(("tampered-state", {"alg": "ES256", "claims": dict(c, state="evil"), "sig": {"owner": "client_1", "alg": "ES256", "claims": c}}, {}))
    F.append(("tampered-hs", {"alg": "HS256", "claims": dict(c, scope="openid address"), "sig": {"owner": "client_1", "alg": "HS256", "claims": c}}, {}))
    for ha, sa in (("RS384", "RS256"), ("PS256", "RS256"), ("HS256", "RS256"), ("ES256", "RS256"), ("RS256", "HS256"), ("RS256", "ES256"), ("HS384", "HS256")):
        F.append(("hdr-%s-sig-%s" % (ha, sa), {"alg": ha, "claims": c, "sig": {"owner": "client_1", "alg": sa, "claims": c}}, {}))
    F.append(("nosig-RS256", {"alg": "RS256", "claims": c, "sig": None}, {}))
    F.append(("nosig-HS256", {"alg": "HS256", "claims": c, "sig": None}, {}))
    for owner in ("mallory", "client_2"):
        for alg in ("RS256", "ES256", "HS256"):
            F.append(("%s-%s-iss-c1" % (owner, alg), genuine(owner, alg, c), {}))
            F.append(("%s-%s-iss-self" % (owner, alg), genuine(owner, alg, dict(c, iss=owner)), {}))
            F.append(("%s-%s-noiss" % (owner, alg), genuine(owner, alg, without(c, "iss")), {}))
    F.append(("client_2-all-c2", genuine("client_2", "RS256", base_claims("client_2", n)), {}))
    for alg in ("RS256", "ES256"):
        F.append(("OP-%s-noiss" % alg, genuine("OP", alg, without(c, "iss")), {}))
        F.append(("OP-%s-iss-OP" % alg, genuine("OP", alg, dict(c, iss=ISS)), {}))
        F.append(("OP-%s-iss-c1" % alg, genuine("OP", alg, c), {}))
    F.append(("c1-noiss", genuine("client_1", "RS256", without(c, "iss")), {}))
    F.append(("c1-noiss-hs", genuine("client_1", "HS256", without(c, "iss")), {}))
    F.append(("inner-cid-c2", genuine("client_1", "RS256", dict(c, client_id="client_2", redirect_uri=S.REDIRECT["client_2"])), {}))
    F.append(("inner-cid-c2-only", genuine("client_1", "RS256", dict(c, client_id="client_2")), {}))
    F.append(("inner-cid-unknown", genuine("client_1", "RS256", dict(c, client_id="nobody")), {}))
    F.append(("inner-redirect-c2", genuine("client_1", "RS256", dict(c, redirect_uri=S.REDIRECT["client_2"])), {}))
    F.append(("inner-redirect-unreg", genuine("client_1", "ES256", dict(c, redirect_uri="https://evil.example.org/cb")), {}))
    F.append(("inner-scope-more", genuine("client_1", "RS256", dict(c, scope="openid profile email address")), {}))
    F.append(("inner-scope-noopenid", genuine("client_1", "RS256", dict(c, scope="email")), {}))
    F.append(("inner-rt-token", genuine("client_1", "RS256", dict(c, response_type="token")), {}))
    F.append(("inner-rt-unreg", genuine("client_1", "RS256", dict(c, response_type="none")), {}))
    for k in ("client_id", "redirect_uri", "response_type", "scope", "state", "aud"):
        F.append(("inner-no-" + k, genuine("client_1", "RS256", without(c, k)), {}))
    F.append(("inner-extra-nonce", genuine("client_1", "RS256", dict(c, nonce="n-in")), {"nonce": "n-out"}))
    F.append(("outer-extra-nonce", genuine("client_1", "RS256", c), {"nonce": "n-out", "login_hint": "diana"}))
    F.append(("outer-no-scope", genuine("client_1", "RS256", c), {"scope": None}))
    F.append(("outer-no-redirect", genuine("client_1", "RS256", c), {"redirect_uri": None}))
    F.append(("outer-no-state", genuine("client_1", "RS256", c), {"state": None}))
    F.append(("outer-cid-c2", genuine("client_1", "RS256", c), {"client_id": "client_2", "redirect_uri": S.REDIRECT["client_2"]}))
    F.append(("outer-cid-c2-unsigned", genuine("client_1", "none", c), {"client_id": "client_2", "redirect_uri": S.REDIRECT["client_2"]}))
    F.append(("outer-cid-unknown", genuine("client_1", "RS256", c), {"client_id": "nobody"}))
    F.append(("outer-no-cid", genuine("client_1", "RS256", c), {"client_id": None}))
    F.append(("nested-request-uri", genuine("client_1", "RS256", dict(c, request_uri="https://client_1.example.com/ro/x")), {}))
    F.append(("bad-nodot", {"bad": "garbage"}, {}))
    F.append(("bad-abc", {"bad": "a.b.c"}, {}))
    F.append(("bad-two", {"bad": "abc.def"}, {}))
    F.append(("bad-payload", {"bad": S.b64j({"alg": "RS256"}) + ".!!!!.x"}, {}))
    F.append(("bad-jsonhdr", {"bad": S.b64j(["alg"]) + "." + S.b64j(c) + "."}, {}))
    return F


REGS = [None, "RS256", "ES256", "HS256", "none", ["RS256", "ES256"], "ES256K"]
PROVS = [None, ["RS256", "ES256"], ["RS256", "none"]]
DOC = "https://client_1.example.com/ro/%d"


def apply_over(outer, over):
    o = dict(outer)
    for k, v in over.items():
        if v is None:
            o.pop(k, None)
        else:
            o[k] = v
    return o


def ops_for(transport, n, obj, over, pusher="client_1"):
    """the operations that deliver [obj] through [transport]; returns (docs, ops)"""
    outer = apply_over(base_outer("client_1", n), over)
    if transport == "value":
        return {}, [("authz", outer, obj)]
    if transport == "uri":
        u = DOC % n
        return {u: obj}, [("authz", dict(outer, request_uri=u), None)]
    # pushed: the object travels in the PAR body; the authorization request only carries client_id + request_uri
    red = {"client_id": outer.get("client_id", "client_1"), "state": "redeem%d" % n, "response_type": ["code"], "scope": ["openid"],
           "redirect_uri": outer.get("redirect_uri", "https://client_1.example.com/cb")}
    if "client_id" not in outer:
        red.pop("client_id")
    return {}, [("push", pusher, without(outer, "client_id") if "client_id" not in outer else outer, obj), ("redeem", -1, red)]


def gen_matrix(R, quick):
    n = 0
    flavours = [(o, m) for o in (False, True) for m in ("all", "rp_pub", "pub")]
    for oidc, meth in flavours:
        for transport in ("value", "uri", "par"):
            if transport != "value" and meth == "rp_pub" and quick:
                continue        # request_param only looks at `request`: the by-uri/pushed rows repeat the "pub" rows
            for name, obj, over in fault_objects(0):
                n += 1
                docs, ops = ops_for(transport, 0, obj, over)
                R.run_case("fault", (oidc, meth, True, 3600), {}, docs, ops, note="%s/%s" % (transport, name))
    # algorithm matrix
    for oidc, meth in ((False, "all"), (True, "all"), (False, "pub"), (True, "rp_pub")):
        for transport in ("value", "uri", "par"):
            for alg in ("RS256", "RS384", "ES256", "HS256", "none"):
                for reg in REGS:
                    for prov in PROVS:
                        if quick and meth != "all" and prov is not None and reg not in (None, "RS256"):
                            continue
                        obj = genuine("client_1", alg, base_claims("client_1", 1))
                        docs, ops = ops_for(transport, 1, obj, {})
                        conf = {"reg": {"client_1": reg, "client_2": "ES256"}, "prov_algs": prov}
                        R.run_case("alg", (oidc, meth, True, 3600), conf, docs, ops,
                                   note="%s/alg=%s reg=%r prov=%r" % (transport, alg, reg, prov))
    # configuration rows: request_uri not supported / registered request_uris / no PAR endpoint / fetch fails / second client
    g = genuine("client_1", "RS256", base_claims("client_1", 2))
    for oidc in (False, True):
        u = DOC % 2
        R.run_case("conf", (oidc, "all", True, 3600), {"ru_supported": False}, {u: g}, [("authz", dict(base_outer("client_1", 2), request_uri=u), None)], note="request_uri unsupported")
        R.run_case("conf", (oidc, "all", True, 3600), {"request_uris": {"client_1": [u]}}, {u: g}, [("authz", dict(base_outer("client_1", 2), request_uri=u), None)], note="registered request_uri")
        R.run_case("conf", (oidc, "all", True, 3600), {"request_uris": {"client_1": [u]}}, {u: g}, [("authz", dict(base_outer("client_1", 2), request_uri=u + "#frag"), None)], note="registered request_uri + fragment")
        R.run_case("conf", (oidc, "all", True, 3600), {"request_uris": {"client_1": [DOC % 99]}}, {u: g}, [("authz", dict(base_outer("client_1", 2), request_uri=u), None)], note="unregistered request_uri")
        R.run_case("conf", (oidc, "all", True, 3600), {}, {}, [("authz", dict(base_outer("client_1", 2), request_uri=u), None)], note="fetch fails")
        R.run_case("conf", (oidc, "all", False, 3600), {}, {u: g}, [("authz", dict(base_outer("client_1", 2), request_uri=u), None)], note="no PAR endpoint, by uri")
        R.run_case("conf", (oidc, "all", False, 3600), {}, {}, [("authz", dict(base_outer("client_1", 2), request_uri="urn:uuid:22222222-0000-4000-8000-000000000000"), None)], note="no PAR endpoint, urn")
        R.run_case("conf", (oidc, "all", True, 3600), {}, {u: g}, [("authz", dict(base_outer("client_1", 2), request_uri=u), g)], note="request and request_uri together")
        g2 = genuine("client_2", "ES256", base_claims("client_2", 3))
        for transport in ("value", "uri", "par"):
            docs, ops = ops_for(transport, 3, g2, {"client_id": "client_2", "redirect_uri": "https://client_2.example.com/cb"}, pusher="client_2")
            R.run_case("conf", (oidc, "all", True, 3600), {"reg": {"client_2": "ES256", "client_1": "RS256"}}, docs, ops, note="client_2 genuine " + transport)
            docs, ops = ops_for(transport, 3, g2, {}, pusher="client_1")
            R.run_case("conf", (oidc, "pub", True, 3600), {}, docs, ops, note="client_2 object in client_1 request " + transport)


def gen_random(R, rng, count):
    import srv_c16 as S
    algs = ["RS256", "RS384", "PS256", "ES256", "HS256", "HS384", "none"]
    owners = ["client_1", "client_1", "client_1", "client_2", "mallory", "OP"]
    for i in range(count):
        oidc = rng.random() < 0.5
        meth = rng.choice(["all", "rp_pub", "pub"])
        transport = rng.choice(["value", "uri", "par"])
        n = 100 + i
        target = rng.choice(["client_1", "client_1", "client_2"])
        c = base_claims(target, n)
        owner = rng.choice(owners) if rng.random() < 0.3 else target
        alg = rng.choice(algs)
        if owner == "OP" and S.ALG_KTY[alg] == "oct":
            alg = "RS256"
        # random faults (each with a small probability, so that about a third of the cases is fault-free)
        if rng.random() < 0.1:
            c = dict(c, iss=rng.choice(["client_1", "client_2", "mallory", ISS]))
        if rng.random() < 0.07:
            c = without(c, "iss")
        if rng.random() < 0.1:
            c = dict(c, client_id=rng.choice(["client_1", "client_2", "nobody"]))
        if rng.random() < 0.1:
            c = dict(c, redirect_uri=rng.choice(list(S.REDIRECT.values()) + ["https://evil.example.org/cb"]))
        if rng.random() < 0.1:
            c = without(c, rng.choice(["client_id", "redirect_uri", "response_type", "scope", "state"]))
        if rng.random() < 0.2:
            c = dict(c, scope=rng.choice(["openid", "openid profile", "email", "openid email phone"]))
        obj = genuine(owner, alg, c)
        r = rng.random()
        if r < 0.06 and alg != "none":
            obj = {"alg": alg, "claims": dict(c, state="evil%d" % n), "sig": obj["sig"]}
        elif r < 0.1 and alg != "none":
            obj = {"alg": rng.choice(algs), "claims": c, "sig": obj["sig"]}
        elif r < 0.13:
            obj = {"alg": alg, "claims": c, "sig": None}
        over = {}
        if target != "client_1" or rng.random() < 0.1:
            over["client_id"] = target if rng.random() < 0.85 else rng.choice(["client_1", "client_2"])
            over["redirect_uri"] = S.REDIRECT[over["client_id"]]
        if rng.random() < 0.1:
            over[rng.choice(["scope", "state", "redirect_uri"])] = None
        if rng.random() < 0.15:
            over["nonce"] = "n%d" % n
        regs = {cid: (rng.choice([None, None, alg, alg, [alg, "ES256"]]) if rng.random() < 0.7 else rng.choice(REGS))
                for cid in ("client_1", "client_2")}
        conf = {"reg": regs, "prov_algs": rng.choice([None, None] + PROVS)}
        if transport == "uri" and rng.random() < 0.2:
            conf["request_uris"] = {"client_1": [DOC % n if rng.random() < 0.6 else DOC % 0]}
        pusher = over.get("client_id", "client_1") if rng.random() < 0.8 else rng.choice(["client_1", "client_2"])
        docs, ops = ops_for(transport, n, obj, over, pusher=pusher)
        R.run_case("random", (oidc, meth, True, 3600), conf, docs, ops, note="random %s" % transport)


# ------------------------------------------------------------------ the wrapper dimension: a JWE around the object
HDRS = [{"alg": "RSA-OAEP", "enc": "A256GCM"}, {"alg": "ECDH-ES", "enc": "A128GCM"}]


def jwe(inner, k=0, cty=None, to="OP", damage=None, **over):
    """a wrapper addressed to the provider's (to="OP") or to a stranger's encryption key around [inner]"""
    return {"jwe": dict(dict(HDRS[k % 2], cty=cty, to=to, damage=damage), **over), "inner": inner}


def wrapped_inners(n, reg_alg):
    """(name, inner, wrapper overrides): what can be inside a wrapper addressed to the provider - every way the innermost
    object can fail to be a JWS signed by client_1's registered key with a permitted algorithm, and the genuine ones"""
    c = base_claims("client_1", n)
    I = [("json", {"json": c}, {}),                                                   # (a) claims nobody signed
         ("json-noiss", {"json": without(c, "iss")}, {}),
         ("none", genuine("client_1", "none", c), {}),                                # (b) alg=none JWS
         ("mallory-RS256", genuine("mallory", "RS256", c), {}),                       # (c) foreign / another client's key
         ("client_2-ES256", genuine("client_2", "ES256", c), {}),
         ("client_2-HS256", genuine("client_2", "HS256", c), {}),
         ("tampered", {"alg": "RS256", "claims": dict(c, scope="openid phone", state="evil"),
                       "sig": {"owner": "client_1", "alg": "RS256", "claims": c}}, {}),   # (d) signature does not cover the payload
         ("nosig", {"alg": "ES256", "claims": c, "sig": None}, {}),
         ("genuine-RS256", genuine("client_1", "RS256", c), {}),                      # (e)/(f): permitted or not by the configuration
         ("genuine-ES256", genuine("client_1", "ES256", c), {}),
         ("genuine-HS256", genuine("client_1", "HS256", c), {}),
         ("stranger-key", genuine("client_1", reg_alg, c), {"to": "other"}),          # (g) a key the provider does not have
         ("stranger-key-json", {"json": c}, {"to": "other"}),
         ("cut", genuine("client_1", reg_alg, c), {"damage": "cut"}),                 # (h) truncated / altered JWE
         ("tag", genuine("client_1", reg_alg, c), {"damage": "tag"}),
         ("seg4", {"json": c}, {"damage": "seg4"})]
    return I


WREGS = [None, "RS256", "ES256", "HS256", "none"]


def gen_wrapped(R, quick):
    import itertools
    import srv_c16 as S
    k = 0
    # (1) wrapper matrix: inner x registered signing alg x provider set x transport, OAuth2 / OIDC, with / without RequestParam,
    #     cty absent / "JWT", RSA-OAEP / ECDH-ES (alternating)
    for (oidc, meth), full in (((False, "all"), True), ((True, "pub"), True), ((True, "all"), False), ((False, "pub"), False),
                               ((False, "rp_pub"), False)):
        for transport in ("value", "uri", "par"):
            for reg in WREGS:
                for prov in PROVS:
                    if not full and quick and (prov is not None or reg not in (None, "RS256", "none")):
                        continue
                    if not full and transport == "uri" and quick:
                        continue
                    reg_alg = reg if reg not in (None, "none") else "RS256"
                    for name, inner, over in wrapped_inners(4, reg_alg):
                        ctys = (None, "JWT") if meth != "pub" and (full or name.startswith("json")) else (None,)
                        for cty in ctys:
                            k += 1
                            obj = jwe(inner, k, cty=cty, **over)
                            docs, ops = ops_for(transport, 4, obj, {})
                            conf = {"reg": {"client_1": reg, "client_2": "ES256"}, "prov_algs": prov}
                            R.run_case("jwe", (oidc, meth, True, 3600), conf, docs, ops,
                                       note="%s/jwe(%s,%s,cty=%s) around %s reg=%r prov=%r" % (
                                           transport, obj["jwe"]["alg"], obj["jwe"]["enc"], cty, name, reg, prov))
    # (2) other header values and other plaintexts (cty spellings; key management / content encryption algorithms;
    #     a JWE inside the JWE; text that is neither JWS nor claims; a malformed JWS inside)
    c = base_claims("client_1", 5)
    g = genuine("client_1", "RS256", c)
    extra = [("cty-jwt-lower", jwe(g, 0, cty="jwt")), ("cty-json", jwe(g, 0, cty="json")), ("cty-app-jwt", jwe({"json": c}, 0, cty="application/jwt")),
             ("cty-jwt-lower-json", jwe({"json": c}, 1, cty="jwt")), ("A128CBC-HS256", jwe(g, 0, enc="A128CBC-HS256")),
             ("RSA1_5", jwe(g, 0, alg="RSA1_5")), ("RSA-OAEP-256", jwe({"json": c}, 0, alg="RSA-OAEP-256")),
             ("ECDH-ES+A128KW", jwe(g, 1, alg="ECDH-ES+A128KW")), ("nested", jwe(jwe(g, 0), 1)), ("nested-cty", jwe(jwe({"json": c}, 1), 0, cty="JWT")),
             ("text", jwe({"text": "garbage"}, 0)), ("text-cty", jwe({"text": "a.b.c"}, 1, cty="JWT")), ("bad-inner", jwe({"bad": "abc.def"}, 0)),
             ("json-list", jwe({"text": "[1, 2]"}, 0))]
    for oidc, meth in ((False, "all"), (True, "all"), (True, "pub")):
        for transport in ("value", "uri", "par"):
            for reg in (None, "RS256", "none"):
                for name, obj in extra:
                    docs, ops = ops_for(transport, 5, obj, {})
                    R.run_case("jwe", (oidc, meth, True, 3600), {"reg": {"client_1": reg}}, docs, ops, note="%s/jwe %s reg=%r" % (transport, name, reg))
    # (3) registered request_object_encryption_alg / _enc that do and do not match the wrapper, provider sets, around a
    #     genuine JWS / unsigned claims / no wrapper at all
    encs = [[None, None], ["RSA-OAEP", "A256GCM"], ["ECDH-ES", "A128GCM"], ["RSA-OAEP", None], [None, "A256GCM"], ["RS256", None], ["RS256", "A256GCM"]]
    penc = [None, [["RSA-OAEP", "ECDH-ES"], ["A256GCM", "A128GCM"]], [["RSA-OAEP", "RS256"], None], [["RS256", "ES256"], ["A256GCM"]]]
    c = base_claims("client_1", 6)
    for oidc, meth in ((False, "all"), (True, "pub")):
        for transport in ("value", "uri", "par"):
            for er in encs:
                for pe in penc:
                    if quick and pe is not None and er not in (encs[0], encs[1], encs[5]):
                        continue
                    for name, obj, reg in (("genuine", jwe(genuine("client_1", "RS256", c), 0), "RS256"),
                                           ("genuine-es-ecdh", jwe(genuine("client_1", "ES256", c), 1, cty="JWT"), None),
                                           ("json", jwe({"json": c}, 0), "none"), ("json-rs", jwe({"json": c}, 1), "RS256"),
                                           ("plain", genuine("client_1", "RS256", c), "RS256")):
                        docs, ops = ops_for(transport, 6, obj, {})
                        conf = {"reg": {"client_1": reg}, "enc_reg": {"client_1": er}, "prov_enc": pe}
                        R.run_case("jwe-enc", (oidc, meth, True, 3600), conf, docs, ops,
                                   note="%s/%s enc registered %r provider %r" % (transport, name, er, pe))
    # (4) who the request is attributed to when the wrapper holds claims nobody signed that name another client: outer
    #     client_1, claims of client_2, with / without RequestParam among the methods, with / without cty.  Since f092826
    #     RequestParam gives up on such claims (no jws_header: nothing was authenticated) and the next configured method
    #     decides; before, it took their iss as the client.  The model says RpContinue on these rows (Model/Jar.v
    #     request_param, C16_request_param_unsigned), so a tree that identifies a client from them is a mismatch here.
    for oidc in (False, True):
        for meth in ("all", "rp_pub", "pub"):
            for transport in ("value", "par"):
                for reg2 in (None, "none", "ES256"):
                    for prov in (None, ["RS256", "none"]):
                        for cty in (None, "JWT"):
                            for iss, cid in (("client_2", "client_2"), ("client_2", "client_1"), ("client_1", "client_2"), ("nobody", "client_1"), (None, "client_2")):
                                cl = dict(base_claims("client_2" if cid == "client_2" else "client_1", 7), iss=iss, client_id=cid)
                                if iss is None:
                                    cl.pop("iss")
                                k += 1
                                docs, ops = ops_for(transport, 7, jwe({"json": cl}, k, cty=cty), {})
                                R.run_case("jwe-ident", (oidc, meth, True, 3600), {"reg": {"client_1": "RS256", "client_2": reg2}, "prov_algs": prov},
                                           docs, ops, note="%s/jwe json iss=%s client_id=%s cty=%s reg2=%r prov=%r" % (transport, iss, cid, cty, reg2, prov))
    # (5) PAR words with wrapped pushes: E = push a JWE around a genuine ES256 JWS, J = push a JWE around claims nobody signed
    i = 0
    for oidc, reg in ((False, "ES256"), (True, "ES256"), (True, "none"), (False, None)):
        for ln in (1, 2, 3):
            for word in itertools.product("EJLTU", repeat=ln):
                word = "".join(word)
                if ("E" not in word and "J" not in word) or (ln == 3 and (quick and (reg != "ES256" or not oidc))):
                    continue
                i += 1
                R.run_case("par", (oidc, "pub", True, 10), {"reg": {"client_1": reg}}, {}, par_ops_from_word(word, "e%d" % i), note="par word " + word)


def gen_random_wrapped(R, rng, count):
    """random wrapped objects: random inner faults x random wrapper faults x random configuration"""
    import srv_c16 as S
    algs = ["RS256", "RS384", "ES256", "HS256", "none"]
    for i in range(count):
        oidc = rng.random() < 0.5
        meth = rng.choice(["all", "rp_pub", "pub"])
        transport = rng.choice(["value", "value", "uri", "par", "par"])
        n = 300 + i
        target = rng.choice(["client_1", "client_1", "client_2"])
        c = base_claims(target, n)
        if rng.random() < 0.15:
            c = dict(c, iss=rng.choice(["client_1", "client_2", "mallory"]))
        if rng.random() < 0.1:
            c = without(c, "iss")
        if rng.random() < 0.1:
            c = dict(c, client_id=rng.choice(["client_1", "client_2", "nobody"]))
        if rng.random() < 0.15:
            c = dict(c, scope=rng.choice(["openid", "openid profile", "email"]))
        r = rng.random()
        if r < 0.3:
            inner = {"json": c}
        elif r < 0.34:
            inner = {"text": rng.choice(["garbage", "{", "a.b.c", "[]"])}
        else:
            alg = rng.choice(algs)
            owner = target if rng.random() < 0.7 else rng.choice(["client_1", "client_2", "mallory"])
            inner = genuine(owner, alg, c)
            r2 = rng.random()
            if r2 < 0.08 and alg != "none":
                inner = {"alg": alg, "claims": dict(c, state="evil%d" % n), "sig": inner["sig"]}
            elif r2 < 0.12:
                inner = {"alg": alg, "claims": c, "sig": None}
        obj = jwe(inner, rng.randint(0, 1), cty=rng.choice([None, None, "JWT", "jwt", "json"]),
                  to="other" if rng.random() < 0.06 else "OP", damage=rng.choice([None] * 14 + ["tag", "cut", "seg4"]))
        over = {}
        if target != "client_1" or rng.random() < 0.1:
            over["client_id"] = target if rng.random() < 0.8 else rng.choice(["client_1", "client_2"])
            over["redirect_uri"] = S.REDIRECT[over["client_id"]]
        regs = {cid: rng.choice([None, "RS256", "ES256", "none", "none", ["RS256", "none"]]) for cid in ("client_1", "client_2")}
        conf = {"reg": regs, "prov_algs": rng.choice([None, None] + PROVS)}
        if rng.random() < 0.25:
            conf["enc_reg"] = {target: rng.choice([["RSA-OAEP", "A256GCM"], ["ECDH-ES", None], ["RS256", "A256GCM"], [None, "A128GCM"]])}
        if rng.random() < 0.15:
            conf["prov_enc"] = rng.choice([[["RSA-OAEP", "ECDH-ES"], ["A256GCM", "A128GCM"]], [["RS256", "ES256", "none"], None]])
        pusher = over.get("client_id", "client_1") if rng.random() < 0.8 else rng.choice(["client_1", "client_2"])
        docs, ops = ops_for(transport, n, obj, over, pusher=pusher)
        R.run_case("jwe-random", (oidc, meth, True, 3600), conf, docs, ops, note="random wrapped %s" % transport)


PAR_ALPHABET = "PQRLTUX"


def par_ops_from_word(word, tag, spell=None):
    """P: push plain by client_1; Q: push a signed object by client_1; R: redeem the first issued uri; L: redeem the latest;
    T: tick 10 s = exactly the ttl; U: tick 1 s; X: re-push attempt by client_2 (PAR body carrying the latest issued
    request_uri); V / W: redeem the latest / the first issued uri through another spelling of it (spell: a name of
    SPELLINGS or a function position -> name)"""
    ops = []
    k = 0
    for ch in word:
        k += 1
        mk = "%s_%d" % (tag, k)
        if ch in "VW":
            sp = spell(k) if callable(spell) else spell
            ops.append(("redeem", -1 if ch == "V" else 0, dict(base_outer("client_1", 0), state="red_" + mk), None, sp))
            continue
        if ch == "P":
            ops.append(("push", "client_1", dict(base_outer("client_1", 0), state="pushed_" + mk), None))
        elif ch == "Q":
            c = dict(base_claims("client_1", 0), state="pushedobj_" + mk)
            ops.append(("push", "client_1", dict(base_outer("client_1", 0), state="outer_" + mk), genuine("client_1", "ES256", c)))
        elif ch in "EJ":
            c = dict(base_claims("client_1", 0), state="pushedjwe_" + mk)
            inner = genuine("client_1", "ES256", c) if ch == "E" else {"json": c}
            ops.append(("push", "client_1", dict(base_outer("client_1", 0), state="outer_" + mk), jwe(inner, k, cty="JWT" if k % 3 == 0 else None)))
        elif ch == "R":
            ops.append(("redeem", 0, dict(base_outer("client_1", 0), state="red_" + mk)))
        elif ch == "L":
            ops.append(("redeem", -1, dict(base_outer("client_1", 0), state="red_" + mk)))
        elif ch == "T":
            ops.append(("tick", 10))
        elif ch == "U":
            ops.append(("tick", 1))
        elif ch == "X":
            ops.append(("push", "client_2", {"client_id": "client_2", "response_type": ["code"], "__ref": -1}, None))
    return ops


def gen_par(R, rng, quick):
    import itertools
    maxlen = 4 if quick else 5
    alpha = "PRLTUX" if quick else PAR_ALPHABET
    i = 0
    for oidc in (False, True):
        for ln in range(1, maxlen + 1):
            for word in itertools.product(alpha, repeat=ln):
                word = "".join(word)
                if "P" not in word and "Q" not in word and ln > 2:
                    continue          # nothing is ever pushed: only the short words are kept
                i += 1
                R.run_case("par", (oidc, "all", True, 10), {}, {}, par_ops_from_word(word, "w%d" % i), note="par word " + word)
        # pushes that CONTAIN a signed request object, redeemed before / at / after the announced lifetime
        # (Q L | Q T L | Q T U L ...), exhaustive over a smaller alphabet in the quick tier
        if quick:
            for ln in range(1, 5):
                for word in itertools.product("QLTU", repeat=ln):
                    i += 1
                    R.run_case("par", (oidc, "pub", True, 10), {}, {}, par_ops_from_word("".join(word), "q%d" % i), note="par word " + "".join(word))
    for j in range(60 if quick else 1500):
        oidc = rng.random() < 0.5
        ln = rng.randint(5, 14)
        word = "".join(rng.choice("PPQRLLTUUX") for _ in range(ln))
        ops = par_ops_from_word(word, "r%d" % j)
        # mix in redeemers presenting another client_id, unknown uris, by-value objects next to the request_uri
        for k, op in enumerate(ops):
            if op[0] == "redeem" and rng.random() < 0.25:
                ops[k] = ("redeem", rng.choice([0, -1, 1, 7]), dict(base_outer("client_2", 0), state="redc2_%d_%d" % (j, k)))
            elif op[0] == "tick" and rng.random() < 0.5:
                ops[k] = ("tick", rng.choice([0, 1, 4, 5, 9, 10, 11]))
        R.run_case("par", (oidc, rng.choice(["all", "pub"]), True, 10), {"reg": {"client_1": rng.choice([None, "ES256", "RS256"])}}, {}, ops,
                   note="par random " + word)


def spelling_words():
    """P followed by every sequence over {V, L} of length 1..3 that presents the spelling at least once (before, after,
    between redemptions through the exact urn, repeatedly), then histories with a signed push, the clock and two pushes"""
    import itertools
    ws = []
    for ln in (1, 2, 3):
        for t in itertools.product("VL", repeat=ln):
            if "V" in t:
                ws.append("P" + "".join(t))
    ws += ["PVVVVL", "PVVLL", "QVL", "QVLV", "QLV", "PUVUL", "PVTL", "PTVL", "PVTUVL", "PPWVRL", "PPWWVVLR", "PLPWV", "PVXL", "PXVL"]
    return ws


def gen_par_spelling(R, rng, quick):
    i = 0
    for oidc in (False, True):
        for name, _f in SPELLINGS:
            for word in spelling_words():
                i += 1
                meth = "pub" if "Q" in word else "all"
                R.run_case("par-spelling", (oidc, meth, True, 10), {}, {}, par_ops_from_word(word, "s%d" % i, spell=name),
                           note="par spelling %s word %s" % (name, word))
    names = [n for n, _f in SPELLINGS]
    for j in range(80 if quick else 2500):
        oidc = rng.random() < 0.5
        ln = rng.randint(4, 12)
        word = "P" + "".join(rng.choice("PQVVVWLLRTUU") for _ in range(ln))
        picks = {}

        def pick(k, picks=picks):
            picks[k] = rng.choice(names)
            return picks[k]
        ops = par_ops_from_word(word, "sr%d" % j, spell=pick)
        for k, op in enumerate(ops):
            if op[0] == "tick" and rng.random() < 0.5:
                ops[k] = ("tick", rng.choice([0, 1, 4, 9, 10, 11]))
        R.run_case("par-spelling", (oidc, rng.choice(["all", "pub"]), True, 10), {}, {}, ops,
                   note="par spelling random word %s spellings %s" % (word, ",".join("%d:%s" % kv for kv in sorted(picks.items()))))


# ------------------------------------------------------------------ the registration dimension: how the registered
# algorithm gets into the client database.  client_d registers through the real registration endpoint, then the fault
# matrix runs against it; ground truth = what it asked for and what the provider advertises.
RPROVS = [None, ["RS256", "ES256"], ["RS256", "ES384", "HS256", "none"], ["PS256", "RS512", "ES512", "EdDSA", "HS512", "none"]]
ALL_SLOTS = ["RSA", "EC", "EC384", "EC521", "OKP"]
DOVER = {"client_id": "client_d", "redirect_uri": "https://client_d.example.com/cb", "state": "outd"}
FAMILY = {"RSA": ("RS256", "PS384", "RS512"), "EC": ("ES256", "ES384", "ES512"), "oct": ("HS256", "HS512"), "OKP": ("EdDSA",)}


def dyn_claims(state="ind"):
    return dict(base_claims("client_d", 0), state=state)


def reg_objects(asked, advertised, slots, thorough=False, state="ind"):
    """(name, object): objects client_d (or somebody else in its name) sends after it registered [asked]:
    signed with the algorithm it asked for; with other algorithms the provider advertises, one per key family, under keys
    the client registered; HS256 with its client secret; unsigned; the asked algorithm under a foreign key / tampered"""
    import srv_c16 as S
    c = dyn_claims(state)
    have = set(slots) | {"oct"}
    O = []
    if asked in S.ALG_KTY and asked != "none" and S.slot_of(asked) in have:
        O.append(("asked-" + asked, genuine("client_d", asked, c)))
    for fam, algs in FAMILY.items():
        cands = [a for a in algs if a != asked and a in advertised and S.slot_of(a) in have]
        for a in (cands if thorough else cands[:1]):
            O.append(("other-" + a, genuine("client_d", a, c)))
    if not any(n == "other-HS256" or n == "asked-HS256" for n, _o in O):
        O.append(("secret-HS256", genuine("client_d", "HS256", c)))
    O.append(("unsigned", genuine("client_d", "none", c)))
    O.append(("unsigned-noiss", genuine("client_d", "none", without(c, "iss"))))
    fa = asked if asked in ("RS256", "RS384", "RS512", "PS256", "PS384", "PS512", "ES256", "HS256", "HS384", "HS512") else "RS256"
    O.append(("mallory-" + fa, genuine("mallory", fa, c)))
    if thorough:
        O.append(("client_2-" + fa, genuine("client_2", fa, c)))
        if asked in S.ALG_KTY and asked != "none" and S.slot_of(asked) in have:
            O.append(("tampered-" + asked, {"alg": asked, "claims": dict(c, state="evil"),
                                           "sig": {"owner": "client_d", "alg": asked, "claims": c}}))
    return O


def advertised_of(R, wkey, prov):
    return list(prov) if prov is not None else list(R.world(*wkey).base_algs)


def gen_registered(R, quick):
    import srv_c16 as S
    asked_all = S.JOSE_SIGNING + [None, "ES256K", "rs256"]
    n = 0
    for opkeys in S.OP_KEYSETS:
        full = opkeys == "rsa+p256" or not quick
        for prov in RPROVS:
            if quick and not full and prov not in (RPROVS[0], RPROVS[2]):
                continue
            for meth in ("all", "pub"):
                if meth == "pub" and (quick or not full) and not (opkeys == "rsa+p256" and prov in (RPROVS[0], RPROVS[2])):
                    continue
                wkey = (True, meth, True, 3600, opkeys)
                adv = advertised_of(R, wkey, prov)
                for asked in asked_all:
                    if meth == "pub" and quick and asked not in ("ES384", "PS256", "HS256", "none", "EdDSA", None):
                        continue
                    if quick and not full and asked in ("RS384", "PS384", "HS384"):
                        continue
                    register = {"alg": asked, "slots": ALL_SLOTS, "ok": True}
                    for name, obj in reg_objects(asked, adv, ALL_SLOTS, thorough=not quick):
                        for transport in ("value", "uri", "par"):
                            n += 1
                            if quick and (not full or prov in (RPROVS[1], RPROVS[3])) and transport != "value" and (
                                    name.startswith(("unsigned-noiss", "mallory")) or (transport == "uri") != (n % 2 == 0)):
                                continue        # the other key sets: by value, and by request_uri / pushed in turns
                            docs, ops = ops_for(transport, 0, obj, DOVER, pusher="client_d")
                            R.run_case("register", wkey, {"prov_algs": prov}, docs, ops, register=register,
                                       note="%s/%s after registering %r (advertised %s, own keys %s)" % (
                                           transport, name, asked, "default" if prov is None else prov, opkeys))
    # what the JWKS carries: only the key of the algorithm asked for / no JWKS at all / keys of other types only
    for opkeys in ("rsa+p256", "rsa"):
        wkey = (True, "all", True, 3600, opkeys)
        for prov in (RPROVS[0], RPROVS[2]):
            if quick and opkeys == "rsa" and prov is None:
                continue
            adv = advertised_of(R, wkey, prov)
            for asked, slotsets in (("ES384", (["EC384"], ["RSA"], [], ["EC384", "RSA"])), ("RS256", (["RSA"], ["EC"], [])),
                                    ("HS256", ([], ["RSA"])), ("ES512", (["EC521"], ["EC"])), ("PS512", (["RSA"], ["EC384"])),
                                    (None, ([], ["RSA"]))):
                for slots in slotsets:
                    register = {"alg": asked, "slots": slots, "ok": True}
                    if not slots:
                        register["over"] = {"jwks": None}
                    for name, obj in reg_objects(asked, adv, slots):
                        for transport in ("value", "uri", "par"):
                            docs, ops = ops_for(transport, 0, obj, DOVER, pusher="client_d")
                            R.run_case("register", wkey, {"prov_algs": prov}, docs, ops, register=register,
                                       note="%s/%s after registering %r with keys %r (advertised %s, own keys %s)" % (
                                           transport, name, asked, slots, "default" if prov is None else prov, opkeys))
    # refused registrations (the rest of the request is not acceptable: a redirect URI with a fragment) register nothing:
    # every object in client_d's name is refused afterwards
    for opkeys in ("rsa+p256", "rsa+p384"):
        wkey = (True, "all", True, 3600, opkeys)
        for asked in ("ES384", "RS256", "none", None):
            register = {"alg": asked, "slots": ALL_SLOTS, "ok": False, "over": {"redirect_uris": ["https://client_d.example.com/cb#f"]}}
            for name, obj in reg_objects(asked, advertised_of(R, wkey, RPROVS[2]), ALL_SLOTS):
                for transport in ("value", "uri"):
                    docs, ops = ops_for(transport, 0, obj, DOVER, pusher="client_d")
                    R.run_case("register-refused", wkey, {"prov_algs": RPROVS[2]}, docs, ops, register=register,
                               note="%s/%s after a REFUSED registration asking %r" % (transport, name, asked))
    # the static clients are judged as before next to a registered client, and client_d's registration does not leak to them
    for opkeys in ("rsa+p256", "p256"):
        wkey = (True, "all", True, 3600, opkeys)
        for asked in ("ES384", "none", "HS256"):
            for reg1 in (None, "RS256"):
                for alg in ("RS256", "ES256", "HS256", "none"):
                    for transport in ("value", "par"):
                        docs, ops = ops_for(transport, 1, genuine("client_1", alg, base_claims("client_1", 1)), {})
                        R.run_case("register-other", wkey, {"prov_algs": RPROVS[2], "reg": {"client_1": reg1}}, docs, ops,
                                   register={"alg": asked, "slots": ALL_SLOTS, "ok": True},
                                   note="%s/client_1 %s (registered %r) after client_d registered %r" % (transport, alg, reg1, asked))


def gen_random_registered(R, rng, count):
    import srv_c16 as S
    pool = S.JOSE_SIGNING + ["ES256K"]
    for i in range(count):
        opkeys = rng.choice(list(S.OP_KEYSETS))
        meth = rng.choice(["all", "all", "rp_pub", "pub"])
        wkey = (True, meth, True, 3600, opkeys)
        prov = None if rng.random() < 0.3 else sorted(rng.sample(pool, rng.randint(1, 7)))
        adv = advertised_of(R, wkey, prov)
        asked = rng.choice(S.JOSE_SIGNING + [None, "ES256K", "rs256", "RS256 "]) if rng.random() < 0.5 else rng.choice(adv)
        slots = ALL_SLOTS if rng.random() < 0.6 else sorted(rng.sample(ALL_SLOTS, rng.randint(0, 4)))
        register = {"alg": asked, "slots": slots, "ok": True}
        if not slots:
            register["over"] = {"jwks": None}
        docs, ops = {}, []
        for k in range(rng.randint(1, 3)):
            name, obj = rng.choice(reg_objects(asked, adv, slots, thorough=True, state="ind%d" % k))
            transport = rng.choice(["value", "uri", "par"])
            d, o = ops_for(transport, k, obj, DOVER, pusher="client_d")
            docs.update(d)
            ops += o
        R.run_case("register-random", wkey, {"prov_algs": prov}, docs, ops, register=register,
                   note="random: registering %r (advertised %r, own keys %s, jwks %r)" % (asked, prov, opkeys, slots))


# ------------------------------------------------------------------ registration HISTORIES: the id client_d is registered
# again (Registration.process_request(..., new_id=False)) with other key material - a new jwks, a new jwks_uri document,
# fewer keys, no key material at all (only a new secret is issued) - accepted or refused; then request objects signed with
# the material of EVERY generation arrive on every transport.  Ground truth: only the material of the registration in
# force (the latest accepted one) is registered for the client.
def KG(g, *slots):
    return [[g, sl] for sl in (slots or ("RSA", "EC"))]


def J(keys, **kw):
    return dict({"via": "jwks", "keys": keys}, **kw)


def U(keys, **kw):
    return dict({"via": "jwks_uri", "keys": keys}, **kw)


def N(**kw):
    return dict({"via": None, "keys": []}, **kw)


REG_HISTORIES = [
    ("no-material", [J(KG(0)), N()]),
    ("new-jwks", [J(KG(0)), J(KG(1))]),
    ("new-jwks-uri", [J(KG(0)), U(KG(1))]),
    ("uri-then-none", [U(KG(0)), N()]),
    ("uri-republished", [U(KG(0), doc=0), U(KG(1), doc=0)]),        # the same URI, the document behind it replaced
    ("uri-other-uri", [U(KG(0)), U(KG(1))]),                        # another URI, the first document still served
    ("uri-refused-uri", [U(KG(0)), U(KG(1), refuse=True)]),         # a refused registration names (and serves) another document
    ("uri-republished-jwks-between", [U(KG(0), doc=0), J(KG(2)), U(KG(1), doc=0)]),
    ("uri-then-jwks", [U(KG(0)), J(KG(1, "RSA"))]),
    ("fewer-keys", [J(KG(0)), J(KG(0, "RSA"))]),
    ("empty-jwks", [J(KG(0)), J([])]),
    ("secret-only", [N(), N()]),
    ("secret-then-keys", [N(), J(KG(1))]),
    ("refused-between", [J(KG(0)), J(KG(1), refuse=True)]),
    ("refused-then-none", [J(KG(0)), J(KG(1), refuse=True), N()]),
    ("first-refused", [J(KG(0), refuse=True), J(KG(1))]),
    ("three-jwks", [J(KG(0)), J(KG(1)), J(KG(2))]),
    ("keys-none-keys", [J(KG(0)), N(), J(KG(2))]),
    ("none-keys-none", [N(), J(KG(1)), N()]),
    ("back-to-first", [J(KG(0)), J(KG(1)), J(KG(0))]),
    ("mixed-generations", [J(KG(0)), J(KG(0, "RSA") + KG(1, "EC")), U(KG(1, "RSA"))]),
]
# what each registration of a history asks for as request_object_signing_alg (by position; shorter patterns repeat None)
ALG_PATTERNS = [(), ("ES256",), (None, "RS256"), ("RS256", "HS256", None), ("HS256",), (None, None, "ES256")]


def with_algs(hist, pat):
    return [dict(sp, alg=(pat[i] if i < len(pat) else None)) for i, sp in enumerate(hist)]


def history_objects(hist, state="ind"):
    """(name, object): for every generation of key material (also one no registration of the history brought) an RS256 and an
    ES256 object under its keys, for every registration of the history (also the refused ones, and one that never happened)
    an HS256 object under the secret it was / would have been issued; unsigned"""
    import srv_c16 as S
    c = dyn_claims(state)
    gens = sorted({g for sp in hist for g, _sl in sp.get("keys") or []} | {0})
    O = []
    for g in gens:
        O.append(("RS256-keys%d" % g, genuine(S.gen_owner(g), "RS256", c)))
        O.append(("ES256-keys%d" % g, genuine(S.gen_owner(g), "ES256", c)))
    for i in range(min(len(hist) + 1, S.GENERATIONS)):
        O.append(("HS256-secret%d" % i, genuine(S.gen_owner(i), "HS256", c)))
    O.append(("unsigned", genuine("client_d", "none", c)))
    return O


def in_force_exists(h):
    """some registration of the history is accepted (else client_d does not exist and cannot authenticate at the PAR endpoint)"""
    return any(not sp.get("refuse") for sp in h)


def gen_histories(R, quick):
    import srv_c16 as S
    n = 0
    for hi, (hname, hist) in enumerate(REG_HISTORIES):
        for upto in range(1, len(hist) + 1):
            if upto == 1 and hname not in ("no-material", "uri-then-none", "secret-only", "first-refused"):
                continue            # the one-registration prefixes repeat each other
            pats = [ALG_PATTERNS[(hi + upto) % len(ALG_PATTERNS)]] if quick else ALG_PATTERNS
            for pat in pats:
                h = with_algs(hist[:upto], pat)
                for meth in ("all", "pub"):
                    if meth == "pub" and (quick and (hi + upto) % 3):
                        continue
                    wkey = (True, meth, True, 3600, "rsa+p256")
                    for name, obj in history_objects(hist):
                        for transport in ("value", "uri", "par") if in_force_exists(h) else ("value", "uri"):
                            n += 1
                            docs, ops = ops_for(transport, 0, obj, DOVER, pusher="client_d")
                            R.run_case("history", wkey, {}, docs, ops, history=h,
                                       note="%s/%s after history %s[:%d] asking %r" % (transport, name, hname, upto, [sp.get("alg") for sp in h]))
    # the algorithm of the registration in force, on one key set: what an earlier registration asked for is gone with it
    for pat in (("ES256", None), (None, "RS256"), ("RS256", "HS256"), ("HS256", None), ("none", "RS256"), ("RS256", "none"), ("ES256", "ES384")):
        h = with_algs([J(KG(0)), J(KG(0))], pat)
        for alg in ("RS256", "ES256", "HS256", "none"):
            own = S.gen_owner(1) if alg == "HS256" else "client_d"
            for transport in ("value", "uri", "par"):
                docs, ops = ops_for(transport, 0, genuine(own, alg, dyn_claims()), DOVER, pusher="client_d")
                R.run_case("history-alg", (True, "all", True, 3600, "rsa+p256"), {"prov_algs": RPROVS[2] if "none" in pat else None}, docs, ops,
                           history=h, note="%s/%s after registering %r then %r with the same keys" % (transport, alg, pat[0], pat[1]))
    # the static clients next to a re-registered one
    for alg in ("RS256", "HS256"):
        for transport in ("value", "par"):
            docs, ops = ops_for(transport, 1, genuine("client_1", alg, base_claims("client_1", 1)), {})
            R.run_case("history-other", (True, "all", True, 3600, "rsa+p256"), {}, docs, ops, history=with_algs([J(KG(0)), N()], ("ES256",)),
                       note="%s/client_1 %s after client_d registered twice" % (transport, alg))


def gen_random_histories(R, rng, count):
    import srv_c16 as S
    for i in range(count):
        hist = []
        for k in range(rng.randint(1, 3)):
            r = rng.random()
            g = rng.randint(0, S.GENERATIONS - 1)
            keys = rng.choice([KG(g), KG(g), KG(g, "RSA"), KG(g, "EC"), KG(g, "RSA") + KG((g + 1) % S.GENERATIONS, "EC"), []])
            sp = N() if r < 0.3 else (J(keys) if r < 0.7 else U(keys))
            if rng.random() < 0.15:
                sp["refuse"] = True
            elif sp["via"] == "jwks_uri" and rng.random() < 0.3:
                sp["doc"] = rng.randint(0, k)          # an ACCEPTED registration republishes at a URI used before (or its own)
            sp["alg"] = rng.choice([None, None, None, "RS256", "ES256", "HS256", "ES256K"])
            hist.append(sp)
        meth = rng.choice(["all", "all", "rp_pub", "pub"])
        docs, ops = {}, []
        for k in range(rng.randint(1, 3)):
            name, obj = rng.choice(history_objects(hist, state="ind%d" % k))
            d, o = ops_for(rng.choice(["value", "uri", "par"] if in_force_exists(hist) else ["value", "uri"]), k, obj, DOVER, pusher="client_d")
            docs.update(d)
            ops += o
        R.run_case("history-random", (True, meth, True, 3600, rng.choice(["rsa+p256", "rsa", "many"])), {}, docs, ops, history=hist,
                   note="random history: %s" % "; ".join("%s%s %r asks %r" % ("REFUSED " if sp.get("refuse") else "", sp["via"], sp["keys"], sp["alg"]) for sp in hist))


# ------------------------------------------------------------------ entry points
IMPORTS = ["Lib.Base", "Lib.PyStr", "Lib.Crypto", "Model.Jar", "Model.JarCheck"]
CASE_T = "ccase"


def flush(R, ctx, label):
    for (jar, base, dprov), cases in R.cases.items():
        shard = max(40, min(150, -(-len(cases) // E.NCPU)))
        ctx.coq_check_cases(IMPORTS, CASE_T, "(chk_compact %s %s %s)" % (jar, base, dprov), cases, shard=shard, label=label,
                            diag="(diag_compact %s %s %s)" % (jar, base, dprov))
    R.cases = {}
    if R.rcases:
        # registration cases: the static parts (key jar per provider key set and JWKS, client base, default set) are few
        # but the groups are many and small: one call, each case names its static parts by position
        js, bs, ds, cases = [], [], [], []

        def pos(l, x):
            if x not in l:
                l.append(x)
            return l.index(x)
        for (jar, base, dprov), cs in R.rcases.items():
            ix = "(%s, %s, %s)" % (coq_nat(pos(js, jar)), coq_nat(pos(bs, base)), coq_nat(pos(ds, dprov)))
            cases += [("(%s, %s)" % (ix, term), rec) for term, rec in cs]
        args = "%s %s %s" % (coq_list(js, "(list (pystr * list (kty * nat)))"), coq_list(bs, "cbase"), coq_list(ds, "(list pystr)"))
        shard = max(40, min(150, -(-len(cases) // E.NCPU)))
        ctx.coq_check_cases(IMPORTS, "((nat * nat * nat) * rcase)", "(chk_reg_multi %s)" % args, cases, shard=shard, label=label + "r",
                            diag="(diag_reg_multi %s)" % args)
    R.rcases = {}
    if R.hcases:
        js, bs, ds, cases = [], [], [], []

        def pos(l, x):
            if x not in l:
                l.append(x)
            return l.index(x)
        for (jar, base, dprov), cs in R.hcases.items():
            ix = "(%s, %s, %s)" % (coq_nat(pos(js, jar)), coq_nat(pos(bs, base)), coq_nat(pos(ds, dprov)))
            cases += [("(%s, %s)" % (ix, term), rec) for term, rec in cs]
        args = "%s %s %s" % (coq_list(js, "(list (pystr * list (kty * nat)))"), coq_list(bs, "cbase"), coq_list(ds, "(list pystr)"))
        shard = max(40, min(150, -(-len(cases) // E.NCPU)))
        ctx.coq_check_cases(IMPORTS + ["Model.JarReg"], "((nat * nat * nat) * hcase)", "(chk_hist_multi %s)" % args, cases, shard=shard,
                            label=label + "h", diag="(diag_hist_multi %s)" % args)
    R.hcases = {}


def run(ctx):
    import logging
    logging.disable(logging.CRITICAL)
    R = Runner(ctx)
    try:
        gen_matrix(R, ctx.quick)
        flush(R, ctx, "matrix")
        gen_random(R, ctx.rng, 250 if ctx.quick else 6000)
        flush(R, ctx, "random")
        gen_par(R, ctx.rng, ctx.quick)
        flush(R, ctx, "par")
        gen_par_spelling(R, ctx.rng, ctx.quick)
        flush(R, ctx, "spelling")
        gen_wrapped(R, ctx.quick)
        flush(R, ctx, "jwe")
        gen_random_wrapped(R, ctx.rng, 150 if ctx.quick else 4000)
        flush(R, ctx, "jwerandom")
        gen_registered(R, ctx.quick)
        flush(R, ctx, "register")
        gen_random_registered(R, ctx.rng, 150 if ctx.quick else 4000)
        flush(R, ctx, "registerrandom")
        gen_histories(R, ctx.quick)
        gen_random_histories(R, ctx.rng, 150 if ctx.quick else 4000)
        flush(R, ctx, "history")
    finally:
        if R.clock is not None:
            R.clock.uninstall()
        logging.disable(logging.NOTSET)
    if R.hooks_bad:
        ctx.broken.append("authorization endpoint post_parse_request no longer ends with _post_parse_request: "
                          "the theorems of Props/C16.v do not apply to this configuration")
    if R.accepted_genuine == 0:
        ctx.broken.append("harness sanity: no genuine request object was accepted on any transport")
    for tr in ("value", "pushed"):
        if tr not in R.accepted_wrapped:
            ctx.broken.append("harness sanity: no genuine request object inside an encrypted wrapper was accepted (%s): "
                              "the provider no longer decrypts, the wrapper rows judge nothing" % tr)
    ctx.notes.append("genuine objects accepted: %d (inside a JWE: %s)" % (R.accepted_genuine, ", ".join(sorted(R.accepted_wrapped)) or "none"))
    st = R.reg_stats
    for k, what in (("exact", "asking for an advertised algorithm"), ("dropped", "asking for nothing / a value not advertised"),
                    ("refused", "that is refused")):
        if st[k] == 0:
            ctx.broken.append("harness sanity: no registration %s was driven: the registration rows judge nothing" % what)
    for tr in ("value", "uri", "pushed"):
        if not ctx.distribution.get("genuine-accepted-registered:" + tr):
            ctx.broken.append("harness sanity: no genuine request object of a dynamically registered client was accepted (%s)" % tr)
    hs = R.hist_stats
    if hs["again"] == 0 or hs["refused"] == 0:
        ctx.broken.append("harness sanity: no registration history was driven (%r): the history rows judge nothing" % hs)
    for tr in ("value", "uri", "pushed"):
        if not ctx.distribution.get("genuine-accepted-reregistered:" + tr):
            ctx.broken.append("harness sanity: after a re-registration no object signed with the material in force was accepted (%s)" % tr)
    ctx.notes.append("registration histories: %d accepted registrations (%d of them under an id already registered), %d refused; objects signed "
                     "with the material in force accepted after a re-registration: %s" % (hs["stored"], hs["again"], hs["refused"], ", ".join(
                         "%s %d" % (tr, ctx.distribution.get("genuine-accepted-reregistered:" + tr, 0)) for tr in ("value", "uri", "pushed"))))
    ctx.notes.append("registrations through the real endpoint: %d accepted (%d asking for an advertised algorithm, %d for nothing / a value "
                     "not advertised), %d refused; a value that is not advertised is dropped and the response says so (observation, see "
                     "assumptions)" % (st["stored"], st["exact"], st["dropped"], st["refused"]))


def replay(ctx, rp):
    """re-run the recorded case (world, configuration, documents, operations) on the current tree"""
    import logging
    logging.disable(logging.CRITICAL)
    case = rp.get("case") or (rp.get("correspondence_mismatches") or [{}])[0].get("case")
    if not case or "ops" not in case:
        ctx.notes.append("replay file has no case: re-running the generator with the recorded seed")
        ctx.rng.seed(rp.get("seed", ctx.seed))
        return run(ctx)
    R = Runner(ctx)
    w = case["world"]
    ops = []
    urns = []
    for o in case["ops"]:
        if o["op"] == "tick":
            ops.append(("tick", o["dt"]))
        elif o["op"] == "push":
            body = {k: v for k, v in o["body"].items() if k != "request"}
            if "request_uri" in body and body["request_uri"] in urns:
                body["__ref"] = urns.index(body.pop("request_uri"))
            ops.append(("push", o["pusher"], body, o["obj"]))
            if o.get("urn"):
                urns.append(o["urn"])
        else:
            outer = {k: v for k, v in o["outer"].items() if k != "request"}
            ru = outer.get("request_uri")
            if "which" in o and (o.get("spelling") is None or o["spelling"] in SPELL):
                # a redemption of the n-th issued uri (the uris are drawn afresh on every run), possibly through a spelling
                outer.pop("request_uri", None)
                ops.append(("redeem", o["which"], outer, o["obj"], o.get("spelling")))
            elif ru in urns:
                outer.pop("request_uri")
                ops.append(("redeem", urns.index(ru), outer, o["obj"]))
            else:
                ops.append(("authz", outer, o["obj"]))
    wkey = (w["oidc"], w["methods"], w["has_par"], w["ttl"]) + ((w["opkeys"],) if w.get("opkeys") else ())
    try:
        R.run_case(case.get("kind", "replay"), wkey, case.get("conf") or {},
                   case.get("docs") or {}, ops, t0=case.get("t0", 1_700_000_000), note="replay of: %s" % case.get("note", ""),
                   register=case.get("register"), history=case.get("history"))
        flush(R, ctx, "replay")
    finally:
        if R.clock is not None:
            R.clock.uninstall()
        logging.disable(logging.NOTSET)
