"""C17 driver — cookies issued by the provider are tamper-evident and round-trip exactly.

Drives the REAL idpyoidc.server.cookie_handler.CookieHandler in its four key configurations
(sign_key / sign_key+enc_key / enc_key / Fernet encrypter): make_cookie_content and parse_cookie, plus
EndpointContext.new_cookie of real providers.  Every genuine cookie is taken apart HERE with hmac / AESGCM /
Fernet from the standard libraries (not with repo code); that yields the dictionary "base64 text <-> symbolic
cryptographic value" with which cookie strings are translated into the symbol sequences of Model/Cookie.v.
The model is evaluated on the same inputs by vm_compute (make_cookie text, parse_cookie outcome).
The oracle is written from the property text: a parsed cookie must carry exactly the content of a cookie this
handler issued; a produced cookie must parse back to exactly (value, type, str(timestamp)).
"""
import base64
import hashlib
import hmac
import json
import re
from concurrent.futures import ThreadPoolExecutor

import engine as E
from engine import coq_str, coq_list, coq_z, coq_opt

RULE = ("four real CookieHandlers (distinct keys) + attacker handlers with other keys; (1) round trips of "
        "(value, type, timestamp) with values over an alphabet containing '|', ':', '::', JSON metacharacters, "
        "spaces and non-ASCII, types inside and outside the type guard, timestamps int / str / clock; "
        "(2) structural mutations of genuine cookies, exhaustive per base cookie: every shift of 1-3 "
        "characters across every '|' boundary in both directions, the leading-timestamp-digits-to-payload "
        "shift, every '::' boundary shift, every part replaced by every part of a second genuine cookie, parts "
        "swapped inside the cookie, every base64 part altered (character flipped / deleted / inserted / case / "
        "padding / alphabet / non-alphabet character), clear-text timestamp changed, truncations at and around "
        "every boundary, extra and missing parts, cookies of the other handlers and of attacker keys; "
        "(3) new_cookie through real providers; (4) canonicalisation-sensitive content: every token of CANON "
        "(percent escapes well-formed / malformed / nested / of the separators, plus signs, HTML entities, "
        "backslash, octal and quoted-string escapes, quoted-printable, leading / trailing / control whitespace, "
        "NUL, Unicode normalisation / compatibility / case-folding pairs, non-BMP, look-alikes of '|' and ':', "
        "cookie-attribute syntax, numeric look-alikes) as the whole value, as the whole type and embedded (between "
        "characters, doubled, inside a JSON document), in every handler mode, plus random compositions; and "
        "re-encodings of genuine cookies (separators / base64 characters / payload characters percent-encoded, "
        "whole value quoted, plus<->space, decoded once, entity-encoded, double-quoted, white space around, "
        "look-alike separators); (5) cookie jars - ONE parse_cookie call with several cookies: every forged "
        "string of (2) (structural mutations of two or more base cookies, attacker-key cookies, cookies of the other "
        "handlers, malformed strings) after, before and between genuine cookies of the same name, all orders of "
        "(genuine, forged, genuine), two forged ones, the forged cookie right after its own base, the same strings "
        "under another name / without a name, jars of genuine cookies only in all orders and with repetitions, the "
        "empty list, random jars of 2-6 cookies.  A case is one make or one parse call; distinct by its string(s).")
ASSUMPTIONS = [
    "HMAC-SHA256 (cryptojwt HMACSigner), AES-GCM (cryptojwt AES_GCMEncrypter) and Fernet are ideal: MAC/AE terms "
    "of Lib/Crypto.v; a key of the handler is never published (Dolev-Yao hypothesis `secret`)",
    "text that is not exactly the base64 of an issued cryptographic value never decodes to a valid MAC / "
    "ciphertext / tag (blob_view ... = BGarbage is rejected)",
    "a part mixing a blob with other characters in a base64-decoded position, and non-canonical base64 that decodes "
    "to an issued value, have no symbolic counterpart: Unmodelled in the model, judged by the oracle only",
    "lv_pack/lv_unpack as proved in Proofs/Lv_proofs.v (C14); timestamps in the oracle stream are decimal",
]

BAR = "|"
JAR_NAME = "n"
KEYS = {  # key number in the model -> raw bytes
    1: b"S-mode-signing-key-0123456789abcdef!",
    2: b"SE-mode-signing-key-0123456789abcdef",
    3: b"SE-mode-enc-key-0123456789abcdef"[:32],
    4: b"E-mode-enc-key-0123456789abcdef-"[:32],
    5: b"C-mode-fernet-raw-key-0123456789"[:32],
    7: b"attacker-signing-key-0123456789abcde",
    8: b"attacker-enc-key-0123456789abcdef"[:32],
    9: b"attacker-fernet-raw-key-01234567"[:32],
}
IMPORTS = ["Lib.Base", "Lib.PyStr", "Lib.Crypto", "Model.Lv", "Model.Cookie"]


def lv_pack(*args):
    return "".join("%d:%s" % (len(a), a) for a in args)


# ---------------------------------------------------------------- symbolic terms (as Coq text) and blob dictionary
def t_atom(s):
    return "(Atom %s)" % coq_str(s)


def t_mac(k, m):
    return "(Mac %d%%nat %s)" % (k, m)


def t_aenc(k, r, m):
    return "(AEnc %d%%nat %s %s)" % (k, coq_str(r), m)


def t_pair(a, b):
    return "(Pair %s %s)" % (a, b)


class Universe:
    """every cryptographic value seen so far: base64 text <-> (name, Coq term)."""

    def __init__(self):
        self.by_text = {}     # text -> name
        self.term = {}        # name -> coq term text
        self.text = {}        # name -> text
        self.bytes_of = {}    # decoded bytes -> name (for the lenient-base64 classification)
        self.ivs = {}         # iv text -> bytes
        self.lengths = None

    def add(self, text, term):
        if text in self.by_text:
            return self.by_text[text]
        name = "b%d" % len(self.term)
        self.by_text[text] = name
        self.term[name] = term
        self.text[name] = text
        for raw in self.decodings(text):
            self.bytes_of[raw] = name
        self.lengths = None
        return name

    @staticmethod
    def decodings(text):
        """the byte strings a part can stand for: its base64 decoding the way the handler decodes (non-validating),
        and — Fernet tokens are base64 inside base64 — the decoding of that"""
        out = []
        try:
            raw = base64.b64decode(text)
        except Exception:
            return out
        if raw:
            out.append(raw)
            try:
                inner = base64.urlsafe_b64decode(raw)
                if len(inner) > 40 and inner[:1] == b"\x80":
                    out.append(inner)
            except Exception:
                pass
        return out

    def add_iv(self, text):
        self.ivs[text] = base64.b64decode(text)

    RUN = re.compile(r"([A-Za-z0-9+/=_-]+)")

    def tokens(self, s):
        """cookie string -> list of ('t', text) / ('b', name).  Blob texts are base64: the string is cut into maximal
        runs of base64 characters; a run that is an issued blob text is a blob; a run that starts or ends with one
        (characters moved across a boundary) is a blob plus characters."""
        out = []
        for i, seg in enumerate(self.RUN.split(s)):
            if not seg:
                continue
            if i % 2 == 0:
                out.append(("t", seg))
            else:
                out.extend(self.run_tokens(seg))
        res = []
        for k, x in out:       # merge adjacent text tokens
            if k == "t" and res and res[-1][0] == "t":
                res[-1] = ("t", res[-1][1] + x)
            else:
                res.append((k, x))
        return res

    def run_tokens(self, run):
        if run in self.by_text:
            return [("b", self.by_text[run])]
        if self.lengths is None:
            self.lengths = sorted({len(t) for t in self.by_text}, reverse=True)
        n = len(run)
        for L in self.lengths:
            if L < n:
                if run[:L] in self.by_text:
                    return [("b", self.by_text[run[:L]])] + self.run_tokens(run[L:])
                if run[n - L:] in self.by_text:
                    return self.run_tokens(run[:n - L]) + [("b", self.by_text[run[n - L:]])]
        return [("t", run)]

    def wire(self, s):
        toks = self.tokens(s)
        if not toks:
            return "(@nil sym)", set()
        used = {n for k, n in toks if k == "b"}
        return "(" + " ++ ".join("chs %s" % coq_str(x) if k == "t" else "[Bl %s]" % x for k, x in toks) + ")%list", used

    def lenient(self, s):
        """some '|'-part is not an issued blob text / iv text itself but base64-decodes (the way the code decodes)
        to the bytes of one: byte-level alteration without symbolic counterpart"""
        for p in s.split(BAR):
            if p in self.by_text or p in self.ivs:
                continue
            for raw in self.decodings(p):
                if raw in self.bytes_of or raw in self.ivs.values():
                    return True
        return False


# ---------------------------------------------------------------- real handlers + independent dissection
class Mode:
    def __init__(self, name, sk, ek, ck):
        from idpyoidc.server.cookie_handler import CookieHandler
        from cryptojwt.jwk.hmac import SYMKey
        self.name, self.sk, self.ek, self.ck = name, sk, ek, ck
        if ck is not None:
            self.h = CookieHandler(crypt_config={"kwargs": {"key": KEYS[ck]}})
        else:
            kw = {}
            if sk is not None:
                kw["sign_key"] = SYMKey(key=KEYS[sk])
            if ek is not None:
                kw["enc_key"] = SYMKey(key=KEYS[ek])
            self.h = CookieHandler(**kw)
        self.genuine = []   # (value, typ, ts_str, cookie string)

    def coq(self):
        o = lambda k: "None" if k is None else "(Some %d%%nat)" % k
        return "(mk_handler %s %s %s)" % (o(self.sk), o(self.ek), o(self.ck))

    def make(self, value, typ, ts):
        return self.h.make_cookie_content("n", value, typ, ts)["value"]

    def parse(self, s):
        """('ok', value, typ, ts) | ('rej', how)"""
        try:
            r = self.h.parse_cookie("n", [{"name": "n", "value": s}])
        except Exception as e:
            return ("rej", type(e).__name__)
        if not r:
            return ("rej", "dropped")
        d = r[0]
        return ("ok", d["value"], d["type"], d["timestamp"])

    def parse_many(self, cookies):
        """ONE parse_cookie call with a list of cookie dicts: ('raised', class) | ('none',) | ('list', [(value, type, ts)])"""
        try:
            r = self.h.parse_cookie(JAR_NAME, [dict(c) for c in cookies])
        except Exception as e:
            return ("raised", type(e).__name__)
        if r is None:
            return ("none",)
        return ("list", [(d.get("value"), d.get("type"), d.get("timestamp")) for d in r])

    def dissect(self, U, cookie, payload, ts):
        """Take a cookie this handler made apart with library crypto; register its blobs.
        Returns (r, problem): r = the randomness the model needs; problem = None or a description."""
        from cryptography.hazmat.primitives.ciphers.aead import AESGCM
        from cryptography.fernet import Fernet
        lv = lv_pack(payload, ts)
        mac_t = mac_txt = None
        if self.sk is not None:
            mac_txt = base64.b64encode(hmac.new(KEYS[self.sk], lv.encode("utf-8"), hashlib.sha256).digest()).decode()
            mac_t = t_mac(self.sk, t_atom(lv))
        if self.ek is not None:
            parts = cookie.rsplit(BAR, 3)
            if len(parts) != 4:
                return "", "AES-GCM cookie has %d parts" % len(parts)
            _, ivt, ctt, tagt = parts
            try:
                pt = AESGCM(KEYS[self.ek]).decrypt(base64.b64decode(ivt), base64.b64decode(ctt) + base64.b64decode(tagt), None)
            except Exception as e:
                return ivt, "AES-GCM cookie does not decrypt with the handler's key: %r" % e
            want = lv_pack(payload, ts, mac_txt) if mac_txt is not None else lv
            if pt.decode("utf-8") != want:
                return ivt, "AES-GCM plaintext %r, expected %r" % (pt, want)
            if mac_t is not None:
                U.add(mac_txt, mac_t)
                ptt = t_pair(t_atom(lv), mac_t)
            else:
                ptt = t_atom(lv)
            ct = t_aenc(self.ek, ivt, ptt)
            U.add(ctt, ct)
            U.add(tagt, t_mac(self.ek, ct))
            U.add_iv(ivt)
            return ivt, None
        if self.ck is not None:
            parts = cookie.rsplit(BAR, 1)
            if len(parts) != 2:
                return "", "Fernet cookie has %d parts" % len(parts)
            tok = parts[1]
            try:
                pt = Fernet(base64.urlsafe_b64encode(KEYS[self.ck])).decrypt(base64.b64decode(tok))
            except Exception as e:
                return tok[:22], "Fernet cookie does not decrypt with the handler's key: %r" % e
            lv2 = lv_pack(ts, payload).encode("utf-8")
            if len(lv2) % 16:
                lv2 += b" " * (16 - len(lv2) % 16)
            if pt != lv2:
                return tok[:22], "Fernet plaintext %r, expected %r" % (pt, lv2)
            U.add(tok, t_aenc(self.ck, tok[:22], t_atom(lv_pack(ts, payload))))
            return tok[:22], None
        if mac_txt is not None:
            U.add(mac_txt, mac_t)
        return "", None


# ---------------------------------------------------------------- Coq evaluation with shared blob definitions
def eval_shards(ctx, label, case_type, cases, checkers, U, shard=150):
    """cases: list of (term, used blob names, record). checkers: list of Gallina bool functions.
    Returns {checker: [records on which it is false]}; records shards that do not evaluate as broken."""
    res = {c: [] for c in checkers}
    jobs = []
    for i in range(0, len(cases), shard):
        chunk = cases[i:i + shard]
        used = set()
        for _, u, _ in chunk:
            used |= u
        # (the text of a MAC nested inside a ciphertext is never needed: only its presence counts)
        names = sorted(used, key=lambda n: int(n[1:]))
        pre = "".join("Definition %s : term := %s.\n" % (n, U.term[n]) for n in names)
        pre += "Definition tab : btab := %s.\n" % coq_list(["(%s, %s)" % (n, coq_str(U.text[n])) for n in names], "(term * pystr)")
        body = pre + "Definition cases : list (%s) := [\n%s\n].\n" % (case_type, ";\n".join(t for t, _, _ in chunk))
        for c in checkers:
            body += "Eval vm_compute in (bad_indices (%s) cases).\n" % c
        ctx.shard_seq += 1
        jobs.append(("%s_%s_%03d" % (ctx.prop, label, ctx.shard_seq), body, chunk))

    def run(job):
        return job, ctx.coq_eval(job[0], IMPORTS, job[1])
    with ThreadPoolExecutor(max_workers=min(E.NCPU, max(1, len(jobs)))) as ex:
        results = list(ex.map(run, jobs))
    for (name, body, chunk), (rc, out, vals) in results:
        if rc != 0 or len(vals) < len(checkers):
            ctx.broken.append("correspondence shard %s does not evaluate: %s" % (name, out.strip()[-600:]))
            continue
        ctx.traces += len(chunk)
        for c, v in zip(checkers, vals[-len(checkers):]):
            try:
                idx = E.parse_nat_list(v)
            except ValueError as e:
                ctx.broken.append("correspondence shard %s: %s" % (name, e))
                continue
            for j in idx:
                res[c].append((name, j, chunk[j]))
    return res


def diag(ctx, U, fn, case, name):
    term, used, rec = case
    pre = "".join("Definition %s : term := %s.\n" % (n, U.term[n]) for n in sorted(U.term, key=lambda n: int(n[1:])))
    pre += "Definition tab : btab := %s.\n" % coq_list(["(%s, %s)" % (n, coq_str(U.text[n])) for n in U.term], "(term * pystr)")
    rc, out, vals = ctx.coq_eval(name + "_diag", IMPORTS, pre + "Eval vm_compute in (%s %s).\n" % (fn, term))
    return vals[-1][:1500] if vals else out[-400:]


# ---------------------------------------------------------------- generators
VALUE_ALPHA = ["a", "b", "Z", "0", "7", BAR, ":", "::", " ", "{", "}", "\"", ",", "[", "]", "\\", "=", "+", "/", "-",
               "å", "€", "λ", "\n", "%", ";"]
TYPES_OK = ["", "sso", "s", "reg", "a:b", "x y", "t|u", "å", "a:"]
TYPES_HOSTILE = [":b", "x::y", "::", ":", "b ", "  ", "a::", ":::"]


# Content a "canonicalising" layer (percent / form / entity decoding, cookie quoted-string unquoting, MIME decoding,
# white-space trimming, Unicode normalisation, case folding, C-string handling) would rewrite.  C17 quantifies over all
# payload strings and type tags: each token must come back exactly, in every position and every mode.
CANON = [
    ("pct", ["%2F", "%20", "%7C", "%7c", "%25", "%3A%3A", "%3a", "%2B", "%3D", "%22", "%5C", "%0A", "%00", "%E2%82%AC",
             "%C3%A5", "%C3", "%252F", "%257C", "%u20AC", "15%25 off", "next=%2Fhome&x=a%20b"]),
    ("pct-malformed", ["%", "%%", "%2", "%G1", "%zz", "100%", "%%7C", "%7"]),
    ("plus", ["+", "a+b", "+ +", " +", "a%2Bb+c d"]),
    ("entity", ["&amp;", "&#124;", "&#x7C;", "&lt;b&gt;", "&quot;", "&colon;&colon;", "&", "&amp;amp;"]),
    ("backslash", ["\\\"", "\\\\", "\\054", "\\073", "\\174", "\\x7c", "\\u007c", "\\n", "\\", "\\072\\072"]),
    ("quoted", ["\"q\"", "'q'", "\"", "\"\"", "\"a|b\""]),
    ("mime", ["=7C", "=3D", "=\n", "=?utf-8?q?a?=", "=3A=3A"]),
    ("space", [" lead", "trail ", "\tt\t", "\r\n", "a\r\nb", "\u00a0", "\u200b", "\ufeff", "\x00", "a\x00b", "\x7f",
               "\x0b", "a  b", "\u2028", " "]),
    ("unicode", ["\u00e9", "e\u0301", "\ufb01", "\uff5c", "\uff1a\uff1a", "\u212b", "\u00c5", "A\u030a", "\u01c5", "\u00df",
                 "\u0130", "\U0001f600", "\u00c3\u00a5", "\u01c0", "\ufe55\ufe55", "\u2236\u2236"]),
    ("case", ["AbC", "ABC", "abc"]),
    ("base64", ["YQ==", "YQ", "-_", "YWJj\n"]),
    ("attribute", [";", ",", "; Path=/", "a=b", "a=b; c=d", "$Version", "n=v"]),
    ("number", ["017", "1e3", "+1", "0x1F", "1.0", "-0"]),
]
CANON_TOKENS = [(cls, tok) for cls, toks in CANON for tok in toks]


def canon_class(v, t):
    """oracle key class of a round-trip failure on canonicalisation-sensitive content"""
    if "%" in v or "%" in t:
        return "rt-percent"
    if "+" in v or "+" in t:
        return "rt-plus"
    return "rt-canon"


def rcanon(rng, maxtok=4):
    return "".join(rng.choice(CANON_TOKENS)[1] if rng.random() < 0.7 else rng.choice(VALUE_ALPHA)
                   for _ in range(rng.randint(1, maxtok)))


def canon_roundtrips(ctx, U, mode, rng, clock, make_cases, parse_cases):
    """(4): every CANON token alone as value, alone as type, and embedded; then random compositions"""
    def go(v, t, kind):
        do_make(ctx, U, mode, v, t, str(1000 + clock.now % 7919), clock.now, make_cases, parse_cases, kind)
        clock.tick(1)
    for cls, tok in CANON_TOKENS:
        go(tok, "sso", "roundtrip-canon-value:" + cls)
        go("v", tok if typ_in_guard(mode, tok) else "t" + tok, "roundtrip-canon-type:" + cls)
        emb = [("x" + tok + "y", ""), (tok + tok, "s"), (json.dumps({"sub": "d", "return_to": "https://rp.example.org/cb?" + tok}), ""),
               ("a" + tok, "b" + tok + "c")]
        for v, t in (emb if not ctx.quick else [emb[rng.randrange(len(emb))]]):
            go(v, t, "roundtrip-canon-embedded:" + cls)
    types = TYPES_OK + [tok for _, tok in CANON_TOKENS if "::" not in tok and not tok.startswith(":")]
    for _ in range(20 if ctx.quick else 600):
        v = rcanon(rng)
        t = rng.choice(types) if rng.random() < 0.6 else ""
        do_make(ctx, U, mode, v, t, rng.choice([str(rng.randint(1, 2 * 10 ** 9)), 0]), clock.now, make_cases, parse_cases,
                "roundtrip-canon-random")
        clock.tick(rng.randint(0, 2))


def pct(ch):
    return "".join("%%%02X" % b for b in ch.encode("utf-8"))


def reencodings(c):
    """a genuine cookie string pushed through encoders / decoders a transport or framework layer might apply: none of
    these strings was produced by the provider.  Yields (kind, string)."""
    import html
    import urllib.parse as up
    seps = [i for i, ch in enumerate(c) if ch == BAR]
    yield ("reenc-pct-bar-all", c.replace(BAR, "%7C"))
    yield ("reenc-pct-bar-all-lower", c.replace(BAR, "%7c"))
    for i in seps:
        yield ("reenc-pct-bar@%d" % i, c[:i] + "%7C" + c[i + 1:])
    yield ("reenc-pct-dcolon", c.replace("::", "%3A%3A"))
    yield ("reenc-pct-colon", c.replace(":", "%3A"))
    yield ("reenc-pct-base64-chars", c.replace("=", "%3D").replace("+", "%2B").replace("/", "%2F"))
    yield ("reenc-pct-equals", c.replace("=", "%3D"))
    yield ("reenc-quote", up.quote(c, safe=""))
    yield ("reenc-quote-keep-bar", up.quote(c, safe="|:=/+"))
    yield ("reenc-quote-plus", up.quote_plus(c))
    yield ("reenc-quote-twice", up.quote(up.quote(c, safe=""), safe=""))
    yield ("reenc-unquote", up.unquote(c))
    yield ("reenc-unquote-plus", up.unquote_plus(c))
    yield ("reenc-plus-to-space", c.replace("+", " "))
    yield ("reenc-space-to-plus", c.replace(" ", "+"))
    yield ("reenc-space-to-pct", c.replace(" ", "%20"))
    # one ordinary character of every part written as its percent escape
    parts = c.split(BAR)
    for j, p in enumerate(parts):
        for i in sorted({0, len(p) // 2, len(p) - 1}):
            if 0 <= i < len(p) and p[i] != "%":
                q = list(parts)
                q[j] = p[:i] + pct(p[i]) + p[i + 1:]
                yield ("reenc-pct-char-part%d@%d" % (j, i), BAR.join(q))
    yield ("reenc-all-pct", "".join(pct(ch) for ch in c))
    yield ("reenc-entity", html.escape(c))
    yield ("reenc-entity-bar", c.replace(BAR, "&#124;"))
    yield ("reenc-unescape", html.unescape(c))
    yield ("reenc-dquoted", "\"" + c.replace("\\", "\\\\").replace("\"", "\\\"") + "\"")
    yield ("reenc-dquoted-plain", "\"" + c + "\"")
    yield ("reenc-octal-bar", c.replace(BAR, "\\174"))
    yield ("reenc-qp-bar", c.replace(BAR, "=7C"))
    yield ("reenc-fullwidth-bar", c.replace(BAR, "\uff5c"))
    yield ("reenc-fullwidth-colon", c.replace(":", "\uff1a"))
    for name, alt in (("lead-space", " " + c), ("lead-tab", "\t" + c), ("trail-tab", c + "\t"), ("trail-crlf", c + "\r\n"),
                      ("lead-bom", "\ufeff" + c), ("trail-nul", c + "\x00"), ("trail-semicolon", c + ";"),
                      ("trail-attribute", c + "; Path=/"), ("named", "n=" + c), ("upper", c.upper()), ("lower", c.lower())):
        yield ("reenc-" + name, alt)
    import unicodedata
    for form in ("NFC", "NFD", "NFKC", "NFKD"):
        yield ("reenc-" + form, unicodedata.normalize(form, c))


def rvalue(rng, maxlen=12):
    return "".join(rng.choice(VALUE_ALPHA) for _ in range(rng.randint(0, maxlen)))


def classify_rt(mode, v, t):
    if mode.name == "S" and (BAR in v or BAR in t):
        return "rt-bar-signed"
    if "::" in v:
        return "rt-dcolon"
    if v.endswith(":"):
        return "rt-colon-edge"
    return "rt-other"




def typ_in_guard(mode, t):
    return "::" not in t and not t.startswith(":") and not (mode.name == "C" and t.endswith(" "))


def do_make(ctx, U, mode, v, t, ts, now, make_cases, parse_cases, kind, oracle=True):
    """one real make + parse-back; registers the cookie as genuine; returns the cookie string or None"""
    rec = {"kind": kind, "mode": mode.name, "value": v, "type": t, "timestamp": ts}
    try:
        c = mode.make(v, t, ts)
    except Exception as e:
        rec["make"] = "raised %r" % e
        ctx.mismatch("make_cookie_content raised", rec)
        return None
    ts_eff = str(ts) if ts else str(now)
    rec["cookie"] = c
    ctx.case_seen(rec, True)
    ctx.count("make:" + mode.name)
    if not v and not t:
        make_cases.append(("(%s, %s, %s, %s, %s, %s, tab, %s)" % (mode.coq(), coq_str(v), coq_str(t),
                            coq_str(str(ts) if ts else ""), coq_z(now), coq_str(""), coq_str(c)), set(), rec))
        return None
    payload = v + "::" + t
    r, problem = mode.dissect(U, c, payload, ts_eff)
    if problem:
        # not what the model says a cookie looks like; it still IS a cookie this handler issued: keep it for
        # the oracle and the mutation stream
        if len(ctx.mismatches) < 40:
            ctx.mismatch("cookie structure: " + problem, rec)
        mode.genuine.append((v, t, ts_eff, c))
        return c
    _, used = U.wire(c)
    make_cases.append(("(%s, %s, %s, %s, %s, %s, tab, %s)" % (mode.coq(), coq_str(v), coq_str(t),
                        coq_str(str(ts) if ts else ""), coq_z(now), coq_str(r), coq_str(c)), used, rec))
    mode.genuine.append((v, t, ts_eff, c))
    # parse it back: round-trip oracle + model
    out = mode.parse(c)
    rec2 = dict(rec, parsed=list(out))
    add_parse_case(U, mode, c, out, parse_cases, rec2)
    numeric_ts = ts_eff.isdigit() and ts_eff.isascii()
    if oracle and typ_in_guard(mode, t) and numeric_ts:
        if out != ("ok", v, t, ts_eff):
            key = classify_rt(mode, v, t)
            if key == "rt-other" and kind.startswith("roundtrip-canon"):
                key = canon_class(v, t)
            ctx.violation(key,
                          "mode %s: make_cookie_content(value=%r, typ=%r, timestamp=%r) -> %r parses back to %r"
                          % (mode.name, v, t, ts, c, out), rec2)
    else:
        ctx.count("roundtrip-outside-oracle-domain:" + ("type" if not typ_in_guard(mode, t) else "timestamp"))
    return c


def add_parse_case(U, mode, s, out, parse_cases, rec):
    w, used = U.wire(s)
    if out[0] == "ok":
        obs = "(Some (%s, %s, %s))" % (coq_str(out[1]), coq_str(out[2]), coq_str(out[3]))
    else:
        obs = "(@None (pystr * pystr * pystr))"
    parse_cases.append(("(%s, tab, %s, %s)" % (mode.coq(), w, obs), used, rec))


def mutations(rng, c, other, exhaustive=True):
    """structural mutations of the genuine cookie string c (other: a second genuine cookie). Yields (kind, string)."""
    seps = [i for i, ch in enumerate(c) if ch == BAR]
    for i in seps:
        for n in (1, 2, 3):
            if i - n >= 0:
                yield ("shift-right-%d" % n, c[:i - n] + BAR + c[i - n:i] + c[i + 1:])
            if i + 1 + n <= len(c):
                yield ("shift-left-%d" % n, c[:i] + c[i + 1:i + 1 + n] + BAR + c[i + 1 + n:])
    parts = c.split(BAR)
    oparts = other.split(BAR)
    # the pre-repair ambiguity: leading timestamp characters re-appear at the end of the payload
    if len(parts) >= 3:
        for n in (1, 2, 3):
            if len(parts[0]) > n:
                q = list(parts)
                q[0], q[-2] = parts[0][n:], parts[-2] + parts[0][:n]
                yield ("ts-head-to-payload-%d" % n, BAR.join(q))
                q = list(parts)
                q[0], q[-2] = parts[0] + parts[-2][:n], parts[-2][n:]
                yield ("payload-head-to-ts-%d" % n, BAR.join(q))
                q = list(parts)
                q[0], q[-2] = parts[0][:-n], parts[0][-n:] + parts[-2]
                yield ("ts-tail-to-payload-%d" % n, BAR.join(q))
    # '::' boundaries
    for m in re.finditer("::", c):
        i = m.start()
        for n in (1, 2):
            if i - n >= 0:
                yield ("dcolon-shift-right-%d" % n, c[:i - n] + "::" + c[i - n:i] + c[i + 2:])
            if i + 2 + n <= len(c):
                yield ("dcolon-shift-left-%d" % n, c[:i] + c[i + 2:i + 2 + n] + "::" + c[i + 2 + n:])
        yield ("dcolon-removed", c[:i] + c[i + 2:])
        yield ("dcolon-doubled", c[:i] + "::::" + c[i + 2:])
    # parts replaced by parts of the other cookie, parts swapped inside
    for j in range(len(parts)):
        for k in range(len(oparts)):
            q = list(parts)
            q[j] = oparts[k]
            yield ("part%d<-other%d" % (j, k), BAR.join(q))
        for k in range(j + 1, len(parts)):
            q = list(parts)
            q[j], q[k] = q[k], q[j]
            yield ("swap%d-%d" % (j, k), BAR.join(q))
    # every part that looks like base64 altered
    b64 = "ABCDEFGHIJKLMNOPQRSTUVWXYZabcdefghijklmnopqrstuvwxyz0123456789+/"
    for j, p in enumerate(parts):
        if j == 0 or len(p) < 8 or not re.fullmatch(r"[A-Za-z0-9+/_=-]+", p):
            continue
        pos = sorted({0, 1, len(p) // 2, max(0, len(p) - 3), max(0, len(p) - 2)})
        for i in pos:
            if p[i] == "=":
                continue
            for repl in {rng.choice([x for x in b64 if x != p[i]]), "A" if p[i] != "A" else "B"}:
                q = list(parts)
                q[j] = p[:i] + repl + p[i + 1:]
                yield ("b64-flip-part%d@%d" % (j, i), BAR.join(q))
            q = list(parts)
            q[j] = p[:i] + p[i + 1:]
            yield ("b64-delete-part%d@%d" % (j, i), BAR.join(q))
            q = list(parts)
            q[j] = p[:i] + "A" + p[i:]
            yield ("b64-insert-part%d@%d" % (j, i), BAR.join(q))
            q = list(parts)
            q[j] = p[:i] + "!" + p[i:]
            yield ("b64-nonalphabet-part%d@%d" % (j, i), BAR.join(q))
        for name, alt in (("swapcase", p.swapcase()), ("nopad", p.rstrip("=")), ("morepad", p + "="),
                          ("urlsafe", p.replace("+", "-").replace("/", "_")), ("reverse", p[::-1]),
                          ("space", p + " "), ("newline", p + "\n"), ("empty", ""), ("double", p + p)):
            if alt != p:
                q = list(parts)
                q[j] = alt
                yield ("b64-%s-part%d" % (name, j), BAR.join(q))
    # clear-text timestamp
    t0 = parts[0]
    for name, alt in (("plus1", str(int(t0) + 1) if t0.isdigit() and t0.isascii() else t0 + "1"), ("prefix", "1" + t0),
                      ("suffix", t0 + "0"), ("empty", ""), ("other", oparts[0]), ("minus", "-" + t0),
                      ("drop-first", t0[1:]), ("drop-last", t0[:-1])):
        q = list(parts)
        q[0] = alt
        yield ("timestamp-" + name, BAR.join(q))
    # truncations, extra parts
    cuts = {0, 1, len(c) - 1, len(c) // 2}
    for i in seps:
        cuts |= {i - 1, i, i + 1, i + 2}
    for k in sorted(x for x in cuts if 0 <= x < len(c)):
        yield ("truncate@%d" % k, c[:k])
        if exhaustive:
            yield ("behead@%d" % k, c[k:])
    yield ("extra-part", c + BAR + "x")
    yield ("extra-empty-part", c + BAR)
    yield ("leading-part", "x" + BAR + c)
    yield ("leading-empty-part", BAR + c)
    yield ("doubled", c + BAR + c)
    yield ("other-appended", c + BAR + other)
    for j in range(len(parts)):
        yield ("drop-part%d" % j, BAR.join(parts[:j] + parts[j + 1:]))
        yield ("dup-part%d" % j, BAR.join(parts[:j + 1] + parts[j:]))


def do_parse(ctx, U, mode, s, kind, parse_cases, seen, base=None):
    key = (mode.name, s)
    if key in seen:
        return
    seen.add(key)
    out = mode.parse(s)
    rec = {"kind": kind, "mode": mode.name, "cookie": s, "parsed": list(out)}
    if base is not None:
        rec["mutated_from"] = base
    ctx.case_seen(rec, True)
    ctx.count("parse:%s:%s" % (mode.name, out[0]))
    ctx.count("mutation:" + re.sub(r"[@\d].*$", "", kind))
    # ---- oracle: accepted => exactly the content of a cookie this handler issued
    if out[0] == "ok":
        if not any((out[1], out[2], out[3]) == (v, t, ts) for v, t, ts, _ in mode.genuine):
            # the genuine cookie itself may parse to something else than it was made with only outside the
            # round-trip guard (type side); then "genuine content" = what the genuine cookie parses to
            if not any(("ok", out[1], out[2], out[3]) == mode.parse(c) for _, _, _, c in mode.genuine):
                ctx.violation("tamper-accepted",
                              "mode %s: the string %r (%s%s) is accepted with content %r which no cookie issued by this "
                              "handler carries" % (mode.name, s, kind, " of %r" % base if base else "", out[1:]), rec)
    if U.lenient(s):
        ctx.unmodelled += 1
        ctx.count("unmodelled:lenient-base64")
        return
    add_parse_case(U, mode, s, out, parse_cases, rec)



# ---------------------------------------------------------------- several cookies in ONE parse_cookie call
def embeds(out, items, need_must):
    """is `out` the sequence of contributions of a sub-sequence of `items` (in order), every entry being an allowed
    content of the cookie it stands for?  need_must: cookies that must contribute may not be skipped"""
    from functools import lru_cache

    @lru_cache(maxsize=None)
    def f(i, j):
        if i == len(items):
            return j == len(out)
        it = items[i]
        if j < len(out) and out[j] in it["allowed"] and f(i + 1, j + 1):
            return True
        if need_must and it["must"]:
            return False
        return f(i + 1, j)
    return f(0, 0)


def jar_item(role, s, allowed, named=True, must=False, base=None):
    """one cookie dict of a jar plus the generator's ground truth about it"""
    if named is True:
        d = {"name": JAR_NAME, "value": s}
    elif named is None:
        d = {"value": s}
    else:
        d = {"name": named, "value": s}
    return {"dict": d, "role": role, "allowed": frozenset(allowed), "must": bool(must and named is True), "base": base}


def do_jar(ctx, U, mode, items, kind, list_cases, seen):
    """one real parse_cookie call on the whole list; oracle from the property text; model case.
    Oracle: every returned entry is the content of the cookie standing at its position — a cookie this handler
    issued comes back with exactly its (value, type, timestamp), a string it did not issue contributes nothing (or,
    byte-level re-encodings of a genuine cookie, exactly that cookie's content) — whatever else is in the list and
    in whatever order; when the call returns, every genuine cookie of the requested name is in the result."""
    key = (mode.name, tuple((it["dict"].get("name"), it["dict"]["value"]) for it in items))
    if key in seen:
        return
    seen.add(key)
    cookies = [it["dict"] for it in items]
    out = mode.parse_many(cookies)
    rec = {"kind": "jar:" + kind, "mode": mode.name, "name": JAR_NAME, "cookies": cookies,
           "roles": [it["role"] + (" of %r" % it["base"] if it["base"] else "") for it in items],
           "result": list(out)}
    ctx.case_seen(rec, True)
    ctx.count("jar:%s:%s" % (mode.name, out[0]))
    ctx.count("jar-shape:" + re.sub(r"[@\d].*$", "", kind))
    entries = None if out[0] == "raised" else (list(out[1]) if out[0] == "list" else [])
    if entries is None:
        # refusing the whole jar is a rejection; only a jar of genuine cookies of the requested name has to parse
        if items and all(it["must"] for it in items):
            ctx.violation("jar-genuine-lost", "mode %s: parse_cookie(%r, <%d cookies, all issued by this handler>) raised %s"
                          % (mode.name, JAR_NAME, len(items), out[1]), rec)
    else:
        entries = [tuple(e) for e in entries]
        if not embeds(entries, items, False):
            ctx.violation("jar-forged-entry",
                          "mode %s: one parse_cookie call with the cookies %r (%s) returns %r: some entry is not the content "
                          "of the cookie at its position (a string this handler never issued contributed an entry, or a "
                          "genuine cookie came back with other content)"
                          % (mode.name, [c["value"] for c in cookies], ", ".join(rec["roles"]), entries), rec)
        elif not embeds(entries, items, True):
            ctx.violation("jar-genuine-lost",
                          "mode %s: one parse_cookie call with the cookies %r (%s) returns %r without raising: a genuine "
                          "cookie of the requested name is missing from the result"
                          % (mode.name, [c["value"] for c in cookies], ", ".join(rec["roles"]), entries), rec)
    if any(U.lenient(c["value"]) for c in cookies):
        ctx.unmodelled += 1
        ctx.count("unmodelled:jar-lenient-base64")
        return
    used = set()
    cs = []
    dt = {}
    for c in cookies:
        w, u = U.wire(c["value"])
        used |= u
        cs.append("(%s, %s)" % (coq_opt(c.get("name"), coq_str, "pystr"), w))
        parts = c["value"].split(BAR)
        if mode.ek is not None and len(parts) == 4:
            # byte-level facts that decide whether a refused four-part cookie raises or is skipped (standard library)
            for q in parts[1:]:
                try:
                    dt[q] = "(Some %d%%nat)" % len(base64.b64decode(q))
                except Exception:
                    dt[q] = "(@None nat)"
    dtab = coq_list(["(%s, %s)" % (coq_str(q), n) for q, n in dt.items()], "(pystr * option nat)")
    if out[0] == "raised":
        obs = "(@None (option (list content)))"
    elif out[0] == "none":
        obs = "(Some (@None (list content)))"
    else:
        obs = "(Some (Some %s))" % coq_list(["(%s, %s, %s)" % tuple(coq_str(x) for x in e) for e in out[1]], "content")
    list_cases.append(("(%s, tab, %s, %s, %s, %s)" % (mode.coq(), dtab, coq_str(JAR_NAME), coq_list(cs, "cookie"), obs), used, rec))


def jar_stream(ctx, U, modes, forged, rng, list_cases):
    """(5) cookie jars: genuine and forged cookies of the same name mixed in one call, in every order"""
    import itertools
    seen = set()
    for mode in modes:
        issued = {}
        for v, t, ts, c in mode.genuine:
            if c and typ_in_guard(mode, t) and ts.isdigit() and ts.isascii() and c not in issued \
                    and mode.parse(c) == ("ok", v, t, ts):
                issued[c] = (v, t, ts)
        pool = list(issued.items())                   # (cookie string, content)
        if len(pool) < 6:
            ctx.broken.append("mode %s: fewer than six round-tripping genuine cookies for the jar stream" % mode.name)
            continue

        def gen(k):
            c, cont = pool[k % len(pool)]
            return jar_item("genuine", c, {cont}, must=True)

        def gen_avoiding(start, avoid):
            """a genuine cookie whose content is none of `avoid` (what a neighbour might legitimately parse to)"""
            near = pool[:8]        # few distinct neighbours keep the blob tables of the model shards small
            for d in range(len(near)):
                c, cont = near[(start + d) % len(near)]
                if cont not in avoid:
                    return jar_item("genuine", c, {cont}, must=True)
            return gen(start)

        # ---- forged cookies with the generator's ground truth
        fz = []
        nb = 1 if ctx.quick else 12
        bases = [pool[0]] + [pool[i] for i in rng.sample(range(1, len(pool)), min(nb, len(pool) - 1))]
        for bi, (c, cont) in enumerate(bases):
            oc, ocont = pool[(bi * 5 + 2) % len(pool)]
            if oc == c:
                oc, ocont = pool[(bi * 5 + 3) % len(pool)]
            for kind, s2 in mutations(rng, c, oc, exhaustive=False):
                if s2 in issued:
                    continue
                fz.append(jar_item(kind, s2, {cont, ocont}, base=c))
        for name, lst in forged.items():
            for c in lst:
                fz.append(jar_item("attacker-key-cookie:" + name, c, set()))
        for om in modes:
            if om is not mode:
                for g in om.genuine[:4]:
                    if g[3] and g[3] not in issued:
                        fz.append(jar_item("other-handler-cookie:" + om.name, g[3], set()))
        for s2 in ["", BAR, "||", "|||", "17", "17|x", "17|a::b|", "17|a::b|AAAA", "a|b|c|d", "a|b|c|d|e"]:
            fz.append(jar_item("malformed", s2, set()))
        # ---- every forged cookie after / before / between genuine ones
        for fi, f in enumerate(fz):
            a = gen_avoiding(fi, f["allowed"])
            b = gen_avoiding(fi + 1, f["allowed"] | a["allowed"])
            k = re.sub(r"[@\d].*$", "", f["role"])
            do_jar(ctx, U, mode, [a, f], "genuine,forged:" + k, list_cases, seen)
            do_jar(ctx, U, mode, [f, a], "forged,genuine:" + k, list_cases, seen)
            do_jar(ctx, U, mode, [a, f, b], "genuine,forged,genuine:" + k, list_cases, seen)
            if fi % 9 == 0 or not ctx.quick:
                for perm in itertools.permutations([a, f, b]):
                    do_jar(ctx, U, mode, list(perm), "permutation:" + k, list_cases, seen)
                f2 = fz[(fi * 3 + 1) % len(fz)]
                do_jar(ctx, U, mode, [a, f, f2], "genuine,forged,forged:" + k, list_cases, seen)
                do_jar(ctx, U, mode, [a, a, f], "genuine-twice,forged:" + k, list_cases, seen)
                do_jar(ctx, U, mode, [f, f2], "forged,forged:" + k, list_cases, seen)
                do_jar(ctx, U, mode, [f], "forged-alone:" + k, list_cases, seen)
                # the forged cookie's own base right before it
                if f["base"] in issued:
                    do_jar(ctx, U, mode, [jar_item("genuine", f["base"], {issued[f["base"]]}, must=True), f],
                           "base,forged:" + k, list_cases, seen)
                # the same strings under another name / without a name next to genuine ones
                do_jar(ctx, U, mode, [a, jar_item(f["role"], f["dict"]["value"], f["allowed"], named="other", base=f["base"]), b],
                       "genuine,forged-other-name,genuine:" + k, list_cases, seen)
                do_jar(ctx, U, mode, [a, jar_item(f["role"], f["dict"]["value"], f["allowed"], named=None, base=f["base"]), b],
                       "genuine,forged-no-name,genuine:" + k, list_cases, seen)
        # ---- jars of genuine cookies only: all orders, repetitions, other names
        for k in range(4 if ctx.quick else 40):
            trio = [gen(k * 3), gen(k * 3 + 1), gen(k * 3 + 2)]
            for n in (1, 2, 3):
                for perm in itertools.permutations(trio, n):
                    do_jar(ctx, U, mode, list(perm), "genuine-only", list_cases, seen)
            do_jar(ctx, U, mode, [trio[0], trio[0]], "genuine-repeated", list_cases, seen)
            c, cont = pool[k % len(pool)]
            do_jar(ctx, U, mode, [trio[1], jar_item("genuine", c, {cont}, named="other"), trio[2]], "genuine-other-name", list_cases, seen)
            do_jar(ctx, U, mode, [jar_item("genuine", c, {cont}, named=None)], "genuine-no-name", list_cases, seen)
        do_jar(ctx, U, mode, [], "empty", list_cases, seen)
        # ---- random jars
        for _ in range(120 if ctx.quick else 3000):
            items = []
            for _ in range(rng.randint(2, 6)):
                x = rng.random()
                if x < 0.5:
                    it = gen(rng.randrange(len(pool)))
                else:
                    it = rng.choice(fz)
                y = rng.random()
                if y < 0.1:
                    it = jar_item(it["role"], it["dict"]["value"], it["allowed"], named=rng.choice(["other", "N", ""]), base=it["base"])
                elif y < 0.15:
                    it = jar_item(it["role"], it["dict"]["value"], it["allowed"], named=None, base=it["base"])
                items.append(it)
            do_jar(ctx, U, mode, items, "random", list_cases, seen)


# ---------------------------------------------------------------- idpyoidc.client.cookie (relying-party helper)
CLIENT_KEY = 11
CLIENT_SEED = b"rp-seed-0123456789abcdef"
CLIENT_ENC = b"rp-enc-key-0123456789abc"


def client_stream(ctx, U, rng):
    """oracle (and, for the signed-only variant, model) for client.cookie.make_cookie / parse_cookie.
    The unframed MAC is a recorded finding: the fixed witness below raises client-cookie-boundary-shift on
    every run; anything else a client cookie does wrong has its own key."""
    from idpyoidc.client.cookie import make_cookie, parse_cookie
    cases = []
    genuine = {None: [], CLIENT_ENC: []}     # enc_key -> [(load, ts, value string)]

    def make(load, ts, enc):
        hdr = make_cookie("n", load, CLIENT_SEED, timestamp=ts, enc_key=enc)
        val = hdr[1].split(";")[0]
        assert val.startswith("n=")
        return val[2:]

    def parse(val, enc):
        try:
            r = parse_cookie("n", CLIENT_SEED, "n=" + val, enc_key=enc)
        except Exception as e:
            return ("rej", type(e).__name__)
        if r is None:
            return ("rej", "dropped")
        return ("ok", r[0], r[1])

    def issue(load, ts, enc, kind):
        val = make(load, ts, enc)
        rec = {"kind": kind, "client_cookie": True, "encrypted": enc is not None, "load": load, "timestamp": ts, "cookie": val}
        if enc is None:
            sig = hmac.new(CLIENT_SEED, (load + ts).encode("utf-8"), hashlib.sha1).hexdigest()
            if val != load + BAR + ts + BAR + sig:
                ctx.mismatch("client cookie structure: expected %r" % (load + BAR + ts + BAR + sig), rec)
            U.add(sig, t_mac(CLIENT_KEY, t_atom(load + ts)))
        genuine[enc].append((load, ts, val))
        out = parse(val, enc)
        rec["parsed"] = list(out)
        ctx.case_seen(rec, True)
        ctx.count("client:make")
        if out != ("ok", load, ts):
            key = "client-cookie-rt-bar" if (enc is None and BAR in load) else "client-cookie-rt-other"
            ctx.violation(key, "client.cookie: make_cookie(load=%r, timestamp=%r, enc_key=%s) -> %r parses back to %r"
                          % (load, ts, "set" if enc else "None", val, out), rec)
        if enc is None:
            add_client_case(val, out, rec)
        return val

    def add_client_case(val, out, rec):
        if U.lenient(val):
            return
        w, used = U.wire(val)
        obs = "(Some (%s, %s))" % (coq_str(out[1]), coq_str(out[2])) if out[0] == "ok" else "(@None (pystr * pystr))"
        cases.append(("(%d%%nat, tab, %s, %s)" % (CLIENT_KEY, w, obs), used, rec))

    def judge(val, enc, kind, base):
        out = parse(val, enc)
        rec = {"kind": kind, "client_cookie": True, "encrypted": enc is not None, "cookie": val, "parsed": list(out), "mutated_from": base}
        ctx.case_seen(rec, True)
        ctx.count("client:parse:" + out[0])
        if out[0] == "ok" and not any((out[1], out[2]) == (l, t) for l, t, _ in genuine[enc]):
            shifted = any(out[1] + out[2] == l + t for l, t, _ in genuine[enc])
            ctx.violation("client-cookie-boundary-shift" if shifted else "client-cookie-tamper-accepted",
                          "client.cookie (%s): %r (%s of %r) is accepted as (load=%r, timestamp=%r), which the relying "
                          "party never issued" % ("AES-GCM" if enc else "signed-only", val, kind, base, out[1], out[2]), rec)
        if enc is None:
            add_client_case(val, out, rec)

    # the recorded finding, deterministically
    w = issue("value::sso", "1700000000", None, "client-fixed-witness")
    judge(w.replace("value::sso|1700000000", "value::sso1|700000000"), None, "ts-head-to-load-1", w)
    safe = "abcXYZ019:._-"
    seen_all = set()
    for enc in (None, CLIENT_ENC):
        issue("other", "1700000001", enc, "client-fixed")
        for _ in range(6 if ctx.quick else 60):
            load = "".join(rng.choice(safe) for _ in range(rng.randint(1, 10)))
            issue(load, str(rng.randint(10 ** 9, 2 * 10 ** 9)), enc, "client-random")
        gl = genuine[enc]
        seen = set()
        for i, (load, ts, val) in enumerate(gl[:5 if ctx.quick else 30]):
            other = gl[(i + 1) % len(gl)][2]
            for kind, s2 in mutations(rng, val, other, exhaustive=False):
                if s2 != val and s2 not in seen and not any(s2 == g[2] for g in gl):
                    seen.add(s2)
                    judge(s2, enc, kind, val)
    # loads a decoding layer would rewrite; loads and re-encoded strings stay inside the characters http.cookies
    # passes through literally (its quoted-string layer is the transport, not the cookie format under test)
    legal = set("abcdefghijklmnopqrstuvwxyzABCDEFGHIJKLMNOPQRSTUVWXYZ0123456789!#$%&'*+-.^_`|~:")
    for i, load in enumerate(["next%2Fhome&x%20b", "100%7Csure", "%3A%3A", "15%25", "%", "%zz", "a+b", "+", "&#124", "AbC", "q'q'"]):
        for enc in (None, CLIENT_ENC):
            issue(load, str(1700000100 + i), enc, "client-canon")
    for enc in (None, CLIENT_ENC):
        for load, ts, val in [g for g in genuine[enc] if "%" in g[0] or "+" in g[0]][:4]:
            for kind, s2 in reencodings(val):
                if s2 != val and s2 not in seen_all and set(s2) <= legal and not any(s2 == g[2] for g in genuine[enc]):
                    seen_all.add(s2)
                    judge(s2, enc, kind, val)
    # a separator inside the load (signed-only: four parts are taken for the AES-GCM variant)
    issue("a|b", "17", None, "client-bar-in-load")
    issue("a|b", "17", CLIENT_ENC, "client-bar-in-load")
    return cases


def rsplit_cases(rng, n):
    out = []
    for _ in range(n):
        s = "".join(rng.choice(["a", "b", ":", ":", "::", ":::", "|", " ", "å"]) for _ in range(rng.randint(0, 7)))
        p = s.rsplit("::", 1)
        obs = "(Some (%s, %s))" % (coq_str(p[0]), coq_str(p[1])) if len(p) == 2 else "(@None (pystr * pystr))"
        out.append(("(%s, %s)" % (coq_str(s), obs), {"rsplit": s}))
    return out


def provider_cookies(ctx, U, modes_by_keys, rng, make_cases, parse_cases):
    """EndpointContext.new_cookie of real providers (value = json.dumps(kwargs), typ = ''), request-controlled
    `state` inside; parsed back with the provider's own handler."""
    import srv
    from idpyoidc.server.cookie_handler import CookieHandler
    from cryptojwt.jwk.hmac import SYMKey
    confs = [("S", {"sign_key": SYMKey(key=KEYS[1])}), ("SE", {"sign_key": SYMKey(key=KEYS[2]), "enc_key": SYMKey(key=KEYS[3])})]
    clock = srv.Clock(1_700_000_123).install()
    try:
        for name, kw in confs:
            server = srv.make_server(extra={"cookie_handler": {"class": CookieHandler, "kwargs": dict(
                kw, name={"session": "oidc_op", "register": "oidc_op_reg", "session_management": "oidc_op_sman"})}})
            mode = modes_by_keys[name]
            ectx = server.context
            for state in ["plain", "a|b", "x::y", "ends:", "|", "::", "å|€::", "{\"k\": \"v|w\"}", rvalue(rng), rvalue(rng),
                          "https://rp.example.org/cb?next=%2Fhome&x=a%20b", "100%7Csure|really::yes", "a+b c%2Bd", "50%",
                          "&#124;\\174 \uff5c", rcanon(rng), rcanon(rng)]:
                sid = "SID|" + rvalue(rng, 5)
                info = ectx.new_cookie(name="oidc_op", sid=sid, state=state)
                c = info["value"]
                v = json.dumps({"sid": sid, "state": state})
                want = ("ok", v, "", str(clock.now))
                try:
                    r = ectx.cookie_handler.parse_cookie("oidc_op", [{"name": "oidc_op", "value": c}])
                    got = ("ok", r[0]["value"], r[0]["type"], r[0]["timestamp"]) if r else ("rej", "dropped")
                except Exception as e:
                    got = ("rej", type(e).__name__)
                rec = {"kind": "provider-new_cookie", "mode": name, "sid": sid, "state": state, "cookie": c, "parsed": list(got)}
                ctx.case_seen(rec, True)
                ctx.count("provider:" + name)
                if got != want:
                    ctx.violation(classify_rt(mode, v, ""), "provider (%s handler): new_cookie(sid=%r, state=%r) -> %r parses "
                                  "back to %r" % (name, sid, state, c, got), rec)
                # the same cookie against the model (the provider's handler has the keys of `mode`)
                rr, problem = mode.dissect(U, c, v + "::", str(clock.now))
                if problem:
                    ctx.mismatch("provider cookie structure: " + problem, rec)
                    continue
                _, used = U.wire(c)
                make_cases.append(("(%s, %s, %s, %s, %s, %s, tab, %s)" % (mode.coq(), coq_str(v), coq_str(""), coq_str(""),
                                    coq_z(clock.now), coq_str(rr), coq_str(c)), used, rec))
                mode.genuine.append((v, "", str(clock.now), c))
                add_parse_case(U, mode, c, mode.parse(c), parse_cases, rec)
            clock.tick(7)
    finally:
        clock.uninstall()


def run(ctx):
    import logging
    logging.getLogger("idpyoidc").setLevel(logging.CRITICAL)
    import srv
    import time
    t0 = time.time()
    rng = ctx.rng
    U = Universe()
    modes = [Mode("S", 1, None, None), Mode("SE", 2, 3, None), Mode("E", None, 4, None), Mode("C", None, None, 5)]
    attackers = [Mode("S", 7, None, None), Mode("SE", 7, 8, None), Mode("E", None, 8, None), Mode("C", None, None, 9)]
    make_cases, parse_cases = [], []
    seen = set()
    clock = srv.Clock(1_700_000_000).install()
    try:
        # ---- (1) round trips
        fixed = [("val", "sso", 1700000000), ("a|b", "sso", "1700000001"), ("a", "s|o", 17), ("a::b", "sso", "17"),
                 ("a:", "b", "18"), ("a:", "", "19"), ("::", "", 20), ("|", "", 21), ("", "x", 22), ("x", "", 23),
                 ("{\"sid\": \"Z0FBQUFB|x::y:\", \"state\": \"|::|\"}", "", 24), ("åäö€ λ", "å", 25), ("a b ", "", 26),
                 ("a", "a:", 27), ("", "", 28), ("tail ", "", 29), ("clock", "sso", 0), ("clock2", "", "")]
        hostile = [("a", ":b", "30"), ("a:", ":b", "31"), ("a", "x::y", "32"), ("a", "b ", "33"), ("a", "   ", "34"),
                   ("a", "b", "1|7"), ("a", "b", "3 5"), ("a", "::", "36"), ("a", ":", "37"), ("a", "b", "å7")]
        nrand = 25 if ctx.quick else 600
        for mode in modes:
            for v, t, ts in fixed:
                do_make(ctx, U, mode, v, t, ts, clock.now, make_cases, parse_cases, "roundtrip-fixed")
                clock.tick(1)
            for v, t, ts in hostile:
                do_make(ctx, U, mode, v, t, ts, clock.now, make_cases, parse_cases, "roundtrip-hostile-type-or-timestamp")
            for _ in range(nrand):
                v = rvalue(rng)
                t = rng.choice(TYPES_OK)
                ts = rng.choice([rng.randint(1, 2 * 10 ** 9), str(rng.randint(0, 10 ** 10)), "0" + str(rng.randint(0, 99)), 0, ""])
                do_make(ctx, U, mode, v, t, ts, clock.now, make_cases, parse_cases, "roundtrip-random")
                clock.tick(rng.randint(0, 3))
            for _ in range(nrand // 3):
                do_make(ctx, U, mode, rvalue(rng, 6), rng.choice(TYPES_HOSTILE), str(rng.randint(1, 99)), clock.now,
                        make_cases, parse_cases, "roundtrip-random-hostile-type")
            canon_roundtrips(ctx, U, mode, rng, clock, make_cases, parse_cases)
        # values that spell an issued blob: a MAC / ciphertext text inside the payload
        for mode in modes:
            blob_texts = list(U.by_text)[:6]
            for bt in blob_texts[:3]:
                do_make(ctx, U, mode, "x" + BAR + bt, "sso", "40", clock.now, make_cases, parse_cases, "roundtrip-blob-text-in-value")
                do_make(ctx, U, mode, bt, "", "41", clock.now, make_cases, parse_cases, "roundtrip-blob-text-is-value")
        # ---- attacker-key cookies (never genuine for the real handlers)
        forged = {}
        for am, mode in zip(attackers, modes):
            forged[mode.name] = []
            for v, t, ts in [("val", "sso", "1700000000"), ("admin", "", "17"), ("a|b::c", "sso", "18")]:
                c = am.make(v, t, ts)
                r, problem = am.dissect(U, c, v + "::" + t, ts)
                if problem:
                    ctx.mismatch("attacker cookie structure: " + problem, {"cookie": c})
                forged[mode.name].append(c)
    finally:
        clock.uninstall()
    # ---- (3) providers
    provider_cookies(ctx, U, {m.name: m for m in modes}, rng, make_cases, parse_cases)
    # ---- (2) structural mutations
    nbase = 6 if ctx.quick else 60
    for mode in modes:
        gen = [g for g in mode.genuine if g[3]]
        if len(gen) < 2:
            ctx.broken.append("mode %s: the handler issued fewer than two cookies" % mode.name)
            continue
        # base cookies: prefer ones with separators inside the payload and ordinary ones
        bases = gen[:4] + rng.sample(gen[4:], min(nbase, max(0, len(gen) - 4)))
        for bi, (v, t, ts, c) in enumerate(bases):
            other = gen[(bi * 7 + 3) % len(gen)][3]
            if other == c:
                other = gen[(bi * 7 + 4) % len(gen)][3]
            for kind, s in mutations(rng, c, other, exhaustive=bi < 3):
                if s != c:
                    do_parse(ctx, U, mode, s, kind, parse_cases, seen, base=c)
        # re-encodings: of the bases, and of genuine cookies whose content carries escapes / plus signs / white space
        issued = {g[3] for g in gen}
        esc = [g for g in gen if re.search(r"%[0-9A-Fa-f]{2}|\+|&#|\\[01]", g[0] + g[1])]
        for v, t, ts, c in bases[:6] + esc[:4] + rng.sample(esc[4:], min(nbase, max(0, len(esc) - 4))):
            for kind, s in reencodings(c):
                if s != c and s not in issued:
                    do_parse(ctx, U, mode, s, kind, parse_cases, seen, base=c)
        # cookies of the other handlers and of the attackers
        for om in modes:
            if om is not mode:
                for g in om.genuine[:6]:
                    do_parse(ctx, U, mode, g[3], "other-handler-cookie:" + om.name, parse_cases, seen)
        for name, lst in forged.items():
            for c in lst:
                do_parse(ctx, U, mode, c, "attacker-key-cookie:" + name, parse_cases, seen)
                # attacker parts mixed with genuine parts
                gp = gen[0][3].split(BAR)
                ap = c.split(BAR)
                for j in range(len(gp)):
                    for k in range(len(ap)):
                        q = list(gp)
                        q[j] = ap[k]
                        do_parse(ctx, U, mode, BAR.join(q), "genuine-part%d<-attacker%d" % (j, k), parse_cases, seen, base=gen[0][3])
        for s in ["", BAR, "||", "|||", "||||", "17", "17|x", "17|a::b|", "17|a::b|AAAA", "a|b|c|d", "a|b|c|d|e"]:
            do_parse(ctx, U, mode, s, "malformed", parse_cases, seen)
    # ---- (5) several cookies of the same name in one call
    list_cases = []
    import random
    jrng = random.Random()
    jrng.setstate(rng.getstate())     # a deterministic fork: the streams after this one stay what they were
    jar_stream(ctx, U, modes, forged, jrng, list_cases)
    ccases = client_stream(ctx, U, rng)
    t1 = time.time()
    # ---- model
    cl = eval_shards(ctx, "client", "client_case", ccases, ["chk_client"], U)
    for name, j, case in cl["chk_client"][:10]:
        ctx.mismatch("client.cookie.parse_cookie: model and implementation disagree (%s[%d])" % (name, j), case[2],
                     model=diag(ctx, U, "client_model", case, name) if len(ctx.mismatches) < 3 else None)
    mk = eval_shards(ctx, "make", "make_case", make_cases, ["chk_make"], U)
    for name, j, case in mk["chk_make"][:20]:
        ctx.mismatch("make_cookie_content: model text differs from the real cookie (%s[%d])" % (name, j), case[2],
                     model=diag(ctx, U, "make_model", case, name) if len(ctx.mismatches) < 3 else None)
    pr = eval_shards(ctx, "parse", "parse_case", parse_cases, ["chk_parse", "is_modelled"], U)
    for name, j, case in pr["chk_parse"][:20]:
        ctx.mismatch("parse_cookie: model and implementation disagree (%s[%d])" % (name, j), case[2],
                     model=diag(ctx, U, "parse_model", case, name) if len(ctx.mismatches) < 3 else None)
    if len(pr["chk_parse"]) > 20:
        ctx.mismatch("... and %d more parse disagreements" % (len(pr["chk_parse"]) - 20), {})
    ctx.unmodelled += len(pr["is_modelled"])
    ctx.count("unmodelled:blob-mixed-with-characters", len(pr["is_modelled"]))
    lr = eval_shards(ctx, "jar", "list_case", list_cases, ["chk_list", "list_is_modelled"], U)
    for name, j, case in lr["chk_list"][:20]:
        ctx.mismatch("parse_cookie on a list of cookies: model and implementation disagree (%s[%d])" % (name, j), case[2],
                     model=diag(ctx, U, "list_model", case, name) if len(ctx.mismatches) < 3 else None)
    if len(lr["chk_list"]) > 20:
        ctx.mismatch("... and %d more disagreements on lists of cookies" % (len(lr["chk_list"]) - 20), {})
    ctx.unmodelled += len(lr["list_is_modelled"])
    ctx.count("unmodelled:jar-blob-mixed-with-characters", len(lr["list_is_modelled"]))
    rs = rsplit_cases(rng, 300 if ctx.quick else 5000)
    for _, rec in rs:
        ctx.case_seen(rec, True)
    ctx.coq_check_cases(IMPORTS, "pystr * option (pystr * pystr)", "chk_rsplit", rs, shard=400, label="rsplit")
    ctx.notes.append("driver phases: implementation+oracle %.1fs, model evaluation %.1fs" % (t1 - t0, time.time() - t1))


def replay(ctx, rp):
    case = rp.get("case") or {}
    if "cookies" in case and "mode" in case:
        names = {"S": (1, None, None), "SE": (2, 3, None), "E": (None, 4, None), "C": (None, None, 5)}
        mode = Mode(case["mode"], *names[case["mode"]])
        ctx.notes.append("replayed parse_cookie(%r, %r) on mode %s: %r (recorded %r)"
                         % (JAR_NAME, case["cookies"], case["mode"], mode.parse_many(case["cookies"]), case.get("result")))
    if "cookie" in case and "mode" in case:
        names = {"S": (1, None, None), "SE": (2, 3, None), "E": (None, 4, None), "C": (None, None, 5)}
        mode = Mode(case["mode"], *names[case["mode"]])
        out = mode.parse(case["cookie"])
        ctx.notes.append("replayed parse of %r on mode %s: %r (recorded %r)" % (case["cookie"], case["mode"], out, case.get("parsed")))
        if "value" in case:
            c = mode.make(case["value"], case["type"], case["timestamp"])
            ctx.notes.append("replayed make -> parse: %r" % (mode.parse(c),))
    ctx.notes.append("replay re-runs the generator with the recorded seed")
    ctx.rng.seed(rp.get("seed", ctx.seed))
    run(ctx)
