"""C18 driver — subject identifiers: consistent across the four release points, stable, typed, opaque."""
import ast
import copy
import base64
import hashlib
import inspect
import json
from urllib.parse import urlparse

import itertools

import sess
import srv
import c18_minters as cm
import c18_salts as cs
from engine import coq_str, coq_list, coq_opt

RULE = ("providers with 3 clients whose registrations draw subject_type from {absent, public, pairwise, ephemeral}, sector_id / "
        "sector_identifier_uri from {absent, two hosts, host with port/userinfo/upper case}, opaque and JWT access tokens, OIDC; login "
        "sequences of 3 users at the 3 clients (two logins per pair); for every grant the sub is read from the ID Token, userinfo, "
        "introspection and (JWT) access token; a case is one grant; non-trivial when all release points answered. "
        "CONFIGURED SUBJECT MINTERS: providers whose session_params.sub_func names minters for one, two or three subject types in every "
        "order of the dict (library classes PublicID / PairWiseID by dotted name and as class objects, salt given or read from a file; the "
        "library's functions; plain functions by dotted name and as objects, with their own salt or using the session salt; skipped "
        "entries and keys no client uses), the same login sequences and release points; plus the provider's sub_func table itself, probed "
        "key by key on providers with arbitrary (also cross-plugged) entries. "
        "LIFE OF A DEPLOYMENT: for every way a salt reaches the minters (PublicID / PairWiseID with a given salt; with a salt file that "
        "exists - plain, trailing newline / CRLF, blanks, empty, CR inside, several lines, non-ASCII, BOM, written by another process; "
        "with a salt file that does not exist at first start; one file shared by two entries; salt and file both given; the session "
        "salt through the library's functions; nothing configured; session state handed over by dump / load; a directory in place of "
        "the file) three provider instances are built one after another from the same configuration; the same users log in at the "
        "same clients at every instance (all release points), the files are looked at before and after every start-up. "
        "WHAT A REQUEST SAYS: on providers with built-in minters (opaque / JWT access tokens), the documented PublicID / PairWiseID "
        "configuration and a drawn configuration, with public / pairwise / ephemeral clients registered with sector_id, "
        "sector_identifier_uri, no sector (redirect host) and a sector without a host: after plain logins of every user at every client "
        "(the reference subs), logins whose requests carry EXTENSION parameters named like registration metadata or like inputs of the "
        "subject computation (sector_identifier_uri / sector_id / sector_identifier with the registered value, its host, the sector "
        "and sector host of each other registered client, an attacker's URL and host, empty; subject_type / sub_type; redirect_uris; "
        "client_salt / salt (registered, other, empty); sub (own, another client's, another user's, chosen); sub_func; user_id / uid / "
        "user; client_id of another client; claims.id_token|userinfo.sub.value|values matching and not matching), one at a time - every "
        "parameter x value x place exhaustively at one pairwise client, sampled with every name and place covered at the others - and "
        "several at once, delivered on the front channel, in a signed request object, as a pushed request, with the session cookie of an "
        "earlier login, twice in one query string, in the code redemption and in the refresh request; the sub is read at the grant, "
        "ID Token, userinfo, introspection and (JWT) access token, before and after a refresh.")
ASSUMPTIONS = ["SHA-256 is collision free (hypothesis H_inj of the pairwise theorem)", "urlparse(..).hostname is an environment function; "
               "its values are taken from urllib for the sector sources that occur", "uuid4 values are fresh",
               "request content: the reference sub of (user, client) is the sub of a plain login at the same provider; a client "
               "registration whose sector has NO host for urlparse (bare host name, URN) has the empty sector (its pairwise sub equals "
               "the sector-less hash) - the request is judged irrelevant there as everywhere else"]

SECTORS = [None, "https://sector-a.example.org/uris.json", "https://sector-b.example.org/uris.json",
           "https://SECTOR-A.example.org:8443/x", "https://user@sector-b.example.org/y"]
TYPES = [None, "public", "pairwise", "ephemeral"]


def jwt_payload(tok):
    return json.loads(base64.urlsafe_b64decode(tok.split(".")[1] + "=="))


def host(x):
    return urlparse(x).hostname or ""


def source_tie(ctx):
    """all four release points publish grant.sub (static check on the current source)"""
    import idpyoidc.server.token.id_token as m1
    import idpyoidc.server.oidc.userinfo as m2
    import idpyoidc.server.session.grant as m3
    import idpyoidc.server.oauth2.introspection as m4
    sites = [(m1.IDToken.payload, "IDToken.payload"), (m2.UserInfo.process_request, "UserInfo.process_request"),
             (m3.Grant.payload_arguments, "Grant.payload_arguments"), (m4.Introspection._introspect, "Introspection._introspect")]
    for fn, name in sites:
        src = inspect.getsource(fn)
        tree = ast.parse("class _X:\n" + src if src.startswith("    ") else src)
        reads = [n for n in ast.walk(tree) if isinstance(n, ast.Attribute) and n.attr == "sub"]
        if not reads:
            ctx.broken.append("source tie: %s no longer reads <grant>.sub" % name)


def model_case(reg, u, redirect, sub, salt):
    """the registration record as stored, the hash and host tables the model needs, and the sub the grant got"""
    if not isinstance(salt, str):
        salt = "{}".format(salt)        # an unpinned salt is bytes; the sub functions format it into the text they hash
    st = reg.get("subject_type") or "public"
    srcs = [x for x in (reg.get("sector_id"), reg.get("sector_identifier_uri"), redirect) if x]
    hosts = [(x, host(x)) for x in srcs]
    pre = [u + salt] + [u + h + salt for _, h in hosts]
    ht = [(x, hashlib.sha256(x.encode()).hexdigest()) for x in pre]
    return "(%s, %s, mkCreg %s %s %s, %s, %s, %s, %s)" % (
        coq_list(["(%s, %s)" % (coq_str(a), coq_str(b)) for a, b in ht], "(pystr * pystr)"),
        coq_list(["(%s, %s)" % (coq_str(a), coq_str(b)) for a, b in hosts], "(pystr * pystr)"),
        coq_opt(reg.get("subject_type"), coq_str, "pystr"), coq_opt(reg.get("sector_id"), coq_str, "pystr"),
        coq_opt(reg.get("sector_identifier_uri"), coq_str, "pystr"),
        coq_str(redirect), coq_str(u), coq_str(salt),
        "None" if st == "ephemeral" else "(Some %s)" % coq_str(sub))


SECTOR_DOCS = {"https://sector.alpha.example/rps.json": ["https://app1.alpha.example/cb", "https://app2.alpha.example/cb"],
               "https://sector.beta.example:8443/rps.json": ["https://app.beta.example/cb"]}
DYN_CLIENTS = [("a1", "https://app1.alpha.example/cb", "https://sector.alpha.example/rps.json", "pairwise"),
               ("a2", "https://app2.alpha.example/cb", "https://sector.alpha.example/rps.json", "pairwise"),
               ("b", "https://app.beta.example/cb", "https://sector.beta.example:8443/rps.json", "pairwise"),
               ("solo", "https://solo.gamma.example/cb", None, "pairwise"),
               ("pub", "https://pub.delta.example/cb", None, "public")]


def dynamic_registration(ctx, cases):
    """clients that registered themselves at the registration endpoint (sector_identifier_uri fetched over a mocked
    HTTP layer); the ground truth for the sector is what the client ASKED for, not what the provider stored"""
    import responses
    rs = sess.RealSession(oidc=True, jwt_access=False)
    try:
        salt = rs.sm.get_salt()
        ep = rs.server.get_endpoint("registration")
        cid = {}
        with responses.RequestsMock(assert_all_requests_are_fired=False) as rsps:
            for uri, doc in SECTOR_DOCS.items():
                rsps.add("GET", uri, body=json.dumps(doc), status=200, content_type="application/json")
            for name, ru, sector, st in DYN_CLIENTS:
                req = {"redirect_uris": [ru], "subject_type": st, "response_types": ["code"], "application_type": "web",
                       "token_endpoint_auth_method": "client_secret_post", "grant_types": ["authorization_code"]}
                if sector:
                    req["sector_identifier_uri"] = sector
                try:
                    p = ep.parse_request(json.dumps(req))
                    r = ep.process_request(p)
                    ra = r.get("response_args", r)
                    cid[name] = ra["client_id"]
                except Exception as e:
                    ctx.notes.append("dynamic registration of %s failed: %r" % (name, e))
        subs = {}
        for u in sess.USERS[:2]:
            for name, ru, sector, st in DYN_CLIENTS:
                if name not in cid:
                    continue
                o = rs.op_authz(u, cid[name], ["openid"], extra={"redirect_uri": ru})
                if o[0] != "ok" or not o[1]:
                    ctx.notes.append("authorization at dynamically registered %s failed: %r" % (name, o))
                    continue
                g = rs.grants[rs.tok_grant[o[1][0]]][1]
                subs[(u, name)] = g.sub
                rec = {"dynamic": True, "user": u, "client": name, "subject_type": st, "asked_sector": sector, "redirect": ru, "sub": g.sub}
                ctx.case_seen(rec, True)
                ctx.count("dynamic:%s" % st)
                cases.append((model_case(rs.ctx.cdb[cid[name]], u, ru, g.sub, salt), rec))
                if u in g.sub:
                    ctx.violation("uid-in-clear", "sub %r contains the user id %r" % (g.sub, u), rec)
        # ---- the stored registration is what Model/Sub.v registered_record says it is
        regs = []
        for name, ru, sector, st in DYN_CLIENTS:
            if name in cid:
                reg = rs.ctx.cdb[cid[name]]
                regs.append(("(%s, %s, mkCreg %s %s %s)" % (
                    coq_opt(st, coq_str, "pystr"), coq_opt(sector, coq_str, "pystr"),
                    coq_opt(reg.get("subject_type"), coq_str, "pystr"), coq_opt(reg.get("sector_id"), coq_str, "pystr"),
                    coq_opt(reg.get("sector_identifier_uri"), coq_str, "pystr")),
                    {"dynamic": True, "client": name, "asked": [st, sector],
                     "stored": [reg.get("subject_type"), reg.get("sector_id"), reg.get("sector_identifier_uri")]}))
        ctx.coq_check_cases(["Lib.Base", "Lib.PyStr", "Model.Sub"], "option pystr * option pystr * creg", "chk_registered", regs, label="registered")
        truth = {name: (st, host(sector or ru)) for name, ru, sector, st in DYN_CLIENTS}
        for u in sess.USERS[:2]:
            for a in truth:
                for b in truth:
                    if a >= b or (u, a) not in subs or (u, b) not in subs:
                        continue
                    (ta, sa), (tb, sb) = truth[a], truth[b]
                    rec = {"dynamic": True, "user": u, "clients": [a, b], "types": [ta, tb], "sectors": [sa, sb], "subs": [subs[(u, a)], subs[(u, b)]]}
                    if ta == tb == "pairwise" and sa == sb and subs[(u, a)] != subs[(u, b)]:
                        ctx.violation("pairwise-same-sector-differs", "pairwise subs differ within sector %s (dynamic registration)" % sa, rec)
                    if ta == tb == "pairwise" and sa != sb and subs[(u, a)] == subs[(u, b)]:
                        ctx.violation("pairwise-sectors-equal", "pairwise subs equal across sectors %s / %s (dynamic registration)" % (sa, sb), rec)
                    if {ta, tb} == {"pairwise", "public"} and subs[(u, a)] == subs[(u, b)]:
                        ctx.violation("pairwise-equals-public", "the pairwise sub of %s at %s equals the public sub" % (u, a if ta == "pairwise" else b), rec)
        us = sess.USERS[:2]
        for name in truth:
            if (us[0], name) in subs and (us[1], name) in subs and subs[(us[0], name)] == subs[(us[1], name)]:
                ctx.violation("users-share-sub", "users %s and %s share a sub at %s" % (us[0], us[1], name), {"client": name})
    finally:
        rs.close()


def handover(ctx, cases):
    """the session state moves to another provider instance built from the same configuration (dump / load of the
    session manager): a known user logging in again there gets the sub it had (public / pairwise)"""
    over = {"client_1": {"subject_type": "pairwise", "sector_identifier_uri": SECTORS[1]},
            "client_2": {"subject_type": "public"},
            "client_12": {"subject_type": "pairwise", "sector_id": SECTORS[2]}}
    # no session salt / password pinned in the configuration (the default): the instances draw their own and the
    # dumped state carries the first one's
    old_mk = srv.make_server

    def mk(*a, **k):
        k.setdefault("pinned", False)
        return old_mk(*a, **k)
    srv.make_server = mk
    try:
        rs1 = sess.RealSession(oidc=True, jwt_access=False, client_over=copy.deepcopy(over))
    finally:
        srv.make_server = old_mk
    rs2 = rs3 = None
    try:
        before = {}
        for u in sess.USERS[:2]:
            for c in sess.CLIENTS:
                o = rs1.op_authz(u, c, ["openid"])
                if o[0] == "ok" and o[1]:
                    before[(u, c)] = rs1.grants[rs1.tok_grant[o[1][0]]][1].sub
        state = rs1.sm.dump()
        srv.make_server = mk
        try:
            rs2 = sess.RealSession(oidc=True, jwt_access=False, client_over=copy.deepcopy(over))
        finally:
            srv.make_server = old_mk
        rs2.sm.load(copy.deepcopy(state))
        salt2 = rs2.sm.get_salt()
        for (u, c), sub1 in before.items():
            o = rs2.op_authz(u, c, ["openid"])
            if o[0] != "ok" or not o[1]:
                ctx.notes.append("handover: login on the second instance failed %r" % (o,))
                continue
            g = rs2.find_grant_of_code(o[1][0]) if hasattr(rs2, "find_grant_of_code") else rs2.grants[rs2.tok_grant[o[1][0]]][1]
            st = rs2.ctx.cdb[c].get("subject_type") or "public"
            rec = {"handover": True, "user": u, "client": c, "subject_type": st, "sub_before": sub1, "sub_after": g.sub}
            ctx.case_seen(rec, True)
            ctx.count("handover:%s" % st)
            if st != "ephemeral" and g.sub != sub1:
                ctx.violation("unstable", "after the session state moved to another instance user %s at %s (%s) got another sub" % (u, c, st), rec)
            cases.append((model_case(rs2.ctx.cdb[c], u, "https://%s.example.com/cb" % c, g.sub, salt2), rec))
        # ---- and on to a third instance (the second one's state, which now holds both its own grants and the first one's)
        state2 = rs2.sm.dump()
        srv.make_server = mk
        try:
            rs3 = sess.RealSession(oidc=True, jwt_access=False, client_over=copy.deepcopy(over))
        finally:
            srv.make_server = old_mk
        rs3.sm.load(copy.deepcopy(state2))
        salt3 = rs3.sm.get_salt()
        for (u, c), sub1 in before.items():
            o = rs3.op_authz(u, c, ["openid"])
            if o[0] != "ok" or not o[1]:
                ctx.notes.append("handover: login on the third instance failed %r" % (o,))
                continue
            g = rs3.grants[rs3.tok_grant[o[1][0]]][1]
            st = rs3.ctx.cdb[c].get("subject_type") or "public"
            rec = {"handover": "third instance", "user": u, "client": c, "subject_type": st, "sub_before": sub1, "sub_after": g.sub}
            ctx.case_seen(rec, True)
            ctx.count("handover-3:%s" % st)
            if st != "ephemeral" and g.sub != sub1:
                ctx.violation("unstable", "after the session state moved on to a third instance user %s at %s (%s) got another sub" % (u, c, st), rec)
            cases.append((model_case(rs3.ctx.cdb[c], u, "https://%s.example.com/cb" % c, g.sub, salt3), rec))
    finally:
        rs1.close()
        if rs2 is not None:
            rs2.close()
        if rs3 is not None:
            rs3.close()


def other_providers(ctx, cases):
    """another provider in the same process, configured with its own subject functions (session_params.sub_func:
    PublicID / PairWiseID with their own salt), does not change the subs a provider hands out - neither of one that
    already runs nor of one created afterwards"""
    over = {"client_1": {"subject_type": "pairwise", "sector_identifier_uri": SECTORS[1]}, "client_2": {"subject_type": "public"}}
    old_mk = srv.make_server

    def mk_tenant(*a, **k):
        k = dict(k)
        extra = dict(k.get("extra") or {})
        cc = srv.crypt_config()
        extra["session_params"] = {"encrypter": cc, "sub_func": {
            "public": {"class": "idpyoidc.server.session.manager.PublicID", "kwargs": {"salt": "tenant-salt-public"}},
            "pairwise": {"class": "idpyoidc.server.session.manager.PairWiseID", "kwargs": {"salt": "tenant-salt-pairwise"}}}}
        k["extra"] = extra
        return old_mk(*a, **k)
    plain = sess.RealSession(oidc=True, client_over=copy.deepcopy(over))
    tenant = late = None
    try:
        def subs_of(rs, tag):
            out = {}
            for u in sess.USERS[:2]:
                for c in ("client_1", "client_2"):
                    o = rs.op_authz(u, c, ["openid"])
                    if o[0] == "ok" and o[1]:
                        out[(u, c)] = rs.grants[rs.tok_grant[o[1][0]]][1].sub
                        rec = {"other_provider": tag, "user": u, "client": c, "sub": out[(u, c)]}
                        ctx.case_seen(rec, True)
                        cases.append((model_case(rs.ctx.cdb[c], u, "https://%s.example.com/cb" % c, out[(u, c)], rs.sm.get_salt()), rec))
            return out
        before = subs_of(plain, "plain-before")
        srv.make_server = mk_tenant
        try:
            tenant = sess.RealSession(oidc=True, client_over=copy.deepcopy(over))
        finally:
            srv.make_server = old_mk
        tsubs = {}
        for u in sess.USERS[:2]:
            o = tenant.op_authz(u, "client_2", ["openid"])
            if o[0] == "ok" and o[1]:
                tsubs[u] = tenant.grants[tenant.tok_grant[o[1][0]]][1].sub
        after = subs_of(plain, "plain-after")
        late = sess.RealSession(oidc=True, client_over=copy.deepcopy(over))
        lsubs = subs_of(late, "late")
        ctx.count("other-providers:logins", len(before) + len(after) + len(lsubs))
        for k, v in before.items():
            if after.get(k) != v:
                ctx.violation("unstable", "the sub of %s at %s changed after another provider with its own subject functions was created in the process" % k,
                              {"user": k[0], "client": k[1], "before": v, "after": after.get(k)})
        for u, ts in tsubs.items():
            if lsubs.get((u, "client_2")) == ts and before.get((u, "client_2")) != ts:
                ctx.violation("unstable", "a provider created later hands out the subs of the differently configured provider (%s)" % u, {"user": u})
    finally:
        for r in (plain, tenant, late):
            if r is not None:
                r.close()


def configured_session(spec, cls=None, **kw):
    """a RealSession whose provider is configured with session_params.sub_func = the dict `spec` describes (None: key absent)"""
    cls = cls or sess.RealSession
    if spec is None:
        return cls(**kw)
    old_mk = srv.make_server

    def mk(*a, **k):
        k["sub_func"] = {key: cm.conf_entry(e) for key, e in spec}
        return old_mk(*a, **k)
    srv.make_server = mk
    try:
        return cls(**kw)
    finally:
        srv.make_server = old_mk


def model_case_conf(spec, reg, u, redirect, sub, salt):
    """as model_case, for a provider with configured minters: the configuration in dict order goes to the model, the hash table
    holds the digest of every text ANY minter of the configuration or a built-in one would hash for this user / client"""
    st = reg.get("subject_type") or "public"
    srcs = [x for x in (reg.get("sector_id"), reg.get("sector_identifier_uri"), redirect) if x]
    hosts = [(x, host(x)) for x in srcs]
    pre = cm.preimages(spec, u, salt, [h for _, h in hosts])
    ht = [(x, hashlib.sha256(x.encode("utf-8")).hexdigest()) for x in pre]
    fresh = cm.effective_recipe(spec, st) is None
    return "(%s, %s, %s, mkCreg %s %s %s, %s, %s, %s, %s)" % (
        coq_list(["(%s, %s)" % (coq_str(a), coq_str(b)) for a, b in ht], "(pystr * pystr)"),
        coq_list(["(%s, %s)" % (coq_str(a), coq_str(b)) for a, b in hosts], "(pystr * pystr)"),
        cm.coq_conf(spec),
        coq_opt(reg.get("subject_type"), coq_str, "pystr"), coq_opt(reg.get("sector_id"), coq_str, "pystr"),
        coq_opt(reg.get("sector_identifier_uri"), coq_str, "pystr"),
        coq_str(redirect), coq_str(u), coq_str(salt),
        "None" if fresh else "(Some %s)" % coq_str(sub))


def expected_sub(spec, key, uid, salt, sector):
    """ORACLE: what the minter the configuration names for `key` produces when called directly (a fresh instance of the
    named class / the named function; the library's built-in function of that name when the configuration names none).
    None for fresh-value minters (their rule is freshness) and for keys nothing serves."""
    from idpyoidc.server.session import manager as m
    e = cm.effective(spec, key)
    if e is None:
        if key not in ("public", "pairwise"):
            return None
        f = {"public": m.public_id, "pairwise": m.pairwise_id}[key]
    else:
        if cm.recipe(e) is None:
            return None
        f = cm.direct(e)
    return f(uid, salt=salt, sector_identifier=sector)


PROBE_ARGS = [("diana", "sector-a.example.org"), ("diana", "sector-b.example.org"), ("babs", "sector-a.example.org"), ("dian", "")]


def table_probe(ctx, server, spec, tcases, kcases, tag):
    """the provider's sub_func table itself, key by key: sub_func[key](uid, salt=.., sector_identifier=..) as create_grant
    calls it, against the model's table (do_sub_func loop + defaults) and against the configured entry asked directly"""
    sm = server.context.session_manager
    salt = sm.get_salt()
    keys = list(sm.sub_func.keys())
    kcases.append(("(%s, %s)" % (cm.coq_conf(spec), coq_list([coq_str(k) for k in keys], "pystr")),
                   {"table_keys": keys, "sub_func": cm.describe(spec), "where": tag}))
    want_keys = set(k for k, e in spec if e["how"] != "skip") | {"public", "pairwise", "ephemeral"}
    if set(keys) != want_keys:
        ctx.violation("configured-minter-not-used", "the provider's sub_func table has keys %r, the configuration %r asks for %r"
                      % (keys, cm.describe(spec), sorted(want_keys)), {"sub_func": cm.describe(spec), "where": tag})
    for key in keys:
        rcp = cm.effective_recipe(spec, key)
        vals = []
        for uid, sector in PROBE_ARGS:
            try:
                got = sm.sub_func[key](uid, salt=salt, sector_identifier=sector)
            except Exception as ex:
                got = "raised %r" % (ex,)
            vals.append(got)
            rec = {"table_probe": True, "where": tag, "sub_func": cm.describe(spec), "key": key, "uid": uid, "sector": sector, "got": got}
            ctx.case_seen(rec, True)
            ctx.count("table:%s" % ("fresh" if rcp is None else "hash"))
            pre = cm.preimages(spec, uid, salt, [sector])
            ht = [(x, hashlib.sha256(x.encode("utf-8")).hexdigest()) for x in pre]
            tcases.append(("(%s, %s, %s, %s, %s, %s, %s)" % (
                coq_list(["(%s, %s)" % (coq_str(a), coq_str(b)) for a, b in ht], "(pystr * pystr)"), cm.coq_conf(spec),
                coq_str(key), coq_str(uid), coq_str(salt), coq_str(sector),
                "None" if rcp is None else "(Some %s)" % coq_str(got)), rec))
            want = expected_sub(spec, key, uid, salt, sector)
            if want is not None and got != want:
                ctx.violation("configured-minter-not-used", "sub_func[%r] of a provider configured with %r gives %s for (%s, %s); the "
                              "minter configured for %r gives %s" % (key, cm.describe(spec), got, uid, sector, key, want), rec)
            if rcp is not None and uid in got:
                ctx.violation("uid-in-clear", "sub %r contains the user id %r" % (got, uid), rec)
        if rcp is None:
            hashes = set(hashlib.sha256(x.encode("utf-8")).hexdigest() for u_, s_ in PROBE_ARGS for x in cm.preimages(spec, u_, salt, [s_]))
            if len(set(vals)) != len(vals) or set(vals) & hashes:
                ctx.violation("ephemeral-repeat", "the fresh-value minter serving %r repeats / returns a hashed sub: %r" % (key, vals),
                              {"sub_func": cm.describe(spec), "key": key, "where": tag})


def one_provider(ctx, cases, si, jwt, over, spec=None, ccases=None, tcases=None, kcases=None):
    """one provider, the login sequences, the four release points, the oracles.  spec: configured subject minters
    (c18_minters spec; None = nothing configured, the built-in minters)"""
    if True:        # (block kept at the indentation it had inside run's loop)
        rs = configured_session(spec, oidc=True, jwt_access=jwt, client_over=over)
        try:
            salt = rs.sm.get_salt()
            if spec is not None:
                table_probe(ctx, rs.server, spec, tcases, kcases, "provider %s" % si)
            seen = {}       # (user, client) -> list of subs
            grants = []
            for rnd in range(2):
                for u in sess.USERS:
                    for c in sess.CLIENTS:
                        n0 = len(rs.tokens)
                        o = rs.run(("authz", u, c, ["openid", "email", "offline_access"]))
                        if o[0] != "ok":
                            ctx.notes.append("authz failed: %r" % (o,))
                            continue
                        code = o[1][0]
                        rs.run(("tparse", c, ("tok", code), "same"))
                        p = rs.run(("proc", len(rs.parsed) - 1, None))
                        if p[0] != "ok":
                            ctx.notes.append("token request failed: %r" % (p,))
                            continue
                        g = rs.grants[rs.tok_grant[code]][1]
                        views = {"grant": g.sub}
                        idt = rs.tokens[p[1]["id_token"]]
                        views["id_token"] = jwt_payload(idt)["sub"]
                        at = p[1]["access_token"]
                        ui = rs.run(("userinfo", ("tok", at)))
                        views["userinfo"] = ui[1] if ui[0] == "ok" else None
                        it = rs.run(("introspect", c, ("tok", at)))
                        views["introspection"] = it[3] if it[0] == "active" else None
                        if jwt:
                            views["jwt_access_token"] = jwt_payload(rs.tokens[at]).get("sub")
                        reg = rs.ctx.cdb[c]
                        rec = {"user": u, "client": c, "subject_type": reg.get("subject_type"), "sector_id": reg.get("sector_id"),
                               "sector_identifier_uri": reg.get("sector_identifier_uri"), "views": views, "jwt_access": jwt}
                        if spec is not None:
                            rec["sub_func"] = cm.describe(spec)
                        ctx.case_seen(rec, all(v is not None for v in views.values()))
                        ctx.count("type:%s" % reg.get("subject_type"))
                        grants.append(rec)
                        # ---- oracle: consistency
                        vals = set(views.values())
                        if len(vals) != 1:
                            ctx.violation("inconsistent-views", "sub differs across release points: %r" % views, rec)
                        sub = g.sub
                        seen.setdefault((u, c), []).append(sub)
                        # ---- oracle: opacity
                        if u in sub:
                            ctx.violation("uid-in-clear", "sub %r contains the user id %r" % (sub, u), rec)
                        # ---- model case
                        if spec is None:
                            cases.append((model_case(reg, u, "https://%s.example.com/cb" % c, sub, salt), rec))
                        else:
                            ccases.append((model_case_conf(spec, reg, u, "https://%s.example.com/cb" % c, sub, salt), rec))
                            # ---- oracle: the client gets what the minter configured for ITS subject type produces when asked
                            #      directly (the built-in function of that name when the configuration names none)
                            st = reg.get("subject_type") or "public"
                            ctx.count("configured:%s:%s" % (st, (cm.effective(spec, st) or {"how": "built-in"})["how"]))
                            want = expected_sub(spec, st, u, salt, host(reg.get("sector_id") or reg.get("sector_identifier_uri")
                                                                        or "https://%s.example.com/cb" % c))
                            if want is not None and sub != want:
                                ctx.violation("configured-minter-not-used", "client %s (subject type %s) of a provider configured with sub_func %r "
                                              "got sub %s for user %s; the minter configured for %s produces %s"
                                              % (c, st, cm.describe(spec), sub, u, st, want), rec)
            # ---- a further authorization request from the same browser (session cookie of the first response replayed),
            #      same client, other state/nonce: a new grant under the live session
            for u in sess.USERS[:2]:
                for c in sess.CLIENTS:
                    o1 = rs.op_authz(u, c, ["openid", "email"])
                    ck = rs.last_cookie
                    if o1[0] != "ok" or not ck:
                        continue
                    g1 = rs.grants[rs.tok_grant[o1[1][0]]][1]
                    o2 = rs.op_authz(u, c, ["openid", "profile"], extra={"state": "other-state", "nonce": "other-nonce"}, cookie=ck)
                    if o2[0] != "ok":
                        continue
                    g2 = rs.grants[rs.tok_grant[o2[1][0]]][1]
                    st = rs.ctx.cdb[c].get("subject_type") or "public"
                    rec = {"user": u, "client": c, "subject_type": st, "cookie_flow": True, "same_grant": g1 is g2, "subs": [g1.sub, g2.sub]}
                    ctx.case_seen(rec, True)
                    ctx.count("cookie-flow:%s:%s" % (st, "same-grant" if g1 is g2 else "new-grant"))
                    if g1 is not g2:
                        if st == "ephemeral" and g1.sub == g2.sub:
                            ctx.violation("ephemeral-repeat", "two grants of one browser session at ephemeral client %s share sub %s" % (c, g1.sub), rec)
                        if st != "ephemeral" and g1.sub != g2.sub:
                            ctx.violation("unstable", "second grant in the same browser session got another sub (%s at %s)" % (u, c), rec)
                        seen.setdefault((u, c), []).append(g2.sub)
            # ---- oracle: stability, type rules (written from the property text)
            eph = []
            for (u, c), subs in seen.items():
                st = rs.ctx.cdb[c].get("subject_type") or "public"
                if st != "ephemeral" and len(set(subs)) != 1:
                    ctx.violation("unstable", "user %s at %s (%s) got different subs over two logins: %r" % (u, c, st, subs), {"user": u, "client": c})
                if st == "ephemeral":
                    eph += subs
            if len(set(eph)) != len(eph):
                ctx.violation("ephemeral-repeat", "ephemeral subs repeat: %r" % eph, {"server": si})

            def sector(c):
                reg = rs.ctx.cdb[c]
                return host(reg.get("sector_id") or reg.get("sector_identifier_uri") or "https://%s.example.com/cb" % c)
            for u in sess.USERS:
                for a in sess.CLIENTS:
                    for b in sess.CLIENTS:
                        if a >= b or (u, a) not in seen or (u, b) not in seen:
                            continue
                        ta = rs.ctx.cdb[a].get("subject_type") or "public"
                        tb = rs.ctx.cdb[b].get("subject_type") or "public"
                        sa, sb = seen[(u, a)][0], seen[(u, b)][0]
                        ctxrec = {"user": u, "clients": [a, b], "types": [ta, tb], "sectors": [sector(a), sector(b)], "subs": [sa, sb]}
                        if ta == tb == "public" and sa != sb:
                            ctx.violation("public-differs", "public subs of %s differ between %s and %s" % (u, a, b), ctxrec)
                        if ta == tb == "pairwise":
                            if sector(a) == sector(b) and sa != sb:
                                ctx.violation("pairwise-same-sector-differs", "pairwise subs differ within sector %s" % sector(a), ctxrec)
                            if sector(a) != sector(b) and sa == sb:
                                ctx.violation("pairwise-sectors-equal", "pairwise subs equal across sectors %s / %s" % (sector(a), sector(b)), ctxrec)
            for a in sess.USERS:
                for b in sess.USERS:
                    for c in sess.CLIENTS:
                        if a < b and (a, c) in seen and (b, c) in seen and seen[(a, c)][0] == seen[(b, c)][0]:
                            ctx.violation("users-share-sub", "users %s and %s share a sub at %s" % (a, b, c), {"client": c})
        finally:
            rs.close()



def session_with(sub_func, **kw):
    """a RealSession whose provider is configured with session_params.sub_func = this very dict (None: key absent)"""
    if sub_func is None:
        return sess.RealSession(**kw)
    old_mk = srv.make_server

    def mk(*a, **k):
        k["sub_func"] = sub_func
        return old_mk(*a, **k)
    srv.make_server = mk
    try:
        return sess.RealSession(**kw)
    finally:
        srv.make_server = old_mk


def login_views(ctx, rs, u, c, jwt):
    """one complete login of user u at client c through the real endpoints: the sub at every release point (None: the flow failed)"""
    o = rs.run(("authz", u, c, ["openid", "email", "offline_access"]))
    if o[0] != "ok":
        ctx.notes.append("authz failed: %r" % (o,))
        return None
    code = o[1][0]
    rs.run(("tparse", c, ("tok", code), "same"))
    p = rs.run(("proc", len(rs.parsed) - 1, None))
    if p[0] != "ok":
        ctx.notes.append("token request failed: %r" % (p,))
        return None
    g = rs.grants[rs.tok_grant[code]][1]
    views = {"grant": g.sub, "id_token": jwt_payload(rs.tokens[p[1]["id_token"]])["sub"]}
    at = p[1]["access_token"]
    ui = rs.run(("userinfo", ("tok", at)))
    views["userinfo"] = ui[1] if ui[0] == "ok" else None
    it = rs.run(("introspect", c, ("tok", at)))
    views["introspection"] = it[3] if it[0] == "active" else None
    if jwt:
        views["jwt_access_token"] = jwt_payload(rs.tokens[at]).get("sub")
    return views


N_INSTANCES = 3


def one_life(ctx, life, li, lcases, scases):
    """one deployment: N_INSTANCES provider instances built one after another from the same configuration (restart / further
    worker), the same users at the same clients at every instance; files and subs of every instance against the model, the subs
    across the instances against each other (ORACLE, from the property text: stable for the same user at the same client; public
    equal across clients; pairwise equal within a sector and different between sectors; users never share a sub)"""
    from idpyoidc.server.exception import ConfigurationError
    rng = ctx.rng
    cs.prepare(life)
    types = list(TYPE_PATTERNS[li % len(TYPE_PATTERNS)])
    rng.shuffle(types)
    over = {}
    for c, st in zip(sess.CLIENTS, types):
        rec = {}
        if st:
            rec["subject_type"] = st
        sec = rng.choice(SECTORS)
        if sec:
            rec[rng.choice(["sector_id", "sector_identifier_uri"])] = sec
        over[c] = rec
    jwt = li % 2 == 1
    desc = cs.describe(life)
    insts = []

    def sector(c):
        return host(over[c].get("sector_id") or over[c].get("sector_identifier_uri") or "https://%s.example.com/cb" % c)

    def typ(c):
        return over[c].get("subject_type") or "public"

    def logins(k, inst, users, tag):
        rs = inst["rs"]
        salt = rs.sm.get_salt()
        for u in users:
            for c in sess.CLIENTS:
                views = login_views(ctx, rs, u, c, jwt)
                if views is None:
                    continue
                reg = rs.ctx.cdb[c]
                rec = dict(desc, instance=k + 1, round=tag, files_before_start=inst["before"], files_after_start=inst["after"],
                           user=u, client=c, subject_type=reg.get("subject_type"), sector=sector(c), views=views, jwt_access=jwt)
                ctx.case_seen(rec, all(v is not None for v in views.values()))
                ctx.count("life-login:%s:instance-%d" % (typ(c), k + 1))
                if len(set(views.values())) != 1:
                    ctx.violation("inconsistent-views", "sub differs across release points: %r" % views, rec)
                sub = views["grant"]
                fresh = cm.effective_recipe(inst["spec"], typ(c)) is None
                if not fresh and u in sub:
                    ctx.violation("uid-in-clear", "sub %r contains the user id %r" % (sub, u), rec)
                inst["subs"].setdefault((u, c), []).append(sub)
                redirect = "https://%s.example.com/cb" % c
                srcs = [x for x in (reg.get("sector_id"), reg.get("sector_identifier_uri"), redirect) if x]
                hosts = [(x, host(x)) for x in srcs]
                pre = cm.preimages(inst["spec"], u, salt, [h for _, h in hosts])
                ht = [(x, hashlib.sha256(x.encode("utf-8")).hexdigest()) for x in pre]
                lcases.append(("(%s, %s, %s, %s, %s, mkCreg %s %s %s, %s, %s, %s, %s)" % (
                    cs.coq_pairs(ht), cs.coq_pairs(hosts), cs.coq_dconf(life), cs.coq_draws(inst["draws"]), cs.coq_fs(inst["before"]),
                    coq_opt(reg.get("subject_type"), cs.S, "pystr"), coq_opt(reg.get("sector_id"), cs.S, "pystr"),
                    coq_opt(reg.get("sector_identifier_uri"), cs.S, "pystr"),
                    cs.S(redirect), cs.S(u), cs.S(salt), "None" if fresh else "(Some %s)" % cs.S(sub)), rec))
    try:
        for k in range(N_INSTANCES):
            before = cs.snapshot(life)
            try:
                rs = session_with(cs.conf_of(life), oidc=True, jwt_access=jwt, client_over=copy.deepcopy(over))
            except ConfigurationError:
                rs = None
            after = cs.snapshot(life)
            draws = cs.infer_draws(life, before, after)
            inst = {"rs": rs, "before": before, "after": after, "draws": draws, "subs": {}, "spec": None}
            insts.append(inst)
            rec0 = dict(desc, instance=k + 1, files_before_start=before, files_after_start=after, started=rs is not None)
            ctx.case_seen(rec0, True)
            ctx.count("life-instance:%s" % ("started" if rs is not None else "refused to start (ConfigurationError)"))
            for f, v in before.items():
                ctx.count("life-file-at-start:%s" % ("missing" if v is None else "not-a-file" if v == "dir" else "exists"))
            scases.append(("(%s, %s, %s, %s)" % (cs.coq_dconf(life), cs.coq_draws(draws), cs.coq_fs(before),
                                                 cs.coq_observed(after) if rs is not None else "None"), rec0))
            if rs is None:
                continue
            inst["spec"] = cs.resolved_spec(life, after)
            logins(k, inst, sess.USERS, "first")
        # the instance that started first is still running: it goes on handing out what it handed out
        if insts[0]["rs"] is not None:
            logins(0, insts[0], sess.USERS[:1], "again-after-the-others-started")
        # ---- ORACLE across the instances
        started = [i for i in insts if i["rs"] is not None]
        if not started:
            return
        spec = started[-1]["spec"]
        allsubs = {}
        for u in sess.USERS:
            for c in sess.CLIENTS:
                if cm.effective_recipe(spec, typ(c)) is None:
                    continue
                per = [(k + 1, s) for k, i in enumerate(insts) for s in i["subs"].get((u, c), [])]
                if not per:
                    continue
                allsubs[(u, c)] = per
                if len(set(s for _, s in per)) != 1:
                    ctx.violation("unstable", "user %s at client %s (%s): instances built from the same configuration hand out different "
                                  "subs: %s" % (u, c, typ(c), ", ".join("instance %d: %s" % x for x in per)),
                                  dict(desc, user=u, client=c, subject_type=typ(c), subs_by_instance=per,
                                       files_by_instance=[[i["before"], i["after"]] for i in insts]))
        for u in sess.USERS:
            for a in sess.CLIENTS:
                for b in sess.CLIENTS:
                    if a >= b or (u, a) not in allsubs or (u, b) not in allsubs:
                        continue
                    ta, tb = typ(a), typ(b)
                    sa, sb = set(s for _, s in allsubs[(u, a)]), set(s for _, s in allsubs[(u, b)])
                    rec = dict(desc, user=u, clients=[a, b], types=[ta, tb], sectors=[sector(a), sector(b)],
                               subs_by_instance=[allsubs[(u, a)], allsubs[(u, b)]])
                    if ta == tb == "public" and len(sa | sb) != 1:
                        ctx.violation("public-differs", "public subs of %s differ between %s and %s over the instances of one deployment" % (u, a, b), rec)
                    if ta == tb == "pairwise":
                        if sector(a) == sector(b) and len(sa | sb) != 1:
                            ctx.violation("pairwise-same-sector-differs", "pairwise subs differ within sector %s over the instances of one "
                                          "deployment" % sector(a), rec)
                        if sector(a) != sector(b) and sa & sb:
                            ctx.violation("pairwise-sectors-equal", "pairwise subs equal across sectors %s / %s" % (sector(a), sector(b)), rec)
        for a in sess.USERS:
            for b in sess.USERS:
                for c in sess.CLIENTS:
                    if a < b and (a, c) in allsubs and (b, c) in allsubs and set(s for _, s in allsubs[(a, c)]) & set(s for _, s in allsubs[(b, c)]):
                        ctx.violation("users-share-sub", "users %s and %s share a sub at %s" % (a, b, c), dict(desc, client=c))
    finally:
        for i in insts:
            if i["rs"] is not None:
                i["rs"].close()


def salt_lifecycle(ctx):
    """every way a salt reaches the subject minters, over the life of a deployment (c18_salts)"""
    lives = cs.fixed_lives() + [cs.draw_life(ctx.rng, n) for n in range(4 if ctx.quick else 60)]
    lcases, scases = [], []
    for li, life in enumerate(lives):
        ctx.count("lives")
        one_life(ctx, life, li, lcases, scases)
    imports = ["Lib.Base", "Lib.PyStr", "Model.Sub"]
    cs.check_cases(ctx, imports, "start_case", "chk_start", scases, shard=100, label="start")
    cs.check_cases(ctx, imports, "life_case", "chk_life", lcases, shard=150, label="life")


OWN_SALTS = ["tenant-salt-public", "tenant-salt-pairwise", "s", "s\u00e4lt-\u00fc/\u00df", "salt-verif-0123456789"]
STD_KEYS = ["public", "pairwise", "ephemeral"]


def draw_entry(rng, behaviour):
    """an entry whose minter BEHAVES as `behaviour` asks (public: sector-blind hash, pairwise: hashes the sector, ephemeral:
    fresh value), through every way of naming it"""
    if behaviour == "ephemeral":
        return rng.choice([{"how": "fn-str", "kind": ("ephemeral_id",)}, {"how": "fn-obj", "kind": ("ephemeral_id",)},
                           {"how": "fn-str", "kind": ("custom-fresh", "e")}, {"how": "fn-obj", "kind": ("custom-fresh", "x-")}])
    cls = "PublicID" if behaviour == "public" else "PairWiseID"
    fn = "public_id" if behaviour == "public" else "pairwise_id"
    us = behaviour == "pairwise"
    salt = rng.choice(OWN_SALTS)
    return rng.choice([
        {"how": "class-str", "kind": (cls, salt)}, {"how": "class-obj", "kind": (cls, salt)},
        {"how": "class-str", "kind": (cls, salt)}, {"how": rng.choice(["class-str", "class-obj"]), "kind": (cls + "-file", salt)},
        {"how": "fn-str", "kind": (fn,)}, {"how": "fn-obj", "kind": (fn,)},
        {"how": "fn-str", "kind": ("custom", "site|", us, None)},
        {"how": "fn-obj", "kind": ("custom", rng.choice(["", "t1:", "site|"]), us, rng.choice([None, salt]))}])


def draw_spec(rng, order, sensible=True):
    """the configured dict: the subject types of `order`, in that order; now and then a skipped entry for a type not in
    `order` and a key no client uses, at a drawn position.  sensible=False: any minter under any key (cross-plugged)"""
    spec = [(k, draw_entry(rng, k if sensible else rng.choice(STD_KEYS))) for k in order]
    rest = [k for k in STD_KEYS if k not in order]
    if rest and rng.random() < 0.4:
        spec.insert(rng.randrange(len(spec) + 1), (rng.choice(rest), {"how": "skip", "kind": None}))
    if rng.random() < 0.4:
        spec.insert(rng.randrange(len(spec) + 1), ("persistent", draw_entry(rng, rng.choice(STD_KEYS))))
    return spec


TYPE_PATTERNS = [["public", "public", "pairwise"], ["pairwise", "pairwise", "public"], ["public", "pairwise", "ephemeral"],
                 [None, "pairwise", "public"], ["pairwise", "public", "pairwise"], ["ephemeral", "public", "public"]]


def configured_providers(ctx, cases):
    """providers with configured subject minters: every ordered choice of one, two or three subject types (15), the
    minters drawn per type; clients of the configured AND of the unconfigured types; the full login sequences"""
    rng = ctx.rng
    orders = [o for n in (1, 2, 3) for o in itertools.permutations(STD_KEYS, n)]
    ccases, tcases, kcases = [], [], []
    for rep in range(1 if ctx.quick else 4):
        for oi, order in enumerate(orders):
            if rep == 0 and order == ("public", "pairwise"):       # the documented configuration (doc/server/contents/conf.rst)
                spec = [("public", {"how": "class-str", "kind": ("PublicID", OWN_SALTS[0])}),
                        ("pairwise", {"how": "class-str", "kind": ("PairWiseID", OWN_SALTS[1])})]
            elif rep == 0 and order == ("pairwise", "public"):
                spec = [("pairwise", {"how": "class-str", "kind": ("PairWiseID", OWN_SALTS[1])}),
                        ("public", {"how": "class-str", "kind": ("PublicID", OWN_SALTS[0])})]
            else:
                spec = draw_spec(rng, order)
            types = list(TYPE_PATTERNS[(oi + rep) % len(TYPE_PATTERNS)])
            rng.shuffle(types)
            over = {}
            for c, st in zip(sess.CLIENTS, types):
                rec = {}
                if st:
                    rec["subject_type"] = st
                sec = rng.choice(SECTORS)
                if sec:
                    rec[rng.choice(["sector_id", "sector_identifier_uri"])] = sec
                over[c] = rec
            ctx.count("configured-providers:%d-types" % len(order))
            one_provider(ctx, cases, "configured-%d-%d" % (rep, oi), (oi + rep) % 2 == 1, over, spec=spec, ccases=ccases, tcases=tcases, kcases=kcases)
    # ---- the table alone, on providers with arbitrary entries (any minter under any key, also none at all)
    for ti in range(10 if ctx.quick else 60):
        order = rng.choice(orders)
        spec = [] if ti == 0 else draw_spec(rng, order, sensible=False)
        server = srv.make_server(clients=sess.CLIENTS, sub_func={k: cm.conf_entry(e) for k, e in spec})
        ctx.count("table-only-providers")
        table_probe(ctx, server, spec, tcases, kcases, "table-only %d" % ti)
    imports = ["Lib.Base", "Lib.PyStr", "Model.Sub"]
    ctx.coq_check_cases(imports, "subc_case", "chk_subc", ccases, shard=60, label="subconf")
    ctx.coq_check_cases(imports, "table_case", "chk_table", tcases, shard=100, label="table")
    ctx.coq_check_cases(imports, "list (pystr * centry) * list pystr", "chk_table_keys", kcases, label="tablekeys")


# =====================================================================================================================
# WHAT A REQUEST SAYS.  The sub of a grant is a function of (user, the client's REGISTERED subject type and sector / redirect
# host, the provider's salt / configured minter) - for every content of the request.  Requests carrying EXTENSION parameters
# named like client-registration metadata or like inputs of the subject computation, with values equal to / different from
# what is registered (the sector of ANOTHER registered client, an attacker-chosen URL, ...), delivered every way a request
# reaches the provider: front channel, request object, pushed request, with a session cookie, duplicated in the query string,
# and at the token endpoint (code redemption, refresh).  The one place where OIDC lets a request mention sub
# (claims: {"id_token": {"sub": {"value": ..}}}) asks for a MATCH; it never sets the sub.
# =====================================================================================================================
class QuickSession(sess.RealSession):
    """RealSession with the inventory of grants / tokens taken incrementally (hundreds of logins on one provider)"""

    def harvest(self):
        ids = self.__dict__.setdefault("_tok_ids", set())
        marks = self.__dict__.setdefault("_grant_marks", {})
        if len(ids) != len(self.tokobj):
            ids.clear()
            ids.update(id(o) for o in self.tokobj)
            marks.clear()
        new = []
        for gi, (sid, g, u, c) in enumerate(self.grants):
            it = g.issued_token
            mark = (len(it), id(it[-1]) if it else 0)
            if marks.get(gi) == mark:
                continue
            marks[gi] = mark
            for t in it:
                if id(t) not in ids:
                    ids.add(id(t))
                    self.tokobj.append(t)
                    self.tokens.append(t.value)
                    self.tok_grant.append(gi)
                    new.append(len(self.tokens) - 1)
        return new

    def find_new_grants(self):
        from idpyoidc.server.session.grant import Grant
        known = self.__dict__.setdefault("_grant_ids", set())
        if len(known) != len(self.grants):
            known.clear()
            known.update(id(g) for _, g, _, _ in self.grants)
        for k, n in self.sm.db.items():
            if isinstance(n, Grant) and id(n) not in known:
                if len(k.split(";;")) != 3:
                    continue
                u, c, gid = k.split(";;")
                known.add(id(n))
                self.grants.append((self.sm.encrypted_session_id(u, c, gid), n, u, c))


ATTACKER_URL = "https://attacker.example.net/sector.json"
ATTACKER_HOST = "attacker.example.net"
RQ_SCOPE = ["openid", "email", "offline_access"]
AUTHZ_WHERES = ["front", "request-object", "par", "cookie", "query-duplicates"]
TOKEN_WHERES = ["token", "refresh"]
WHERES = AUTHZ_WHERES + TOKEN_WHERES
# registered sectors for which urlparse finds NO host (a bare host name, a URN): Authorization._subject_args hands "" on, the
# minter gets the empty sector - for every content of the request
HOSTLESS_SECTORS = ["sector-a.example.org", "urn:sector:b"]


def redirect_of(c):
    return "https://%s.example.com/cb" % c


def reg_sector_source(reg, c):
    """ground truth from the REGISTRATION: the text whose host names the client's sector"""
    return reg.get("sector_id") or reg.get("sector_identifier_uri") or redirect_of(c)


def wire(v):
    """an extension parameter's value as text (what the model's request holds; what a form-encoded body carries)"""
    return v if isinstance(v, str) else json.dumps(v, sort_keys=True)


def ext_catalogue(rs, u, c, refs):
    """every single extension parameter the class asks for, for a login of u at c: [(name, value, relation to what is registered)]"""
    cdb = rs.ctx.cdb
    reg = cdb[c]
    others = [o for o in sess.CLIENTS if o != c]
    other_user = next(x for x in sess.USERS if x != u)
    own = reg_sector_source(reg, c)
    sect = [(own, "registered"), (host(own) or "none.example.org", "registered-host")]
    for o in others:
        src = reg_sector_source(cdb[o], o)
        sect += [(src, "of-" + o), (host(src) or src, "host-of-" + o)]
    sect += [(ATTACKER_URL, "attacker"), (ATTACKER_HOST, "attacker-host"), ("", "empty")]
    out, had = [], set()
    for name in ("sector_identifier_uri", "sector_id", "sector_identifier"):
        for v, rel in sect:
            if (name, v) not in had:
                had.add((name, v))
                out.append((name, v, rel))
    st = reg.get("subject_type") or "public"
    for name in ("subject_type", "sub_type"):
        for v in ("public", "pairwise", "ephemeral", "transient"):
            out.append((name, v, "registered" if v == st else "other"))
    out.append(("redirect_uris", [redirect_of(c)], "registered"))
    out.append(("redirect_uris", [redirect_of(others[0]), "https://attacker.example.net/cb"], "other"))
    out += [("client_salt", reg.get("client_salt") or "salted", "registered"), ("client_salt", "other-salt", "other"),
            ("salt", "%s" % (rs.sm.get_salt(),), "registered"), ("salt", "other-salt", "other"), ("salt", "", "empty")]
    subs = [(refs.get((u, c)), "registered")] + [(refs.get((u, o)), "of-" + o) for o in others] + \
           [(refs.get((other_user, c)), "of-user-" + other_user), ("chosen-subject-0001", "attacker")]
    subs = [(v, rel) for v, rel in subs if v]
    out += [("sub", v, rel) for v, rel in subs]
    out += [("sub_func", "public", "other"), ("sub_func", {"pairwise": {"function": "idpyoidc.server.session.manager.public_id"}}, "other")]
    for name in ("user_id", "uid", "user"):
        out += [(name, u, "registered"), (name, other_user, "other")]
    out.append(("client_id", others[0], "of-" + others[0]))
    for member in ("id_token", "userinfo"):
        for v, rel in subs:
            out.append(("claims", {member: {"sub": {"value": v}}}, rel))
    out.append(("claims", {"id_token": {"sub": {"values": [v for v, _ in subs[1:]]}}, "userinfo": {"sub": None}}, "other"))
    return out


def _basic(rs, c):
    return {"headers": {"authorization": "Basic " + base64.b64encode(("%s:%s" % (c, rs.secret(c))).encode()).decode()}}


def request_flow(rs, u, c, where, ext, jwt, n):
    """one login of user u at client c through the real endpoints, the extension parameters `ext` delivered at `where`.
    Returns (status, grant index, views): status "ok" | "refused:<stage>:<what>"; views = the sub at every release point,
    before and after a refresh"""
    from urllib.parse import urlencode
    from cryptojwt.jws.jws import JWS
    from cryptojwt.jwk.hmac import SYMKey
    base = {"client_id": c, "redirect_uri": redirect_of(c), "response_type": "code", "scope": " ".join(RQ_SCOPE),
            "state": "st-%d" % n, "nonce": "nonce-rq-%d" % n, "prompt": "consent"}
    cookie = None
    g0 = len(rs.grants)
    if where == "front":
        extra = dict(base, **{k: v for k, v in ext.items() if k != "client_id"})
    elif where == "request-object":
        claims = dict(base, iss=c, aud=srv.ISSUER)
        claims.update(ext)
        extra = dict(base, request=JWS(json.dumps(claims), alg="HS256").sign_compact([SYMKey(key=rs.secret(c))]))
    elif where == "par":
        par = rs.server.get_endpoint("pushed_authorization")
        body = dict(base)
        body.update({k: wire(v) if k != "claims" else v for k, v in ext.items()})
        try:
            srv.set_user(rs.server, u)
            p = par.parse_request(body, http_info=_basic(rs, c))
            e = rs.err_of(p)
            if e:
                return "refused:par:%s" % e, None, None
            urn = par.process_request(p)["http_response"]["request_uri"]
        except Exception as ex:
            return "refused:par:%s" % type(ex).__name__, None, None
        extra = dict(base, request_uri=urn)
    elif where == "cookie":
        o1 = rs.run(("authz", u, c, RQ_SCOPE, "code", dict(base)))
        cookie = rs.last_cookie
        if o1[0] != "ok" or not cookie:
            return "refused:first-login:%r" % (o1[:2],), None, None
        g0 = len(rs.grants)
        extra = dict(base, state="st-%d-b" % n, nonce="nonce-rq-%d-b" % n, **{k: v for k, v in ext.items() if k != "client_id"})
    elif where == "query-duplicates":
        # the query string carries the registered / plain member AND a second one of the same name
        pairs = list(base.items())
        for k, v in ext.items():
            pairs.append((k, wire(v)))
            if k not in base:
                pairs.append((k, wire(v) + "-second" if k != "sector_identifier_uri" else host(reg_sector_source(rs.ctx.cdb[c], c))))
        extra = urlencode(pairs)
    else:
        extra = dict(base)
    if isinstance(extra, str):
        try:
            srv.set_user(rs.server, u)
            ep = rs.ep["authorization"]
            pq = ep.parse_request(extra)
            e = rs.err_of(pq)
            if e:
                return "refused:authorization:%s" % e, None, None
            res = ep.process_request(pq)
            ra = res.get("response_args") if isinstance(res, dict) else None
            o = ["ok"] if ra is not None and "code" in ra else ["err", rs.err_of(ra) if ra is not None else "no-response"]
        except Exception as ex:
            o = ["exc", type(ex).__name__]
        finally:
            rs.find_new_grants()
            rs.harvest()
    else:
        o = rs.run(("authz", u, c, RQ_SCOPE, "code", extra, cookie))
    if o[0] != "ok":
        return "refused:authorization:%s" % (o[1] if len(o) > 1 else o[0]), None, None
    new = [gi for gi in range(g0, len(rs.grants))]
    if where == "cookie" and not new:
        return "refused:authorization:same-grant", None, None
    if len(new) != 1:
        return "refused:authorization:%d-grants" % len(new), None, None
    gi = new[0]
    g = rs.grants[gi][1]
    code = next((i for i, t in enumerate(rs.tokobj) if rs.tok_grant[i] == gi and t.token_class == "authorization_code"), None)
    if code is None:
        return "refused:authorization:no-code", gi, None
    gc = rs.grants[gi][3]          # the client the grant belongs to (session database path)
    views = {"grant": g.sub}
    body = {"grant_type": "authorization_code", "code": rs.tokens[code], "redirect_uri": redirect_of(gc)}
    if where == "token":
        body.update({k: wire(v) for k, v in ext.items() if k != "client_id"})
    try:
        if where == "token" and "client_id" in ext:      # credentials of the grant's client (Basic), the body names another client
            p = rs.ep["token"].parse_request(dict(body, client_id=ext["client_id"]), http_info=_basic(rs, gc))
        else:
            p = rs.ep["token"].parse_request(rs._token_req(gc, body))
    except Exception as ex:
        return "refused:token:%s" % type(ex).__name__, gi, views
    if rs.err_of(p):
        return "refused:token:%s" % rs.err_of(p), gi, views
    rs.parsed.append(p)
    pr = rs.run(("proc", len(rs.parsed) - 1, None))
    if pr[0] != "ok":
        return "refused:token:%s" % (pr[1] if len(pr) > 1 else pr[0]), gi, views

    def release_points(out, tag):
        if "id_token" in out and out["id_token"] >= 0:
            views[tag + "id_token"] = jwt_payload(rs.tokens[out["id_token"]])["sub"]
        at = out["access_token"]
        ui = rs.run(("userinfo", ("tok", at)))
        views[tag + "userinfo"] = ui[1] if ui[0] == "ok" else None
        it = rs.run(("introspect", gc, ("tok", at)))
        views[tag + "introspection"] = it[3] if it[0] == "active" else None
        if jwt:
            views[tag + "jwt_access_token"] = jwt_payload(rs.tokens[at]).get("sub")
    release_points(pr[1], "")
    if "refresh_token" not in pr[1]:
        return "ok", gi, views
    body = {"grant_type": "refresh_token", "refresh_token": rs.tokens[pr[1]["refresh_token"]], "scope": "openid email"}
    if where == "refresh":
        body.update({k: wire(v) for k, v in ext.items() if k != "client_id"})
    try:
        if where == "refresh" and "client_id" in ext:
            p = rs.ep["token"].parse_request(dict(body, client_id=ext["client_id"]), http_info=_basic(rs, gc))
        else:
            p = rs.ep["token"].parse_request(rs._token_req(gc, body))
    except Exception as ex:
        return "refused:refresh:%s" % type(ex).__name__, gi, views
    if rs.err_of(p):
        return "refused:refresh:%s" % rs.err_of(p), gi, views
    rs.parsed.append(p)
    pr = rs.run(("proc", len(rs.parsed) - 1, None))
    if pr[0] != "ok":
        return "refused:refresh:%s" % (pr[1] if len(pr) > 1 else pr[0]), gi, views
    release_points(pr[1], "refreshed_")
    return "ok", gi, views


def named_subs(ext):
    """the sub values a request names (a `sub` member; the one legal place: claims.<member>.sub.value / values)"""
    out = set()
    if isinstance(ext.get("sub"), str):
        out.add(ext["sub"])
    cl = ext.get("claims")
    if isinstance(cl, dict):
        for member in cl.values():
            s = (member or {}).get("sub") if isinstance(member, dict) else None
            if isinstance(s, dict):
                if isinstance(s.get("value"), str):
                    out.add(s["value"])
                out.update(x for x in (s.get("values") or []) if isinstance(x, str))
    return out


def request_provider(ctx, pi, jwt, over, spec, rcases, budget):
    """one provider; plain logins of every user at every client give the reference subs; then logins whose requests carry the
    extension parameters.  ORACLE (from the property text; the ground truth is the REGISTRATION the generator wrote and the plain
    login): the sub of a grant of user u in client c's part of the session database equals the sub of a plain login of u at c
    (public / pairwise; at every release point, before and after a refresh), differs from the sub of every client in another
    sector, is fresh and not a value the request named when c is ephemeral; a claims.sub.value that does not match yields a
    refusal or is ignored."""
    rng = ctx.rng
    rs = configured_session(spec, cls=QuickSession, oidc=True, jwt_access=jwt, client_over=copy.deepcopy(over))
    try:
        salt = rs.sm.get_salt()
        cdb = rs.ctx.cdb
        typ = {c: cdb[c].get("subject_type") or "public" for c in sess.CLIENTS}
        fresh = {c: cm.effective_recipe(spec or [], typ[c]) is None for c in sess.CLIENTS}
        sector = {c: host(reg_sector_source(cdb[c], c)) for c in sess.CLIENTS}
        refs, eph_seen, n = {}, set(), [0]
        desc = {"provider": pi, "jwt_access": jwt, "sub_func": cm.describe(spec) if spec else None,
                "registrations": {c: {k: cdb[c].get(k) for k in ("subject_type", "sector_id", "sector_identifier_uri")} for c in sess.CLIENTS}}

        def one(u, c, where, ext, rel):
            n[0] += 1
            status, gi, views = request_flow(rs, u, c, where, ext, jwt, n[0])
            names = sorted(ext)
            rec = dict(desc, user=u, client=c, where=where, extension_parameters={k: ext[k] for k in names}, relation=rel,
                       status=status, views=views)
            answered = status == "ok" and views is not None and all(v is not None for v in views.values())
            ctx.case_seen(rec, answered)
            ctx.count("request:%s:%s" % (where, "answered" if answered else status.split(":")[0] + ":" + status.split(":")[1]))
            if views is None or gi is None:
                return None
            gu, gc = rs.grants[gi][2], rs.grants[gi][3]
            rec["grant_of"] = [gu, gc]
            for k in names:
                ctx.count("request-param:%s:%s" % (k, typ[gc]))
            sub = views["grant"]
            if len(set(v for v in views.values() if v is not None)) != 1:
                ctx.violation("inconsistent-views", "sub differs across release points: %r" % views, rec)
            at_authz = where in AUTHZ_WHERES
            if sector[gc] == "":
                ctx.count("request:hostless-registered-sector:%s" % where)
            if fresh[gc]:
                hashed = set(v for v in refs.values())
                if sub in eph_seen or sub in hashed or sub in named_subs(ext) or any(sub == wire(v) for v in ext.values()):
                    ctx.violation("request-fixes-ephemeral-sub", "the grant of %s at ephemeral client %s got sub %s: not a fresh value "
                                  "(request carried %r at %s)" % (gu, gc, sub, ext, where), rec)
                eph_seen.add(sub)
            elif (gu, gc) in refs:
                want = refs[(gu, gc)]
                for v in views.values():
                    if v is None or v == want:
                        continue
                    # (also for a registration whose sector has no host: the sub is computed with the empty sector, whatever the
                    #  request says - repaired in /repo c7c9b10, create_grant fell back on the request's sector_identifier_uri member)
                    what = "request-changes-sub"
                    other = [o for o in sess.CLIENTS if o != gc and refs.get((gu, o)) == v and not fresh[o]]
                    if other:
                        what += ":sub-of-%s-client-in-another-sector" % typ[other[0]] if sector[other[0]] != sector[gc] or typ[other[0]] != typ[gc] \
                            else ":sub-of-other-client"
                    elif v in named_subs(ext):
                        what += ":value-the-request-named"
                    ctx.violation(what, "user %s at client %s (registered %s, sector %s): a plain request gets sub %s, the request carrying %r "
                                  "(%s) gets %s" % (gu, gc, typ[gc], sector[gc] or "<none>", want, ext, where, v), rec)
                    break
                if u in sub:
                    ctx.violation("uid-in-clear", "sub %r contains the user id %r" % (sub, u), rec)
            # ---- model case: the assembled authorization request (what the harness SENT), the registration, the sub
            members = [(k, wire(ext[k])) for k in names if k != "client_id"] if at_authz and where != "query-duplicates" else []
            if where == "query-duplicates" and at_authz:
                return sub      # (a member given twice has no single value in the model's request)
            reg = cdb[gc]
            rd = redirect_of(gc)
            srcs = [x for x in (reg.get("sector_id"), reg.get("sector_identifier_uri"), rd) if x]
            hosts = [(x, host(x)) for x in srcs]
            sectors = [h for _, h in hosts] + [v for k, v in members if k == "sector_identifier_uri"]
            pre = cm.preimages(spec or [], gu, salt, sectors)
            ht = [(x, hashlib.sha256(x.encode("utf-8")).hexdigest()) for x in pre]
            rcases.append(("(%s, %s, %s, mkCreg %s %s %s, mkAreq %s %s, %s, %s, %s)" % (
                cs.coq_pairs(ht), cs.coq_pairs(hosts), cm.coq_conf(spec or []),
                coq_opt(reg.get("subject_type"), cs.S, "pystr"), coq_opt(reg.get("sector_id"), cs.S, "pystr"),
                coq_opt(reg.get("sector_identifier_uri"), cs.S, "pystr"),
                cs.S(rd), cs.coq_pairs(members), cs.S(gu), cs.S("%s" % (salt,)),
                "None" if fresh[gc] else "(Some %s)" % cs.S(sub)), rec))
            return sub

        # ---- reference: plain requests (twice: the second through the cookie-less front channel again)
        for u in sess.USERS:
            for c in sess.CLIENTS:
                for rep in range(2):
                    n[0] += 1
                    status, gi, views = request_flow(rs, u, c, "front", {}, jwt, n[0])
                    if status != "ok":
                        ctx.notes.append("request-content: plain login failed (%s)" % status)
                        continue
                    rec = dict(desc, user=u, client=c, where="plain", views=views)
                    ctx.case_seen(rec, all(v is not None for v in views.values()))
                    if len(set(views.values())) != 1:
                        ctx.violation("inconsistent-views", "sub differs across release points: %r" % views, rec)
                    if fresh[c]:
                        if views["grant"] in eph_seen:
                            ctx.violation("ephemeral-repeat", "ephemeral subs repeat: %s" % views["grant"], rec)
                        eph_seen.add(views["grant"])
                    elif refs.setdefault((u, c), views["grant"]) != views["grant"]:
                        ctx.violation("unstable", "user %s at %s (%s) got different subs over two plain logins" % (u, c, typ[c]), rec)
        for u in sess.USERS:
            for a in sess.CLIENTS:
                for b in sess.CLIENTS:
                    if a < b and (u, a) in refs and (u, b) in refs and typ[a] == typ[b] == "pairwise" and sector[a] != sector[b] \
                            and refs[(u, a)] == refs[(u, b)]:
                        ctx.violation("pairwise-sectors-equal", "pairwise subs equal across sectors %s / %s" % (sector[a], sector[b]),
                                      dict(desc, user=u, clients=[a, b]))
        # ---- single-parameter matrix: every parameter x value x place, at every client (the first user; exhaustive for the
        #      first `budget["full"]` clients of this provider, sampled for the others), then several parameters at once
        order = sorted(sess.CLIENTS, key=lambda c: {"pairwise": 0, "ephemeral": 1, "public": 2}[typ[c]])
        for ci, c in enumerate(order):
            u = sess.USERS[(pi + ci) % len(sess.USERS)]
            cat = ext_catalogue(rs, u, c, refs)
            combos = [(where, name, v, rel) for name, v, rel in cat for where in WHERES
                      if not (name == "client_id" and where in ("front", "cookie"))]
            if ci >= budget["full"]:
                # every parameter name and every place stay covered; the values are drawn
                rng.shuffle(combos)
                keep, hw, hn = [], set(), set()
                for x in combos:
                    if x[0] not in hw or x[1] not in hn or len(keep) < budget["sample"]:
                        hw.add(x[0])
                        hn.add(x[1])
                        keep.append(x)
                combos = keep
            for where, name, v, rel in combos:
                one(u, c, where, {name: v}, rel)
            for _ in range(budget["multi"]):
                u2 = rng.choice(sess.USERS)
                cat2 = cat if u2 == u else ext_catalogue(rs, u2, c, refs)
                ext = {}
                for name, v, rel in rng.sample(cat2, rng.randint(2, 5)):
                    ext.setdefault(name, v)
                where = rng.choice(WHERES)
                if where in ("front", "cookie"):
                    ext.pop("client_id", None)
                if ext:
                    one(u2, c, where, ext, "several")
    finally:
        rs.close()


def request_content(ctx):
    """the request-content family over the provider variants of this driver: built-in minters (opaque / JWT access tokens),
    the documented PublicID / PairWiseID configuration, a drawn configuration; registrations with sector_id /
    sector_identifier_uri / no registered sector (redirect host), public / pairwise / ephemeral clients; and registrations whose
    sector has NO host"""
    rng = ctx.rng
    documented = [("public", {"how": "class-str", "kind": ("PublicID", OWN_SALTS[0])}),
                  ("pairwise", {"how": "class-str", "kind": ("PairWiseID", OWN_SALTS[1])})]
    provs = [
        # (jwt, registrations, configured minters, budget)
        (True, {"client_1": {"subject_type": "pairwise", "sector_identifier_uri": SECTORS[1]},
                "client_2": {"subject_type": "pairwise", "sector_id": SECTORS[2]},
                "client_12": {"subject_type": "pairwise"}}, None, {"full": 1, "sample": 40, "multi": 12}),
        (False, {"client_1": {"subject_type": "ephemeral"},
                 "client_2": {"subject_type": "pairwise", "sector_identifier_uri": SECTORS[4]},
                 "client_12": {}}, None, {"full": 0, "sample": 60, "multi": 10}),
        (False, {"client_1": {"subject_type": "pairwise", "sector_id": SECTORS[3]},
                 "client_2": {"subject_type": "public", "sector_identifier_uri": SECTORS[2]},
                 "client_12": {"subject_type": "pairwise", "sector_identifier_uri": SECTORS[2]}}, documented, {"full": 0, "sample": 60, "multi": 10}),
        (True, {"client_1": {"subject_type": "pairwise"},
                "client_2": {"subject_type": "ephemeral", "sector_id": SECTORS[1]},
                "client_12": {"subject_type": "pairwise", "sector_id": SECTORS[1]}},
         draw_spec(rng, rng.choice([("pairwise",), ("pairwise", "public"), ("public", "pairwise", "ephemeral")])),
         {"full": 0, "sample": 40, "multi": 8}),
        # registrations whose sector has no host
        (False, {"client_1": {"subject_type": "pairwise", "sector_id": HOSTLESS_SECTORS[0]},
                 "client_2": {"subject_type": "pairwise", "sector_identifier_uri": SECTORS[2]},
                 "client_12": {"subject_type": "pairwise", "sector_identifier_uri": HOSTLESS_SECTORS[1]}}, None,
         {"full": 1, "sample": 30, "multi": 6}),
    ]
    if not ctx.quick:
        for k in range(12):
            types = list(TYPE_PATTERNS[k % len(TYPE_PATTERNS)])
            rng.shuffle(types)
            over = {}
            for c, st in zip(sess.CLIENTS, types):
                rec = {"subject_type": st} if st else {}
                sec = rng.choice(SECTORS + HOSTLESS_SECTORS[:1])
                if sec:
                    rec[rng.choice(["sector_id", "sector_identifier_uri"])] = sec
                over[c] = rec
            spec = None if k % 3 == 0 else draw_spec(rng, rng.choice([o for m in (1, 2, 3) for o in itertools.permutations(STD_KEYS, m)]))
            provs.append((k % 2 == 0, over, spec, {"full": 3, "sample": 0, "multi": 40}))
    rcases = []
    import logging
    lg = logging.getLogger("idpyoidc.message.oauth2")      # (a request object restating front channel members: one warning each)
    lvl = lg.level
    lg.setLevel(logging.ERROR)
    try:
        for pi, (jwt, over, spec, budget) in enumerate(provs):
            ctx.count("request-content:providers")
            request_provider(ctx, pi, jwt, over, spec, rcases, budget)
    finally:
        lg.setLevel(lvl)
    cs.check_cases(ctx, ["Lib.Base", "Lib.PyStr", "Model.Sub"], "rsub_case", "chk_rsub", rcases, shard=150, label="rsub")


def run(ctx):
    rng = ctx.rng
    source_tie(ctx)
    n_srv = 6 if ctx.quick else 80
    cases = []
    for si in range(n_srv):
        jwt = si % 2 == 1
        over = {}
        for c in sess.CLIENTS:
            rec = {}
            st = rng.choice(TYPES) if si > 0 else {"client_1": "pairwise", "client_2": "pairwise", "client_12": "public"}[c]
            if st:
                rec["subject_type"] = st
            sec = rng.choice(SECTORS) if si > 0 else {"client_1": SECTORS[1], "client_2": SECTORS[2], "client_12": None}[c]
            if sec:
                rec[rng.choice(["sector_id", "sector_identifier_uri"])] = sec
            over[c] = rec
        if si == 1:      # same sector through different sources and spellings
            over = {"client_1": {"subject_type": "pairwise", "sector_id": SECTORS[1]},
                    "client_2": {"subject_type": "pairwise", "sector_identifier_uri": SECTORS[3]},
                    "client_12": {"subject_type": "ephemeral"}}
        one_provider(ctx, cases, si, jwt, over)
    dynamic_registration(ctx, cases)
    handover(ctx, cases)
    other_providers(ctx, cases)
    configured_providers(ctx, cases)
    salt_lifecycle(ctx)
    request_content(ctx)
    ctx.coq_check_cases(["Lib.Base", "Lib.PyStr", "Model.Sub"], "sub_case", "chk_sub", cases, shard=60, label="sub")


def replay(ctx, rp):
    run(ctx)
