"""C18 driver — subject identifiers: consistent across the four release points, stable, typed, opaque."""
import ast
import copy
import base64
import hashlib
import inspect
import json
from urllib.parse import urlparse

import itertools

import sess
import srv
import c18_minters as cm
import c18_salts as cs
from engine import coq_str, coq_list, coq_opt

RULE = ("providers with 3 clients whose registrations draw subject_type from {absent, public, pairwise, ephemeral}, sector_id / "
        "sector_identifier_uri from {absent, two hosts, host with port/userinfo/upper case}, opaque and JWT access tokens, OIDC; login "
        "sequences of 3 users at the 3 clients (two logins per pair); for every grant the sub is read from the ID Token, userinfo, "
        "introspection and (JWT) access token; a case is one grant; non-trivial when all release points answered. "
        "CONFIGURED SUBJECT MINTERS: providers whose session_params.sub_func names minters for one, two or three subject types in every "
        "order of the dict (library classes PublicID / PairWiseID by dotted name and as class objects, salt given or read from a file; the "
        "library's functions; plain functions by dotted name and as objects, with their own salt or using the session salt; skipped "
        "entries and keys no client uses), the same login sequences and release points; plus the provider's sub_func table itself, probed "
        "key by key on providers with arbitrary (also cross-plugged) entries. "
        "LIFE OF A DEPLOYMENT: for every way a salt reaches the minters (PublicID / PairWiseID with a given salt; with a salt file that "
        "exists - plain, trailing newline / CRLF, blanks, empty, CR inside, several lines, non-ASCII, BOM, written by another process; "
        "with a salt file that does not exist at first start; one file shared by two entries; salt and file both given; the session "
        "salt through the library's functions; nothing configured; session state handed over by dump / load; a directory in place of "
        "the file) three provider instances are built one after another from the same configuration; the same users log in at the "
        "same clients at every instance (all release points), the files are looked at before and after every start-up.")
ASSUMPTIONS = ["SHA-256 is collision free (hypothesis H_inj of the pairwise theorem)", "urlparse(..).hostname is an environment function; "
               "its values are taken from urllib for the sector sources that occur", "uuid4 values are fresh"]

SECTORS = [None, "https://sector-a.example.org/uris.json", "https://sector-b.example.org/uris.json",
           "https://SECTOR-A.example.org:8443/x", "https://user@sector-b.example.org/y"]
TYPES = [None, "public", "pairwise", "ephemeral"]


def jwt_payload(tok):
    return json.loads(base64.urlsafe_b64decode(tok.split(".")[1] + "=="))


def host(x):
    return urlparse(x).hostname or ""


def source_tie(ctx):
    """all four release points publish grant.sub (static check on the current source)"""
    import idpyoidc.server.token.id_token as m1
    import idpyoidc.server.oidc.userinfo as m2
    import idpyoidc.server.session.grant as m3
    import idpyoidc.server.oauth2.introspection as m4
    sites = [(m1.IDToken.payload, "IDToken.payload"), (m2.UserInfo.process_request, "UserInfo.process_request"),
             (m3.Grant.payload_arguments, "Grant.payload_arguments"), (m4.Introspection._introspect, "Introspection._introspect")]
    for fn, name in sites:
        src = inspect.getsource(fn)
        tree = ast.parse("class _X:\n" + src if src.startswith("    ") else src)
        reads = [n for n in ast.walk(tree) if isinstance(n, ast.Attribute) and n.attr == "sub"]
        if not reads:
            ctx.broken.append("source tie: %s no longer reads <grant>.sub" % name)


def model_case(reg, u, redirect, sub, salt):
    """the registration record as stored, the hash and host tables the model needs, and the sub the grant got"""
    if not isinstance(salt, str):
        salt = "{}".format(salt)        # an unpinned salt is bytes; the sub functions format it into the text they hash
    st = reg.get("subject_type") or "public"
    srcs = [x for x in (reg.get("sector_id"), reg.get("sector_identifier_uri"), redirect) if x]
    hosts = [(x, host(x)) for x in srcs]
    pre = [u + salt] + [u + h + salt for _, h in hosts]
    ht = [(x, hashlib.sha256(x.encode()).hexdigest()) for x in pre]
    return "(%s, %s, mkCreg %s %s %s, %s, %s, %s, %s)" % (
        coq_list(["(%s, %s)" % (coq_str(a), coq_str(b)) for a, b in ht], "(pystr * pystr)"),
        coq_list(["(%s, %s)" % (coq_str(a), coq_str(b)) for a, b in hosts], "(pystr * pystr)"),
        coq_opt(reg.get("subject_type"), coq_str, "pystr"), coq_opt(reg.get("sector_id"), coq_str, "pystr"),
        coq_opt(reg.get("sector_identifier_uri"), coq_str, "pystr"),
        coq_str(redirect), coq_str(u), coq_str(salt),
        "None" if st == "ephemeral" else "(Some %s)" % coq_str(sub))


SECTOR_DOCS = {"https://sector.alpha.example/rps.json": ["https://app1.alpha.example/cb", "https://app2.alpha.example/cb"],
               "https://sector.beta.example:8443/rps.json": ["https://app.beta.example/cb"]}
DYN_CLIENTS = [("a1", "https://app1.alpha.example/cb", "https://sector.alpha.example/rps.json", "pairwise"),
               ("a2", "https://app2.alpha.example/cb", "https://sector.alpha.example/rps.json", "pairwise"),
               ("b", "https://app.beta.example/cb", "https://sector.beta.example:8443/rps.json", "pairwise"),
               ("solo", "https://solo.gamma.example/cb", None, "pairwise"),
               ("pub", "https://pub.delta.example/cb", None, "public")]


def dynamic_registration(ctx, cases):
    """clients that registered themselves at the registration endpoint (sector_identifier_uri fetched over a mocked
    HTTP layer); the ground truth for the sector is what the client ASKED for, not what the provider stored"""
    import responses
    rs = sess.RealSession(oidc=True, jwt_access=False)
    try:
        salt = rs.sm.get_salt()
        ep = rs.server.get_endpoint("registration")
        cid = {}
        with responses.RequestsMock(assert_all_requests_are_fired=False) as rsps:
            for uri, doc in SECTOR_DOCS.items():
                rsps.add("GET", uri, body=json.dumps(doc), status=200, content_type="application/json")
            for name, ru, sector, st in DYN_CLIENTS:
                req = {"redirect_uris": [ru], "subject_type": st, "response_types": ["code"], "application_type": "web",
                       "token_endpoint_auth_method": "client_secret_post", "grant_types": ["authorization_code"]}
                if sector:
                    req["sector_identifier_uri"] = sector
                try:
                    p = ep.parse_request(json.dumps(req))
                    r = ep.process_request(p)
                    ra = r.get("response_args", r)
                    cid[name] = ra["client_id"]
                except Exception as e:
                    ctx.notes.append("dynamic registration of %s failed: %r" % (name, e))
        subs = {}
        for u in sess.USERS[:2]:
            for name, ru, sector, st in DYN_CLIENTS:
                if name not in cid:
                    continue
                o = rs.op_authz(u, cid[name], ["openid"], extra={"redirect_uri": ru})
                if o[0] != "ok" or not o[1]:
                    ctx.notes.append("authorization at dynamically registered %s failed: %r" % (name, o))
                    continue
                g = rs.grants[rs.tok_grant[o[1][0]]][1]
                subs[(u, name)] = g.sub
                rec = {"dynamic": True, "user": u, "client": name, "subject_type": st, "asked_sector": sector, "redirect": ru, "sub": g.sub}
                ctx.case_seen(rec, True)
                ctx.count("dynamic:%s" % st)
                cases.append((model_case(rs.ctx.cdb[cid[name]], u, ru, g.sub, salt), rec))
                if u in g.sub:
                    ctx.violation("uid-in-clear", "sub %r contains the user id %r" % (g.sub, u), rec)
        # ---- the stored registration is what Model/Sub.v registered_record says it is
        regs = []
        for name, ru, sector, st in DYN_CLIENTS:
            if name in cid:
                reg = rs.ctx.cdb[cid[name]]
                regs.append(("(%s, %s, mkCreg %s %s %s)" % (
                    coq_opt(st, coq_str, "pystr"), coq_opt(sector, coq_str, "pystr"),
                    coq_opt(reg.get("subject_type"), coq_str, "pystr"), coq_opt(reg.get("sector_id"), coq_str, "pystr"),
                    coq_opt(reg.get("sector_identifier_uri"), coq_str, "pystr")),
                    {"dynamic": True, "client": name, "asked": [st, sector],
                     "stored": [reg.get("subject_type"), reg.get("sector_id"), reg.get("sector_identifier_uri")]}))
        ctx.coq_check_cases(["Lib.Base", "Lib.PyStr", "Model.Sub"], "option pystr * option pystr * creg", "chk_registered", regs, label="registered")
        truth = {name: (st, host(sector or ru)) for name, ru, sector, st in DYN_CLIENTS}
        for u in sess.USERS[:2]:
            for a in truth:
                for b in truth:
                    if a >= b or (u, a) not in subs or (u, b) not in subs:
                        continue
                    (ta, sa), (tb, sb) = truth[a], truth[b]
                    rec = {"dynamic": True, "user": u, "clients": [a, b], "types": [ta, tb], "sectors": [sa, sb], "subs": [subs[(u, a)], subs[(u, b)]]}
                    if ta == tb == "pairwise" and sa == sb and subs[(u, a)] != subs[(u, b)]:
                        ctx.violation("pairwise-same-sector-differs", "pairwise subs differ within sector %s (dynamic registration)" % sa, rec)
                    if ta == tb == "pairwise" and sa != sb and subs[(u, a)] == subs[(u, b)]:
                        ctx.violation("pairwise-sectors-equal", "pairwise subs equal across sectors %s / %s (dynamic registration)" % (sa, sb), rec)
                    if {ta, tb} == {"pairwise", "public"} and subs[(u, a)] == subs[(u, b)]:
                        ctx.violation("pairwise-equals-public", "the pairwise sub of %s at %s equals the public sub" % (u, a if ta == "pairwise" else b), rec)
        us = sess.USERS[:2]
        for name in truth:
            if (us[0], name) in subs and (us[1], name) in subs and subs[(us[0], name)] == subs[(us[1], name)]:
                ctx.violation("users-share-sub", "users %s and %s share a sub at %s" % (us[0], us[1], name), {"client": name})
    finally:
        rs.close()


def handover(ctx, cases):
    """the session state moves to another provider instance built from the same configuration (dump / load of the
    session manager): a known user logging in again there gets the sub it had (public / pairwise)"""
    over = {"client_1": {"subject_type": "pairwise", "sector_identifier_uri": SECTORS[1]},
            "client_2": {"subject_type": "public"},
            "client_12": {"subject_type": "pairwise", "sector_id": SECTORS[2]}}
    # no session salt / password pinned in the configuration (the default): the instances draw their own and the
    # dumped state carries the first one's
    old_mk = srv.make_server

    def mk(*a, **k):
        k.setdefault("pinned", False)
        return old_mk(*a, **k)
    srv.make_server = mk
    try:
        rs1 = sess.RealSession(oidc=True, jwt_access=False, client_over=copy.deepcopy(over))
    finally:
        srv.make_server = old_mk
    rs2 = rs3 = None
    try:
        before = {}
        for u in sess.USERS[:2]:
            for c in sess.CLIENTS:
                o = rs1.op_authz(u, c, ["openid"])
                if o[0] == "ok" and o[1]:
                    before[(u, c)] = rs1.grants[rs1.tok_grant[o[1][0]]][1].sub
        state = rs1.sm.dump()
        srv.make_server = mk
        try:
            rs2 = sess.RealSession(oidc=True, jwt_access=False, client_over=copy.deepcopy(over))
        finally:
            srv.make_server = old_mk
        rs2.sm.load(copy.deepcopy(state))
        salt2 = rs2.sm.get_salt()
        for (u, c), sub1 in before.items():
            o = rs2.op_authz(u, c, ["openid"])
            if o[0] != "ok" or not o[1]:
                ctx.notes.append("handover: login on the second instance failed %r" % (o,))
                continue
            g = rs2.find_grant_of_code(o[1][0]) if hasattr(rs2, "find_grant_of_code") else rs2.grants[rs2.tok_grant[o[1][0]]][1]
            st = rs2.ctx.cdb[c].get("subject_type") or "public"
            rec = {"handover": True, "user": u, "client": c, "subject_type": st, "sub_before": sub1, "sub_after": g.sub}
            ctx.case_seen(rec, True)
            ctx.count("handover:%s" % st)
            if st != "ephemeral" and g.sub != sub1:
                ctx.violation("unstable", "after the session state moved to another instance user %s at %s (%s) got another sub" % (u, c, st), rec)
            cases.append((model_case(rs2.ctx.cdb[c], u, "https://%s.example.com/cb" % c, g.sub, salt2), rec))
        # ---- and on to a third instance (the second one's state, which now holds both its own grants and the first one's)
        state2 = rs2.sm.dump()
        srv.make_server = mk
        try:
            rs3 = sess.RealSession(oidc=True, jwt_access=False, client_over=copy.deepcopy(over))
        finally:
            srv.make_server = old_mk
        rs3.sm.load(copy.deepcopy(state2))
        salt3 = rs3.sm.get_salt()
        for (u, c), sub1 in before.items():
            o = rs3.op_authz(u, c, ["openid"])
            if o[0] != "ok" or not o[1]:
                ctx.notes.append("handover: login on the third instance failed %r" % (o,))
                continue
            g = rs3.grants[rs3.tok_grant[o[1][0]]][1]
            st = rs3.ctx.cdb[c].get("subject_type") or "public"
            rec = {"handover": "third instance", "user": u, "client": c, "subject_type": st, "sub_before": sub1, "sub_after": g.sub}
            ctx.case_seen(rec, True)
            ctx.count("handover-3:%s" % st)
            if st != "ephemeral" and g.sub != sub1:
                ctx.violation("unstable", "after the session state moved on to a third instance user %s at %s (%s) got another sub" % (u, c, st), rec)
            cases.append((model_case(rs3.ctx.cdb[c], u, "https://%s.example.com/cb" % c, g.sub, salt3), rec))
    finally:
        rs1.close()
        if rs2 is not None:
            rs2.close()
        if rs3 is not None:
            rs3.close()


def other_providers(ctx, cases):
    """another provider in the same process, configured with its own subject functions (session_params.sub_func:
    PublicID / PairWiseID with their own salt), does not change the subs a provider hands out - neither of one that
    already runs nor of one created afterwards"""
    over = {"client_1": {"subject_type": "pairwise", "sector_identifier_uri": SECTORS[1]}, "client_2": {"subject_type": "public"}}
    old_mk = srv.make_server

    def mk_tenant(*a, **k):
        k = dict(k)
        extra = dict(k.get("extra") or {})
        cc = srv.crypt_config()
        extra["session_params"] = {"encrypter": cc, "sub_func": {
            "public": {"class": "idpyoidc.server.session.manager.PublicID", "kwargs": {"salt": "tenant-salt-public"}},
            "pairwise": {"class": "idpyoidc.server.session.manager.PairWiseID", "kwargs": {"salt": "tenant-salt-pairwise"}}}}
        k["extra"] = extra
        return old_mk(*a, **k)
    plain = sess.RealSession(oidc=True, client_over=copy.deepcopy(over))
    tenant = late = None
    try:
        def subs_of(rs, tag):
            out = {}
            for u in sess.USERS[:2]:
                for c in ("client_1", "client_2"):
                    o = rs.op_authz(u, c, ["openid"])
                    if o[0] == "ok" and o[1]:
                        out[(u, c)] = rs.grants[rs.tok_grant[o[1][0]]][1].sub
                        rec = {"other_provider": tag, "user": u, "client": c, "sub": out[(u, c)]}
                        ctx.case_seen(rec, True)
                        cases.append((model_case(rs.ctx.cdb[c], u, "https://%s.example.com/cb" % c, out[(u, c)], rs.sm.get_salt()), rec))
            return out
        before = subs_of(plain, "plain-before")
        srv.make_server = mk_tenant
        try:
            tenant = sess.RealSession(oidc=True, client_over=copy.deepcopy(over))
        finally:
            srv.make_server = old_mk
        tsubs = {}
        for u in sess.USERS[:2]:
            o = tenant.op_authz(u, "client_2", ["openid"])
            if o[0] == "ok" and o[1]:
                tsubs[u] = tenant.grants[tenant.tok_grant[o[1][0]]][1].sub
        after = subs_of(plain, "plain-after")
        late = sess.RealSession(oidc=True, client_over=copy.deepcopy(over))
        lsubs = subs_of(late, "late")
        ctx.count("other-providers:logins", len(before) + len(after) + len(lsubs))
        for k, v in before.items():
            if after.get(k) != v:
                ctx.violation("unstable", "the sub of %s at %s changed after another provider with its own subject functions was created in the process" % k,
                              {"user": k[0], "client": k[1], "before": v, "after": after.get(k)})
        for u, ts in tsubs.items():
            if lsubs.get((u, "client_2")) == ts and before.get((u, "client_2")) != ts:
                ctx.violation("unstable", "a provider created later hands out the subs of the differently configured provider (%s)" % u, {"user": u})
    finally:
        for r in (plain, tenant, late):
            if r is not None:
                r.close()


def configured_session(spec, **kw):
    """a RealSession whose provider is configured with session_params.sub_func = the dict `spec` describes (None: key absent)"""
    if spec is None:
        return sess.RealSession(**kw)
    old_mk = srv.make_server

    def mk(*a, **k):
        k["sub_func"] = {key: cm.conf_entry(e) for key, e in spec}
        return old_mk(*a, **k)
    srv.make_server = mk
    try:
        return sess.RealSession(**kw)
    finally:
        srv.make_server = old_mk


def model_case_conf(spec, reg, u, redirect, sub, salt):
    """as model_case, for a provider with configured minters: the configuration in dict order goes to the model, the hash table
    holds the digest of every text ANY minter of the configuration or a built-in one would hash for this user / client"""
    st = reg.get("subject_type") or "public"
    srcs = [x for x in (reg.get("sector_id"), reg.get("sector_identifier_uri"), redirect) if x]
    hosts = [(x, host(x)) for x in srcs]
    pre = cm.preimages(spec, u, salt, [h for _, h in hosts])
    ht = [(x, hashlib.sha256(x.encode("utf-8")).hexdigest()) for x in pre]
    fresh = cm.effective_recipe(spec, st) is None
    return "(%s, %s, %s, mkCreg %s %s %s, %s, %s, %s, %s)" % (
        coq_list(["(%s, %s)" % (coq_str(a), coq_str(b)) for a, b in ht], "(pystr * pystr)"),
        coq_list(["(%s, %s)" % (coq_str(a), coq_str(b)) for a, b in hosts], "(pystr * pystr)"),
        cm.coq_conf(spec),
        coq_opt(reg.get("subject_type"), coq_str, "pystr"), coq_opt(reg.get("sector_id"), coq_str, "pystr"),
        coq_opt(reg.get("sector_identifier_uri"), coq_str, "pystr"),
        coq_str(redirect), coq_str(u), coq_str(salt),
        "None" if fresh else "(Some %s)" % coq_str(sub))


def expected_sub(spec, key, uid, salt, sector):
    """ORACLE: what the minter the configuration names for `key` produces when called directly (a fresh instance of the
    named class / the named function; the library's built-in function of that name when the configuration names none).
    None for fresh-value minters (their rule is freshness) and for keys nothing serves."""
    from idpyoidc.server.session import manager as m
    e = cm.effective(spec, key)
    if e is None:
        if key not in ("public", "pairwise"):
            return None
        f = {"public": m.public_id, "pairwise": m.pairwise_id}[key]
    else:
        if cm.recipe(e) is None:
            return None
        f = cm.direct(e)
    return f(uid, salt=salt, sector_identifier=sector)


PROBE_ARGS = [("diana", "sector-a.example.org"), ("diana", "sector-b.example.org"), ("babs", "sector-a.example.org"), ("dian", "")]


def table_probe(ctx, server, spec, tcases, kcases, tag):
    """the provider's sub_func table itself, key by key: sub_func[key](uid, salt=.., sector_identifier=..) as create_grant
    calls it, against the model's table (do_sub_func loop + defaults) and against the configured entry asked directly"""
    sm = server.context.session_manager
    salt = sm.get_salt()
    keys = list(sm.sub_func.keys())
    kcases.append(("(%s, %s)" % (cm.coq_conf(spec), coq_list([coq_str(k) for k in keys], "pystr")),
                   {"table_keys": keys, "sub_func": cm.describe(spec), "where": tag}))
    want_keys = set(k for k, e in spec if e["how"] != "skip") | {"public", "pairwise", "ephemeral"}
    if set(keys) != want_keys:
        ctx.violation("configured-minter-not-used", "the provider's sub_func table has keys %r, the configuration %r asks for %r"
                      % (keys, cm.describe(spec), sorted(want_keys)), {"sub_func": cm.describe(spec), "where": tag})
    for key in keys:
        rcp = cm.effective_recipe(spec, key)
        vals = []
        for uid, sector in PROBE_ARGS:
            try:
                got = sm.sub_func[key](uid, salt=salt, sector_identifier=sector)
            except Exception as ex:
                got = "raised %r" % (ex,)
            vals.append(got)
            rec = {"table_probe": True, "where": tag, "sub_func": cm.describe(spec), "key": key, "uid": uid, "sector": sector, "got": got}
            ctx.case_seen(rec, True)
            ctx.count("table:%s" % ("fresh" if rcp is None else "hash"))
            pre = cm.preimages(spec, uid, salt, [sector])
            ht = [(x, hashlib.sha256(x.encode("utf-8")).hexdigest()) for x in pre]
            tcases.append(("(%s, %s, %s, %s, %s, %s, %s)" % (
                coq_list(["(%s, %s)" % (coq_str(a), coq_str(b)) for a, b in ht], "(pystr * pystr)"), cm.coq_conf(spec),
                coq_str(key), coq_str(uid), coq_str(salt), coq_str(sector),
                "None" if rcp is None else "(Some %s)" % coq_str(got)), rec))
            want = expected_sub(spec, key, uid, salt, sector)
            if want is not None and got != want:
                ctx.violation("configured-minter-not-used", "sub_func[%r] of a provider configured with %r gives %s for (%s, %s); the "
                              "minter configured for %r gives %s" % (key, cm.describe(spec), got, uid, sector, key, want), rec)
            if rcp is not None and uid in got:
                ctx.violation("uid-in-clear", "sub %r contains the user id %r" % (got, uid), rec)
        if rcp is None:
            hashes = set(hashlib.sha256(x.encode("utf-8")).hexdigest() for u_, s_ in PROBE_ARGS for x in cm.preimages(spec, u_, salt, [s_]))
            if len(set(vals)) != len(vals) or set(vals) & hashes:
                ctx.violation("ephemeral-repeat", "the fresh-value minter serving %r repeats / returns a hashed sub: %r" % (key, vals),
                              {"sub_func": cm.describe(spec), "key": key, "where": tag})


def one_provider(ctx, cases, si, jwt, over, spec=None, ccases=None, tcases=None, kcases=None):
    """one provider, the login sequences, the four release points, the oracles.  spec: configured subject minters
    (c18_minters spec; None = nothing configured, the built-in minters)"""
    if True:        # (block kept at the indentation it had inside run's loop)
        rs = configured_session(spec, oidc=True, jwt_access=jwt, client_over=over)
        try:
            salt = rs.sm.get_salt()
            if spec is not None:
                table_probe(ctx, rs.server, spec, tcases, kcases, "provider %s" % si)
            seen = {}       # (user, client) -> list of subs
            grants = []
            for rnd in range(2):
                for u in sess.USERS:
                    for c in sess.CLIENTS:
                        n0 = len(rs.tokens)
                        o = rs.run(("authz", u, c, ["openid", "email", "offline_access"]))
                        if o[0] != "ok":
                            ctx.notes.append("authz failed: %r" % (o,))
                            continue
                        code = o[1][0]
                        rs.run(("tparse", c, ("tok", code), "same"))
                        p = rs.run(("proc", len(rs.parsed) - 1, None))
                        if p[0] != "ok":
                            ctx.notes.append("token request failed: %r" % (p,))
                            continue
                        g = rs.grants[rs.tok_grant[code]][1]
                        views = {"grant": g.sub}
                        idt = rs.tokens[p[1]["id_token"]]
                        views["id_token"] = jwt_payload(idt)["sub"]
                        at = p[1]["access_token"]
                        ui = rs.run(("userinfo", ("tok", at)))
                        views["userinfo"] = ui[1] if ui[0] == "ok" else None
                        it = rs.run(("introspect", c, ("tok", at)))
                        views["introspection"] = it[3] if it[0] == "active" else None
                        if jwt:
                            views["jwt_access_token"] = jwt_payload(rs.tokens[at]).get("sub")
                        reg = rs.ctx.cdb[c]
                        rec = {"user": u, "client": c, "subject_type": reg.get("subject_type"), "sector_id": reg.get("sector_id"),
                               "sector_identifier_uri": reg.get("sector_identifier_uri"), "views": views, "jwt_access": jwt}
                        if spec is not None:
                            rec["sub_func"] = cm.describe(spec)
                        ctx.case_seen(rec, all(v is not None for v in views.values()))
                        ctx.count("type:%s" % reg.get("subject_type"))
                        grants.append(rec)
                        # ---- oracle: consistency
                        vals = set(views.values())
                        if len(vals) != 1:
                            ctx.violation("inconsistent-views", "sub differs across release points: %r" % views, rec)
                        sub = g.sub
                        seen.setdefault((u, c), []).append(sub)
                        # ---- oracle: opacity
                        if u in sub:
                            ctx.violation("uid-in-clear", "sub %r contains the user id %r" % (sub, u), rec)
                        # ---- model case
                        if spec is None:
                            cases.append((model_case(reg, u, "https://%s.example.com/cb" % c, sub, salt), rec))
                        else:
                            ccases.append((model_case_conf(spec, reg, u, "https://%s.example.com/cb" % c, sub, salt), rec))
                            # ---- oracle: the client gets what the minter configured for ITS subject type produces when asked
                            #      directly (the built-in function of that name when the configuration names none)
                            st = reg.get("subject_type") or "public"
                            ctx.count("configured:%s:%s" % (st, (cm.effective(spec, st) or {"how": "built-in"})["how"]))
                            want = expected_sub(spec, st, u, salt, host(reg.get("sector_id") or reg.get("sector_identifier_uri")
                                                                        or "https://%s.example.com/cb" % c))
                            if want is not None and sub != want:
                                ctx.violation("configured-minter-not-used", "client %s (subject type %s) of a provider configured with sub_func %r "
                                              "got sub %s for user %s; the minter configured for %s produces %s"
                                              % (c, st, cm.describe(spec), sub, u, st, want), rec)
            # ---- a further authorization request from the same browser (session cookie of the first response replayed),
            #      same client, other state/nonce: a new grant under the live session
            for u in sess.USERS[:2]:
                for c in sess.CLIENTS:
                    o1 = rs.op_authz(u, c, ["openid", "email"])
                    ck = rs.last_cookie
                    if o1[0] != "ok" or not ck:
                        continue
                    g1 = rs.grants[rs.tok_grant[o1[1][0]]][1]
                    o2 = rs.op_authz(u, c, ["openid", "profile"], extra={"state": "other-state", "nonce": "other-nonce"}, cookie=ck)
                    if o2[0] != "ok":
                        continue
                    g2 = rs.grants[rs.tok_grant[o2[1][0]]][1]
                    st = rs.ctx.cdb[c].get("subject_type") or "public"
                    rec = {"user": u, "client": c, "subject_type": st, "cookie_flow": True, "same_grant": g1 is g2, "subs": [g1.sub, g2.sub]}
                    ctx.case_seen(rec, True)
                    ctx.count("cookie-flow:%s:%s" % (st, "same-grant" if g1 is g2 else "new-grant"))
                    if g1 is not g2:
                        if st == "ephemeral" and g1.sub == g2.sub:
                            ctx.violation("ephemeral-repeat", "two grants of one browser session at ephemeral client %s share sub %s" % (c, g1.sub), rec)
                        if st != "ephemeral" and g1.sub != g2.sub:
                            ctx.violation("unstable", "second grant in the same browser session got another sub (%s at %s)" % (u, c), rec)
                        seen.setdefault((u, c), []).append(g2.sub)
            # ---- oracle: stability, type rules (written from the property text)
            eph = []
            for (u, c), subs in seen.items():
                st = rs.ctx.cdb[c].get("subject_type") or "public"
                if st != "ephemeral" and len(set(subs)) != 1:
                    ctx.violation("unstable", "user %s at %s (%s) got different subs over two logins: %r" % (u, c, st, subs), {"user": u, "client": c})
                if st == "ephemeral":
                    eph += subs
            if len(set(eph)) != len(eph):
                ctx.violation("ephemeral-repeat", "ephemeral subs repeat: %r" % eph, {"server": si})

            def sector(c):
                reg = rs.ctx.cdb[c]
                return host(reg.get("sector_id") or reg.get("sector_identifier_uri") or "https://%s.example.com/cb" % c)
            for u in sess.USERS:
                for a in sess.CLIENTS:
                    for b in sess.CLIENTS:
                        if a >= b or (u, a) not in seen or (u, b) not in seen:
                            continue
                        ta = rs.ctx.cdb[a].get("subject_type") or "public"
                        tb = rs.ctx.cdb[b].get("subject_type") or "public"
                        sa, sb = seen[(u, a)][0], seen[(u, b)][0]
                        ctxrec = {"user": u, "clients": [a, b], "types": [ta, tb], "sectors": [sector(a), sector(b)], "subs": [sa, sb]}
                        if ta == tb == "public" and sa != sb:
                            ctx.violation("public-differs", "public subs of %s differ between %s and %s" % (u, a, b), ctxrec)
                        if ta == tb == "pairwise":
                            if sector(a) == sector(b) and sa != sb:
                                ctx.violation("pairwise-same-sector-differs", "pairwise subs differ within sector %s" % sector(a), ctxrec)
                            if sector(a) != sector(b) and sa == sb:
                                ctx.violation("pairwise-sectors-equal", "pairwise subs equal across sectors %s / %s" % (sector(a), sector(b)), ctxrec)
            for a in sess.USERS:
                for b in sess.USERS:
                    for c in sess.CLIENTS:
                        if a < b and (a, c) in seen and (b, c) in seen and seen[(a, c)][0] == seen[(b, c)][0]:
                            ctx.violation("users-share-sub", "users %s and %s share a sub at %s" % (a, b, c), {"client": c})
        finally:
            rs.close()



def session_with(sub_func, **kw):
    """a RealSession whose provider is configured with session_params.sub_func = this very dict (None: key absent)"""
    if sub_func is None:
        return sess.RealSession(**kw)
    old_mk = srv.make_server

    def mk(*a, **k):
        k["sub_func"] = sub_func
        return old_mk(*a, **k)
    srv.make_server = mk
    try:
        return sess.RealSession(**kw)
    finally:
        srv.make_server = old_mk


def login_views(ctx, rs, u, c, jwt):
    """one complete login of user u at client c through the real endpoints: the sub at every release point (None: the flow failed)"""
    o = rs.run(("authz", u, c, ["openid", "email", "offline_access"]))
    if o[0] != "ok":
        ctx.notes.append("authz failed: %r" % (o,))
        return None
    code = o[1][0]
    rs.run(("tparse", c, ("tok", code), "same"))
    p = rs.run(("proc", len(rs.parsed) - 1, None))
    if p[0] != "ok":
        ctx.notes.append("token request failed: %r" % (p,))
        return None
    g = rs.grants[rs.tok_grant[code]][1]
    views = {"grant": g.sub, "id_token": jwt_payload(rs.tokens[p[1]["id_token"]])["sub"]}
    at = p[1]["access_token"]
    ui = rs.run(("userinfo", ("tok", at)))
    views["userinfo"] = ui[1] if ui[0] == "ok" else None
    it = rs.run(("introspect", c, ("tok", at)))
    views["introspection"] = it[3] if it[0] == "active" else None
    if jwt:
        views["jwt_access_token"] = jwt_payload(rs.tokens[at]).get("sub")
    return views


N_INSTANCES = 3


def one_life(ctx, life, li, lcases, scases):
    """one deployment: N_INSTANCES provider instances built one after another from the same configuration (restart / further
    worker), the same users at the same clients at every instance; files and subs of every instance against the model, the subs
    across the instances against each other (ORACLE, from the property text: stable for the same user at the same client; public
    equal across clients; pairwise equal within a sector and different between sectors; users never share a sub)"""
    from idpyoidc.server.exception import ConfigurationError
    rng = ctx.rng
    cs.prepare(life)
    types = list(TYPE_PATTERNS[li % len(TYPE_PATTERNS)])
    rng.shuffle(types)
    over = {}
    for c, st in zip(sess.CLIENTS, types):
        rec = {}
        if st:
            rec["subject_type"] = st
        sec = rng.choice(SECTORS)
        if sec:
            rec[rng.choice(["sector_id", "sector_identifier_uri"])] = sec
        over[c] = rec
    jwt = li % 2 == 1
    desc = cs.describe(life)
    insts = []

    def sector(c):
        return host(over[c].get("sector_id") or over[c].get("sector_identifier_uri") or "https://%s.example.com/cb" % c)

    def typ(c):
        return over[c].get("subject_type") or "public"

    def logins(k, inst, users, tag):
        rs = inst["rs"]
        salt = rs.sm.get_salt()
        for u in users:
            for c in sess.CLIENTS:
                views = login_views(ctx, rs, u, c, jwt)
                if views is None:
                    continue
                reg = rs.ctx.cdb[c]
                rec = dict(desc, instance=k + 1, round=tag, files_before_start=inst["before"], files_after_start=inst["after"],
                           user=u, client=c, subject_type=reg.get("subject_type"), sector=sector(c), views=views, jwt_access=jwt)
                ctx.case_seen(rec, all(v is not None for v in views.values()))
                ctx.count("life-login:%s:instance-%d" % (typ(c), k + 1))
                if len(set(views.values())) != 1:
                    ctx.violation("inconsistent-views", "sub differs across release points: %r" % views, rec)
                sub = views["grant"]
                fresh = cm.effective_recipe(inst["spec"], typ(c)) is None
                if not fresh and u in sub:
                    ctx.violation("uid-in-clear", "sub %r contains the user id %r" % (sub, u), rec)
                inst["subs"].setdefault((u, c), []).append(sub)
                redirect = "https://%s.example.com/cb" % c
                srcs = [x for x in (reg.get("sector_id"), reg.get("sector_identifier_uri"), redirect) if x]
                hosts = [(x, host(x)) for x in srcs]
                pre = cm.preimages(inst["spec"], u, salt, [h for _, h in hosts])
                ht = [(x, hashlib.sha256(x.encode("utf-8")).hexdigest()) for x in pre]
                lcases.append(("(%s, %s, %s, %s, %s, mkCreg %s %s %s, %s, %s, %s, %s)" % (
                    cs.coq_pairs(ht), cs.coq_pairs(hosts), cs.coq_dconf(life), cs.coq_draws(inst["draws"]), cs.coq_fs(inst["before"]),
                    coq_opt(reg.get("subject_type"), cs.S, "pystr"), coq_opt(reg.get("sector_id"), cs.S, "pystr"),
                    coq_opt(reg.get("sector_identifier_uri"), cs.S, "pystr"),
                    cs.S(redirect), cs.S(u), cs.S(salt), "None" if fresh else "(Some %s)" % cs.S(sub)), rec))
    try:
        for k in range(N_INSTANCES):
            before = cs.snapshot(life)
            try:
                rs = session_with(cs.conf_of(life), oidc=True, jwt_access=jwt, client_over=copy.deepcopy(over))
            except ConfigurationError:
                rs = None
            after = cs.snapshot(life)
            draws = cs.infer_draws(life, before, after)
            inst = {"rs": rs, "before": before, "after": after, "draws": draws, "subs": {}, "spec": None}
            insts.append(inst)
            rec0 = dict(desc, instance=k + 1, files_before_start=before, files_after_start=after, started=rs is not None)
            ctx.case_seen(rec0, True)
            ctx.count("life-instance:%s" % ("started" if rs is not None else "refused to start (ConfigurationError)"))
            for f, v in before.items():
                ctx.count("life-file-at-start:%s" % ("missing" if v is None else "not-a-file" if v == "dir" else "exists"))
            scases.append(("(%s, %s, %s, %s)" % (cs.coq_dconf(life), cs.coq_draws(draws), cs.coq_fs(before),
                                                 cs.coq_observed(after) if rs is not None else "None"), rec0))
            if rs is None:
                continue
            inst["spec"] = cs.resolved_spec(life, after)
            logins(k, inst, sess.USERS, "first")
        # the instance that started first is still running: it goes on handing out what it handed out
        if insts[0]["rs"] is not None:
            logins(0, insts[0], sess.USERS[:1], "again-after-the-others-started")
        # ---- ORACLE across the instances
        started = [i for i in insts if i["rs"] is not None]
        if not started:
            return
        spec = started[-1]["spec"]
        allsubs = {}
        for u in sess.USERS:
            for c in sess.CLIENTS:
                if cm.effective_recipe(spec, typ(c)) is None:
                    continue
                per = [(k + 1, s) for k, i in enumerate(insts) for s in i["subs"].get((u, c), [])]
                if not per:
                    continue
                allsubs[(u, c)] = per
                if len(set(s for _, s in per)) != 1:
                    ctx.violation("unstable", "user %s at client %s (%s): instances built from the same configuration hand out different "
                                  "subs: %s" % (u, c, typ(c), ", ".join("instance %d: %s" % x for x in per)),
                                  dict(desc, user=u, client=c, subject_type=typ(c), subs_by_instance=per,
                                       files_by_instance=[[i["before"], i["after"]] for i in insts]))
        for u in sess.USERS:
            for a in sess.CLIENTS:
                for b in sess.CLIENTS:
                    if a >= b or (u, a) not in allsubs or (u, b) not in allsubs:
                        continue
                    ta, tb = typ(a), typ(b)
                    sa, sb = set(s for _, s in allsubs[(u, a)]), set(s for _, s in allsubs[(u, b)])
                    rec = dict(desc, user=u, clients=[a, b], types=[ta, tb], sectors=[sector(a), sector(b)],
                               subs_by_instance=[allsubs[(u, a)], allsubs[(u, b)]])
                    if ta == tb == "public" and len(sa | sb) != 1:
                        ctx.violation("public-differs", "public subs of %s differ between %s and %s over the instances of one deployment" % (u, a, b), rec)
                    if ta == tb == "pairwise":
                        if sector(a) == sector(b) and len(sa | sb) != 1:
                            ctx.violation("pairwise-same-sector-differs", "pairwise subs differ within sector %s over the instances of one "
                                          "deployment" % sector(a), rec)
                        if sector(a) != sector(b) and sa & sb:
                            ctx.violation("pairwise-sectors-equal", "pairwise subs equal across sectors %s / %s" % (sector(a), sector(b)), rec)
        for a in sess.USERS:
            for b in sess.USERS:
                for c in sess.CLIENTS:
                    if a < b and (a, c) in allsubs and (b, c) in allsubs and set(s for _, s in allsubs[(a, c)]) & set(s for _, s in allsubs[(b, c)]):
                        ctx.violation("users-share-sub", "users %s and %s share a sub at %s" % (a, b, c), dict(desc, client=c))
    finally:
        for i in insts:
            if i["rs"] is not None:
                i["rs"].close()


def salt_lifecycle(ctx):
    """every way a salt reaches the subject minters, over the life of a deployment (c18_salts)"""
    lives = cs.fixed_lives() + [cs.draw_life(ctx.rng, n) for n in range(4 if ctx.quick else 60)]
    lcases, scases = [], []
    for li, life in enumerate(lives):
        ctx.count("lives")
        one_life(ctx, life, li, lcases, scases)
    imports = ["Lib.Base", "Lib.PyStr", "Model.Sub"]
    cs.check_cases(ctx, imports, "start_case", "chk_start", scases, shard=100, label="start")
    cs.check_cases(ctx, imports, "life_case", "chk_life", lcases, shard=150, label="life")


OWN_SALTS = ["tenant-salt-public", "tenant-salt-pairwise", "s", "s\u00e4lt-\u00fc/\u00df", "salt-verif-0123456789"]
STD_KEYS = ["public", "pairwise", "ephemeral"]


def draw_entry(rng, behaviour):
    """an entry whose minter BEHAVES as `behaviour` asks (public: sector-blind hash, pairwise: hashes the sector, ephemeral:
    fresh value), through every way of naming it"""
    if behaviour == "ephemeral":
        return rng.choice([{"how": "fn-str", "kind": ("ephemeral_id",)}, {"how": "fn-obj", "kind": ("ephemeral_id",)},
                           {"how": "fn-str", "kind": ("custom-fresh", "e")}, {"how": "fn-obj", "kind": ("custom-fresh", "x-")}])
    cls = "PublicID" if behaviour == "public" else "PairWiseID"
    fn = "public_id" if behaviour == "public" else "pairwise_id"
    us = behaviour == "pairwise"
    salt = rng.choice(OWN_SALTS)
    return rng.choice([
        {"how": "class-str", "kind": (cls, salt)}, {"how": "class-obj", "kind": (cls, salt)},
        {"how": "class-str", "kind": (cls, salt)}, {"how": rng.choice(["class-str", "class-obj"]), "kind": (cls + "-file", salt)},
        {"how": "fn-str", "kind": (fn,)}, {"how": "fn-obj", "kind": (fn,)},
        {"how": "fn-str", "kind": ("custom", "site|", us, None)},
        {"how": "fn-obj", "kind": ("custom", rng.choice(["", "t1:", "site|"]), us, rng.choice([None, salt]))}])


def draw_spec(rng, order, sensible=True):
    """the configured dict: the subject types of `order`, in that order; now and then a skipped entry for a type not in
    `order` and a key no client uses, at a drawn position.  sensible=False: any minter under any key (cross-plugged)"""
    spec = [(k, draw_entry(rng, k if sensible else rng.choice(STD_KEYS))) for k in order]
    rest = [k for k in STD_KEYS if k not in order]
    if rest and rng.random() < 0.4:
        spec.insert(rng.randrange(len(spec) + 1), (rng.choice(rest), {"how": "skip", "kind": None}))
    if rng.random() < 0.4:
        spec.insert(rng.randrange(len(spec) + 1), ("persistent", draw_entry(rng, rng.choice(STD_KEYS))))
    return spec


TYPE_PATTERNS = [["public", "public", "pairwise"], ["pairwise", "pairwise", "public"], ["public", "pairwise", "ephemeral"],
                 [None, "pairwise", "public"], ["pairwise", "public", "pairwise"], ["ephemeral", "public", "public"]]


def configured_providers(ctx, cases):
    """providers with configured subject minters: every ordered choice of one, two or three subject types (15), the
    minters drawn per type; clients of the configured AND of the unconfigured types; the full login sequences"""
    rng = ctx.rng
    orders = [o for n in (1, 2, 3) for o in itertools.permutations(STD_KEYS, n)]
    ccases, tcases, kcases = [], [], []
    for rep in range(1 if ctx.quick else 4):
        for oi, order in enumerate(orders):
            if rep == 0 and order == ("public", "pairwise"):       # the documented configuration (doc/server/contents/conf.rst)
                spec = [("public", {"how": "class-str", "kind": ("PublicID", OWN_SALTS[0])}),
                        ("pairwise", {"how": "class-str", "kind": ("PairWiseID", OWN_SALTS[1])})]
            elif rep == 0 and order == ("pairwise", "public"):
                spec = [("pairwise", {"how": "class-str", "kind": ("PairWiseID", OWN_SALTS[1])}),
                        ("public", {"how": "class-str", "kind": ("PublicID", OWN_SALTS[0])})]
            else:
                spec = draw_spec(rng, order)
            types = list(TYPE_PATTERNS[(oi + rep) % len(TYPE_PATTERNS)])
            rng.shuffle(types)
            over = {}
            for c, st in zip(sess.CLIENTS, types):
                rec = {}
                if st:
                    rec["subject_type"] = st
                sec = rng.choice(SECTORS)
                if sec:
                    rec[rng.choice(["sector_id", "sector_identifier_uri"])] = sec
                over[c] = rec
            ctx.count("configured-providers:%d-types" % len(order))
            one_provider(ctx, cases, "configured-%d-%d" % (rep, oi), (oi + rep) % 2 == 1, over, spec=spec, ccases=ccases, tcases=tcases, kcases=kcases)
    # ---- the table alone, on providers with arbitrary entries (any minter under any key, also none at all)
    for ti in range(10 if ctx.quick else 60):
        order = rng.choice(orders)
        spec = [] if ti == 0 else draw_spec(rng, order, sensible=False)
        server = srv.make_server(clients=sess.CLIENTS, sub_func={k: cm.conf_entry(e) for k, e in spec})
        ctx.count("table-only-providers")
        table_probe(ctx, server, spec, tcases, kcases, "table-only %d" % ti)
    imports = ["Lib.Base", "Lib.PyStr", "Model.Sub"]
    ctx.coq_check_cases(imports, "subc_case", "chk_subc", ccases, shard=60, label="subconf")
    ctx.coq_check_cases(imports, "table_case", "chk_table", tcases, shard=100, label="table")
    ctx.coq_check_cases(imports, "list (pystr * centry) * list pystr", "chk_table_keys", kcases, label="tablekeys")


def run(ctx):
    rng = ctx.rng
    source_tie(ctx)
    n_srv = 6 if ctx.quick else 80
    cases = []
    for si in range(n_srv):
        jwt = si % 2 == 1
        over = {}
        for c in sess.CLIENTS:
            rec = {}
            st = rng.choice(TYPES) if si > 0 else {"client_1": "pairwise", "client_2": "pairwise", "client_12": "public"}[c]
            if st:
                rec["subject_type"] = st
            sec = rng.choice(SECTORS) if si > 0 else {"client_1": SECTORS[1], "client_2": SECTORS[2], "client_12": None}[c]
            if sec:
                rec[rng.choice(["sector_id", "sector_identifier_uri"])] = sec
            over[c] = rec
        if si == 1:      # same sector through different sources and spellings
            over = {"client_1": {"subject_type": "pairwise", "sector_id": SECTORS[1]},
                    "client_2": {"subject_type": "pairwise", "sector_identifier_uri": SECTORS[3]},
                    "client_12": {"subject_type": "ephemeral"}}
        one_provider(ctx, cases, si, jwt, over)
    dynamic_registration(ctx, cases)
    handover(ctx, cases)
    other_providers(ctx, cases)
    configured_providers(ctx, cases)
    salt_lifecycle(ctx)
    ctx.coq_check_cases(["Lib.Base", "Lib.PyStr", "Model.Sub"], "sub_case", "chk_sub", cases, shard=60, label="sub")


def replay(ctx, rp):
    run(ctx)
