"""C18 driver — subject identifiers: consistent across the four release points, stable, typed, opaque."""
import ast
import copy
import base64
import hashlib
import inspect
import json
from urllib.parse import urlparse

import sess
import srv
from engine import coq_str, coq_list, coq_opt

RULE = ("providers with 3 clients whose registrations draw subject_type from {absent, public, pairwise, ephemeral}, sector_id / "
        "sector_identifier_uri from {absent, two hosts, host with port/userinfo/upper case}, opaque and JWT access tokens, OIDC; login "
        "sequences of 3 users at the 3 clients (two logins per pair); for every grant the sub is read from the ID Token, userinfo, "
        "introspection and (JWT) access token; a case is one grant; non-trivial when all release points answered.")
ASSUMPTIONS = ["SHA-256 is collision free (hypothesis H_inj of the pairwise theorem)", "urlparse(..).hostname is an environment function; "
               "its values are taken from urllib for the sector sources that occur", "uuid4 values are fresh"]

SECTORS = [None, "https://sector-a.example.org/uris.json", "https://sector-b.example.org/uris.json",
           "https://SECTOR-A.example.org:8443/x", "https://user@sector-b.example.org/y"]
TYPES = [None, "public", "pairwise", "ephemeral"]


def jwt_payload(tok):
    return json.loads(base64.urlsafe_b64decode(tok.split(".")[1] + "=="))


def host(x):
    return urlparse(x).hostname or ""


def source_tie(ctx):
    """all four release points publish grant.sub (static check on the current source)"""
    import idpyoidc.server.token.id_token as m1
    import idpyoidc.server.oidc.userinfo as m2
    import idpyoidc.server.session.grant as m3
    import idpyoidc.server.oauth2.introspection as m4
    sites = [(m1.IDToken.payload, "IDToken.payload"), (m2.UserInfo.process_request, "UserInfo.process_request"),
             (m3.Grant.payload_arguments, "Grant.payload_arguments"), (m4.Introspection._introspect, "Introspection._introspect")]
    for fn, name in sites:
        src = inspect.getsource(fn)
        tree = ast.parse("class _X:\n" + src if src.startswith("    ") else src)
        reads = [n for n in ast.walk(tree) if isinstance(n, ast.Attribute) and n.attr == "sub"]
        if not reads:
            ctx.broken.append("source tie: %s no longer reads <grant>.sub" % name)


def model_case(reg, u, redirect, sub, salt):
    """the registration record as stored, the hash and host tables the model needs, and the sub the grant got"""
    if not isinstance(salt, str):
        salt = "{}".format(salt)        # an unpinned salt is bytes; the sub functions format it into the text they hash
    st = reg.get("subject_type") or "public"
    srcs = [x for x in (reg.get("sector_id"), reg.get("sector_identifier_uri"), redirect) if x]
    hosts = [(x, host(x)) for x in srcs]
    pre = [u + salt] + [u + h + salt for _, h in hosts]
    ht = [(x, hashlib.sha256(x.encode()).hexdigest()) for x in pre]
    return "(%s, %s, mkCreg %s %s %s, %s, %s, %s, %s)" % (
        coq_list(["(%s, %s)" % (coq_str(a), coq_str(b)) for a, b in ht], "(pystr * pystr)"),
        coq_list(["(%s, %s)" % (coq_str(a), coq_str(b)) for a, b in hosts], "(pystr * pystr)"),
        coq_opt(reg.get("subject_type"), coq_str, "pystr"), coq_opt(reg.get("sector_id"), coq_str, "pystr"),
        coq_opt(reg.get("sector_identifier_uri"), coq_str, "pystr"),
        coq_str(redirect), coq_str(u), coq_str(salt),
        "None" if st == "ephemeral" else "(Some %s)" % coq_str(sub))


SECTOR_DOCS = {"https://sector.alpha.example/rps.json": ["https://app1.alpha.example/cb", "https://app2.alpha.example/cb"],
               "https://sector.beta.example:8443/rps.json": ["https://app.beta.example/cb"]}
DYN_CLIENTS = [("a1", "https://app1.alpha.example/cb", "https://sector.alpha.example/rps.json", "pairwise"),
               ("a2", "https://app2.alpha.example/cb", "https://sector.alpha.example/rps.json", "pairwise"),
               ("b", "https://app.beta.example/cb", "https://sector.beta.example:8443/rps.json", "pairwise"),
               ("solo", "https://solo.gamma.example/cb", None, "pairwise"),
               ("pub", "https://pub.delta.example/cb", None, "public")]


def dynamic_registration(ctx, cases):
    """clients that registered themselves at the registration endpoint (sector_identifier_uri fetched over a mocked
    HTTP layer); the ground truth for the sector is what the client ASKED for, not what the provider stored"""
    import responses
    rs = sess.RealSession(oidc=True, jwt_access=False)
    try:
        salt = rs.sm.get_salt()
        ep = rs.server.get_endpoint("registration")
        cid = {}
        with responses.RequestsMock(assert_all_requests_are_fired=False) as rsps:
            for uri, doc in SECTOR_DOCS.items():
                rsps.add("GET", uri, body=json.dumps(doc), status=200, content_type="application/json")
            for name, ru, sector, st in DYN_CLIENTS:
                req = {"redirect_uris": [ru], "subject_type": st, "response_types": ["code"], "application_type": "web",
                       "token_endpoint_auth_method": "client_secret_post", "grant_types": ["authorization_code"]}
                if sector:
                    req["sector_identifier_uri"] = sector
                try:
                    p = ep.parse_request(json.dumps(req))
                    r = ep.process_request(p)
                    ra = r.get("response_args", r)
                    cid[name] = ra["client_id"]
                except Exception as e:
                    ctx.notes.append("dynamic registration of %s failed: %r" % (name, e))
        subs = {}
        for u in sess.USERS[:2]:
            for name, ru, sector, st in DYN_CLIENTS:
                if name not in cid:
                    continue
                o = rs.op_authz(u, cid[name], ["openid"], extra={"redirect_uri": ru})
                if o[0] != "ok" or not o[1]:
                    ctx.notes.append("authorization at dynamically registered %s failed: %r" % (name, o))
                    continue
                g = rs.grants[rs.tok_grant[o[1][0]]][1]
                subs[(u, name)] = g.sub
                rec = {"dynamic": True, "user": u, "client": name, "subject_type": st, "asked_sector": sector, "redirect": ru, "sub": g.sub}
                ctx.case_seen(rec, True)
                ctx.count("dynamic:%s" % st)
                cases.append((model_case(rs.ctx.cdb[cid[name]], u, ru, g.sub, salt), rec))
                if u in g.sub:
                    ctx.violation("uid-in-clear", "sub %r contains the user id %r" % (g.sub, u), rec)
        # ---- the stored registration is what Model/Sub.v registered_record says it is
        regs = []
        for name, ru, sector, st in DYN_CLIENTS:
            if name in cid:
                reg = rs.ctx.cdb[cid[name]]
                regs.append(("(%s, %s, mkCreg %s %s %s)" % (
                    coq_opt(st, coq_str, "pystr"), coq_opt(sector, coq_str, "pystr"),
                    coq_opt(reg.get("subject_type"), coq_str, "pystr"), coq_opt(reg.get("sector_id"), coq_str, "pystr"),
                    coq_opt(reg.get("sector_identifier_uri"), coq_str, "pystr")),
                    {"dynamic": True, "client": name, "asked": [st, sector],
                     "stored": [reg.get("subject_type"), reg.get("sector_id"), reg.get("sector_identifier_uri")]}))
        ctx.coq_check_cases(["Lib.Base", "Lib.PyStr", "Model.Sub"], "option pystr * option pystr * creg", "chk_registered", regs, label="registered")
        truth = {name: (st, host(sector or ru)) for name, ru, sector, st in DYN_CLIENTS}
        for u in sess.USERS[:2]:
            for a in truth:
                for b in truth:
                    if a >= b or (u, a) not in subs or (u, b) not in subs:
                        continue
                    (ta, sa), (tb, sb) = truth[a], truth[b]
                    rec = {"dynamic": True, "user": u, "clients": [a, b], "types": [ta, tb], "sectors": [sa, sb], "subs": [subs[(u, a)], subs[(u, b)]]}
                    if ta == tb == "pairwise" and sa == sb and subs[(u, a)] != subs[(u, b)]:
                        ctx.violation("pairwise-same-sector-differs", "pairwise subs differ within sector %s (dynamic registration)" % sa, rec)
                    if ta == tb == "pairwise" and sa != sb and subs[(u, a)] == subs[(u, b)]:
                        ctx.violation("pairwise-sectors-equal", "pairwise subs equal across sectors %s / %s (dynamic registration)" % (sa, sb), rec)
                    if {ta, tb} == {"pairwise", "public"} and subs[(u, a)] == subs[(u, b)]:
                        ctx.violation("pairwise-equals-public", "the pairwise sub of %s at %s equals the public sub" % (u, a if ta == "pairwise" else b), rec)
        us = sess.USERS[:2]
        for name in truth:
            if (us[0], name) in subs and (us[1], name) in subs and subs[(us[0], name)] == subs[(us[1], name)]:
                ctx.violation("users-share-sub", "users %s and %s share a sub at %s" % (us[0], us[1], name), {"client": name})
    finally:
        rs.close()


def handover(ctx, cases):
    """the session state moves to another provider instance built from the same configuration (dump / load of the
    session manager): a known user logging in again there gets the sub it had (public / pairwise)"""
    over = {"client_1": {"subject_type": "pairwise", "sector_identifier_uri": SECTORS[1]},
            "client_2": {"subject_type": "public"},
            "client_12": {"subject_type": "pairwise", "sector_id": SECTORS[2]}}
    # no session salt / password pinned in the configuration (the default): the instances draw their own and the
    # dumped state carries the first one's
    old_mk = srv.make_server

    def mk(*a, **k):
        k.setdefault("pinned", False)
        return old_mk(*a, **k)
    srv.make_server = mk
    try:
        rs1 = sess.RealSession(oidc=True, jwt_access=False, client_over=copy.deepcopy(over))
    finally:
        srv.make_server = old_mk
    rs2 = None
    try:
        before = {}
        for u in sess.USERS[:2]:
            for c in sess.CLIENTS:
                o = rs1.op_authz(u, c, ["openid"])
                if o[0] == "ok" and o[1]:
                    before[(u, c)] = rs1.grants[rs1.tok_grant[o[1][0]]][1].sub
        state = rs1.sm.dump()
        srv.make_server = mk
        try:
            rs2 = sess.RealSession(oidc=True, jwt_access=False, client_over=copy.deepcopy(over))
        finally:
            srv.make_server = old_mk
        rs2.sm.load(copy.deepcopy(state))
        salt2 = rs2.sm.get_salt()
        for (u, c), sub1 in before.items():
            o = rs2.op_authz(u, c, ["openid"])
            if o[0] != "ok" or not o[1]:
                ctx.notes.append("handover: login on the second instance failed %r" % (o,))
                continue
            g = rs2.find_grant_of_code(o[1][0]) if hasattr(rs2, "find_grant_of_code") else rs2.grants[rs2.tok_grant[o[1][0]]][1]
            st = rs2.ctx.cdb[c].get("subject_type") or "public"
            rec = {"handover": True, "user": u, "client": c, "subject_type": st, "sub_before": sub1, "sub_after": g.sub}
            ctx.case_seen(rec, True)
            ctx.count("handover:%s" % st)
            if st != "ephemeral" and g.sub != sub1:
                ctx.violation("unstable", "after the session state moved to another instance user %s at %s (%s) got another sub" % (u, c, st), rec)
            cases.append((model_case(rs2.ctx.cdb[c], u, "https://%s.example.com/cb" % c, g.sub, salt2), rec))
    finally:
        rs1.close()
        if rs2 is not None:
            rs2.close()


def other_providers(ctx, cases):
    """another provider in the same process, configured with its own subject functions (session_params.sub_func:
    PublicID / PairWiseID with their own salt), does not change the subs a provider hands out - neither of one that
    already runs nor of one created afterwards"""
    over = {"client_1": {"subject_type": "pairwise", "sector_identifier_uri": SECTORS[1]}, "client_2": {"subject_type": "public"}}
    old_mk = srv.make_server

    def mk_tenant(*a, **k):
        k = dict(k)
        extra = dict(k.get("extra") or {})
        cc = srv.crypt_config()
        extra["session_params"] = {"encrypter": cc, "sub_func": {
            "public": {"class": "idpyoidc.server.session.manager.PublicID", "kwargs": {"salt": "tenant-salt-public"}},
            "pairwise": {"class": "idpyoidc.server.session.manager.PairWiseID", "kwargs": {"salt": "tenant-salt-pairwise"}}}}
        k["extra"] = extra
        return old_mk(*a, **k)
    plain = sess.RealSession(oidc=True, client_over=copy.deepcopy(over))
    tenant = late = None
    try:
        def subs_of(rs, tag):
            out = {}
            for u in sess.USERS[:2]:
                for c in ("client_1", "client_2"):
                    o = rs.op_authz(u, c, ["openid"])
                    if o[0] == "ok" and o[1]:
                        out[(u, c)] = rs.grants[rs.tok_grant[o[1][0]]][1].sub
                        rec = {"other_provider": tag, "user": u, "client": c, "sub": out[(u, c)]}
                        ctx.case_seen(rec, True)
                        cases.append((model_case(rs.ctx.cdb[c], u, "https://%s.example.com/cb" % c, out[(u, c)], rs.sm.get_salt()), rec))
            return out
        before = subs_of(plain, "plain-before")
        srv.make_server = mk_tenant
        try:
            tenant = sess.RealSession(oidc=True, client_over=copy.deepcopy(over))
        finally:
            srv.make_server = old_mk
        tsubs = {}
        for u in sess.USERS[:2]:
            o = tenant.op_authz(u, "client_2", ["openid"])
            if o[0] == "ok" and o[1]:
                tsubs[u] = tenant.grants[tenant.tok_grant[o[1][0]]][1].sub
        after = subs_of(plain, "plain-after")
        late = sess.RealSession(oidc=True, client_over=copy.deepcopy(over))
        lsubs = subs_of(late, "late")
        ctx.count("other-providers:logins", len(before) + len(after) + len(lsubs))
        for k, v in before.items():
            if after.get(k) != v:
                ctx.violation("unstable", "the sub of %s at %s changed after another provider with its own subject functions was created in the process" % k,
                              {"user": k[0], "client": k[1], "before": v, "after": after.get(k)})
        for u, ts in tsubs.items():
            if lsubs.get((u, "client_2")) == ts and before.get((u, "client_2")) != ts:
                ctx.violation("unstable", "a provider created later hands out the subs of the differently configured provider (%s)" % u, {"user": u})
    finally:
        for r in (plain, tenant, late):
            if r is not None:
                r.close()


def run(ctx):
    rng = ctx.rng
    source_tie(ctx)
    n_srv = 6 if ctx.quick else 80
    cases = []
    for si in range(n_srv):
        jwt = si % 2 == 1
        over = {}
        for c in sess.CLIENTS:
            rec = {}
            st = rng.choice(TYPES) if si > 0 else {"client_1": "pairwise", "client_2": "pairwise", "client_12": "public"}[c]
            if st:
                rec["subject_type"] = st
            sec = rng.choice(SECTORS) if si > 0 else {"client_1": SECTORS[1], "client_2": SECTORS[2], "client_12": None}[c]
            if sec:
                rec[rng.choice(["sector_id", "sector_identifier_uri"])] = sec
            over[c] = rec
        if si == 1:      # same sector through different sources and spellings
            over = {"client_1": {"subject_type": "pairwise", "sector_id": SECTORS[1]},
                    "client_2": {"subject_type": "pairwise", "sector_identifier_uri": SECTORS[3]},
                    "client_12": {"subject_type": "ephemeral"}}
        rs = sess.RealSession(oidc=True, jwt_access=jwt, client_over=over)
        try:
            salt = rs.sm.get_salt()
            seen = {}       # (user, client) -> list of subs
            grants = []
            for rnd in range(2):
                for u in sess.USERS:
                    for c in sess.CLIENTS:
                        n0 = len(rs.tokens)
                        o = rs.run(("authz", u, c, ["openid", "email", "offline_access"]))
                        if o[0] != "ok":
                            ctx.notes.append("authz failed: %r" % (o,))
                            continue
                        code = o[1][0]
                        rs.run(("tparse", c, ("tok", code), "same"))
                        p = rs.run(("proc", len(rs.parsed) - 1, None))
                        if p[0] != "ok":
                            ctx.notes.append("token request failed: %r" % (p,))
                            continue
                        g = rs.grants[rs.tok_grant[code]][1]
                        views = {"grant": g.sub}
                        idt = rs.tokens[p[1]["id_token"]]
                        views["id_token"] = jwt_payload(idt)["sub"]
                        at = p[1]["access_token"]
                        ui = rs.run(("userinfo", ("tok", at)))
                        views["userinfo"] = ui[1] if ui[0] == "ok" else None
                        it = rs.run(("introspect", c, ("tok", at)))
                        views["introspection"] = it[3] if it[0] == "active" else None
                        if jwt:
                            views["jwt_access_token"] = jwt_payload(rs.tokens[at]).get("sub")
                        reg = rs.ctx.cdb[c]
                        rec = {"user": u, "client": c, "subject_type": reg.get("subject_type"), "sector_id": reg.get("sector_id"),
                               "sector_identifier_uri": reg.get("sector_identifier_uri"), "views": views, "jwt_access": jwt}
                        ctx.case_seen(rec, all(v is not None for v in views.values()))
                        ctx.count("type:%s" % reg.get("subject_type"))
                        grants.append(rec)
                        # ---- oracle: consistency
                        vals = set(views.values())
                        if len(vals) != 1:
                            ctx.violation("inconsistent-views", "sub differs across release points: %r" % views, rec)
                        sub = g.sub
                        seen.setdefault((u, c), []).append(sub)
                        # ---- oracle: opacity
                        if u in sub:
                            ctx.violation("uid-in-clear", "sub %r contains the user id %r" % (sub, u), rec)
                        # ---- model case
                        cases.append((model_case(reg, u, "https://%s.example.com/cb" % c, sub, salt), rec))
            # ---- a further authorization request from the same browser (session cookie of the first response replayed),
            #      same client, other state/nonce: a new grant under the live session
            for u in sess.USERS[:2]:
                for c in sess.CLIENTS:
                    o1 = rs.op_authz(u, c, ["openid", "email"])
                    ck = rs.last_cookie
                    if o1[0] != "ok" or not ck:
                        continue
                    g1 = rs.grants[rs.tok_grant[o1[1][0]]][1]
                    o2 = rs.op_authz(u, c, ["openid", "profile"], extra={"state": "other-state", "nonce": "other-nonce"}, cookie=ck)
                    if o2[0] != "ok":
                        continue
                    g2 = rs.grants[rs.tok_grant[o2[1][0]]][1]
                    st = rs.ctx.cdb[c].get("subject_type") or "public"
                    rec = {"user": u, "client": c, "subject_type": st, "cookie_flow": True, "same_grant": g1 is g2, "subs": [g1.sub, g2.sub]}
                    ctx.case_seen(rec, True)
                    ctx.count("cookie-flow:%s:%s" % (st, "same-grant" if g1 is g2 else "new-grant"))
                    if g1 is not g2:
                        if st == "ephemeral" and g1.sub == g2.sub:
                            ctx.violation("ephemeral-repeat", "two grants of one browser session at ephemeral client %s share sub %s" % (c, g1.sub), rec)
                        if st != "ephemeral" and g1.sub != g2.sub:
                            ctx.violation("unstable", "second grant in the same browser session got another sub (%s at %s)" % (u, c), rec)
                        seen.setdefault((u, c), []).append(g2.sub)
            # ---- oracle: stability, type rules (written from the property text)
            eph = []
            for (u, c), subs in seen.items():
                st = rs.ctx.cdb[c].get("subject_type") or "public"
                if st != "ephemeral" and len(set(subs)) != 1:
                    ctx.violation("unstable", "user %s at %s (%s) got different subs over two logins: %r" % (u, c, st, subs), {"user": u, "client": c})
                if st == "ephemeral":
                    eph += subs
            if len(set(eph)) != len(eph):
                ctx.violation("ephemeral-repeat", "ephemeral subs repeat: %r" % eph, {"server": si})

            def sector(c):
                reg = rs.ctx.cdb[c]
                return host(reg.get("sector_id") or reg.get("sector_identifier_uri") or "https://%s.example.com/cb" % c)
            for u in sess.USERS:
                for a in sess.CLIENTS:
                    for b in sess.CLIENTS:
                        if a >= b or (u, a) not in seen or (u, b) not in seen:
                            continue
                        ta = rs.ctx.cdb[a].get("subject_type") or "public"
                        tb = rs.ctx.cdb[b].get("subject_type") or "public"
                        sa, sb = seen[(u, a)][0], seen[(u, b)][0]
                        ctxrec = {"user": u, "clients": [a, b], "types": [ta, tb], "sectors": [sector(a), sector(b)], "subs": [sa, sb]}
                        if ta == tb == "public" and sa != sb:
                            ctx.violation("public-differs", "public subs of %s differ between %s and %s" % (u, a, b), ctxrec)
                        if ta == tb == "pairwise":
                            if sector(a) == sector(b) and sa != sb:
                                ctx.violation("pairwise-same-sector-differs", "pairwise subs differ within sector %s" % sector(a), ctxrec)
                            if sector(a) != sector(b) and sa == sb:
                                ctx.violation("pairwise-sectors-equal", "pairwise subs equal across sectors %s / %s" % (sector(a), sector(b)), ctxrec)
            for a in sess.USERS:
                for b in sess.USERS:
                    for c in sess.CLIENTS:
                        if a < b and (a, c) in seen and (b, c) in seen and seen[(a, c)][0] == seen[(b, c)][0]:
                            ctx.violation("users-share-sub", "users %s and %s share a sub at %s" % (a, b, c), {"client": c})
        finally:
            rs.close()
    dynamic_registration(ctx, cases)
    handover(ctx, cases)
    other_providers(ctx, cases)
    ctx.coq_check_cases(["Lib.Base", "Lib.PyStr", "Model.Sub"], "sub_case", "chk_sub", cases, shard=60, label="sub")


def replay(ctx, rp):
    run(ctx)
