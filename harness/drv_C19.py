"""C19 driver — dynamic registration admits only well-formed clients and isolates them.

Drives the REAL registration and registration_read endpoints (parse_request / process_request) of a full
provider built by srv.make_server, with
  * the exhaustive redirect-URI matrix (scheme x host x shape x application_type x response_types),
  * a single-fault matrix over the metadata checks (each check violated alone),
  * random histories of 2-30 registrations with client-id supply collisions, refusals, exceptions,
  * all token x client_id pairings (plus bogus / missing credentials, expiry) at the read endpoint,
  * providers whose *_supported lists are RESTRICTED (subsets of the library's defaults: encryption on with leave-one-out /
    singleton / GCM-only / CBC-only enc lists for all three pairs, single signing algorithms with and without "none",
    restricted response / grant / subject types, auth methods, response modes, acr values) and requests inside / outside the
    lists, alg without enc, enc without alg, half-supported pairs,
and the real Registration.verify_redirect_uris / urlsplit / split_uri / comb_uri on a large URI product.
The Gallina model (Model/Registration.v, Model/RegUri.v) is evaluated on the same inputs by vm_compute
(chk_trace, chk_cell, chk_urlsplit, chk_split_uri, chk_comb).  Separately the property oracle below
(written from the property text; it never calls the model) judges every observed step.
"""
import copy
import itertools
import json
from urllib.parse import urlsplit, parse_qs

import engine as E
from engine import coq_str, coq_list, coq_bool, coq_z, coq_opt, coq_pyval

RULE = ("(a) endpoint matrix: 5 scheme forms x 4 host classes (public, localhost, 127.0.0.1, [::1]) x 5 shapes (plain, port, "
        "query, fragment, query+fragment) x application_type {web,native} x 3 response_types lists = 600 registrations, "
        "exhaustive; (b) single-fault matrix over the metadata checks (each check violated alone, ~60 requests) ; "
        "(c) random histories of 2-30 registrations (metadata inside/outside provider support, client-id supply "
        "colliding with existing ids, refusals, exceptions) followed by all token x client_id pairings at the read "
        "endpoint incl. bogus/missing credentials and secret expiry; (d) the real verify_redirect_uris / urlsplit / "
        "split_uri / comb_uri on a sampled product of 10 schemes x 12 hosts x ports x paths x queries x fragments; "
        "(e) providers with RESTRICTED *_supported lists drawn from the library's defaults: for the three (alg, enc) pairs "
        "leave-one-out (every enc value missing once, for every pair) and singleton lists x 8 request shapes per pair (alg "
        "only = default enc path, supported alg + unsupported enc, supported pair, unsupported alg + supported enc, both "
        "unsupported, unsupported alg only, enc only, enc outside the universe); single / partial signing-algorithm lists "
        "with and without none x {inside, outside, none, unknown} for the four signing parameters; restricted response / "
        "grant / subject types, auth methods, response modes, acr values x {inside, outside, mixed, all outside}; random "
        "providers (encryption off / full / GCM-only / CBC-only / random subsets) x random negotiated requests, each followed "
        "by reads.  Oracle for (e): every value stored, echoed and returned by the read endpoint for a parameter that has a "
        "list in the LIVE provider_info is a member of that list (parameter -> list table written from the OIDC "
        "registration / discovery specifications). "
        "A case is non-trivial when it reaches the redirect-URI decision or changes / must not change the client database.")
ASSUMPTIONS = [
    "rndstr(32) registration tokens and secret() client secrets never repeat (the supply is fresh); client ids need no such "
    "assumption (random_client_id checks cdb)",
    "no drawn client id names a key-jar owner that is not a registered client (the issuer's own key owners)",
    "KeyJar.load_keys is an environment function: whether it accepts a request's jwks is observed and fed to the model",
    "urllib.parse, json and CPython behave as modelled on the fragment; outside it the model answers Unmodelled",
    "sector_identifier_uri (needs an HTTP fetch) and client_authn_method overrides are outside the modelled fragment",
]

RT_SUPPORTED = ["code", "code id_token", "id_token", "token", "code token", "id_token token", "code id_token token"]
START = 1_700_000_000


# ------------------------------------------------------------------------------------------ Coq terms
def coq_dict(d):
    return coq_list(["(%s, %s)" % (coq_str(k), coq_pyval(v)) for k, v in d.items()], "(pystr * pyval)")


def coq_strs(l):
    return coq_list([coq_str(x) for x in l], "pystr")


def coq_qdict(q):
    return coq_list(["(%s, %s)" % (coq_str(k), coq_strs(v)) for k, v in q.items()], "(pystr * list pystr)")


def coq_cfg(cfg):
    return "(mkCfg %s %s %s %s %s %s)" % (
        coq_list(["(%s, %s)" % (coq_str(k), coq_strs(v)) for k, v in cfg["support"].items()], "(pystr * list pystr)"),
        coq_strs(cfg["listy"]), coq_strs(cfg["resp_keys"]), coq_strs(cfg["sign_ok"]),
        coq_opt(cfg["read"], coq_str, "pystr"), coq_opt(cfg["expires_in"], coq_z, "Z"))


QD_T = "(list (pystr * list pystr))"
DICT_T = "(list (pystr * pyval))"


def coq_state(s):
    return "(mkSt %s %s %s)" % (
        coq_list(["(%s, %s)" % (coq_str(k), coq_dict(v)) for k, v in s["cdb"].items()], "(pystr * list (pystr * pyval))"),
        coq_list(["(%s, %s)" % (coq_str(k), coq_str(v)) for k, v in s["rat"].items()], "(pystr * pystr)"),
        coq_strs(s["owners"]))


def coq_delta(d, f, ty):
    return coq_list(["(%s, %s)" % (coq_str(k), coq_opt(v, f, ty)) for k, v in d.items()], "(pystr * option %s)" % ty)


# ------------------------------------------------------------------------------------------ canonical values
def jsonable(v):
    if isinstance(v, tuple):
        return [jsonable(x) for x in v]
    if isinstance(v, list):
        return [jsonable(x) for x in v]
    if isinstance(v, dict):
        return {str(k): jsonable(x) for k, x in v.items()}
    if v is None or isinstance(v, (bool, int, str)):
        return v
    if hasattr(v, "to_dict"):
        return jsonable(v.to_dict())
    return "<%s>" % type(v).__name__


class Rig:
    """One real provider + controlled supply, clock and snapshots."""

    def __init__(self, rng, clock, caps=None, **kw):
        import srv
        import idpyoidc.server.oidc.registration as R
        self.R = R
        self.rng = rng
        self.clock = clock
        # caps: provider configuration of the *_supported lists (restricted providers, section (e)); the default is
        # the library's full lists with every response type
        extra = {"capabilities": dict({"response_types_supported": RT_SUPPORTED}, **(caps or {}))}
        self.caps = dict(caps or {})
        self.server = srv.make_server(extra=extra, **kw)
        self.reg = self.server.get_endpoint("registration")
        self.rd = self.server.get_endpoint("registration_read")
        self.ctx = self.server.context
        self.drawn = {16: [], 8: [], 32: [], "secret": []}
        self.plan16 = []
        R.rndstr = self.rndstr
        R.secret = self.secret
        self.cfg = self.read_cfg()
        self.sorted_keys = [k for k in self.cfg["support"] if k in self.cfg["listy"]]

    # -- supply
    ALPHA = "abcdefghijklmnopqrstuvwxyzABCDEFGHIJKLMNOPQRSTUVWXYZ0123456789-_"

    def rndstr(self, size=16):
        if size == 16 and self.plan16:
            v = self.plan16.pop(0)
        else:
            v = "".join(self.rng.choice(self.ALPHA) for _ in range(size))
        self.drawn.setdefault(size, []).append(v)
        return v

    def secret(self, seed, sid):
        v = "".join(self.rng.choice("0123456789abcdef") for _ in range(56))
        self.drawn["secret"].append(v)
        return v

    def read_cfg(self):
        from idpyoidc.message.oidc import RegistrationResponse
        from cryptojwt.jws.utils import alg2keytype
        ctx = self.ctx
        support = {}
        for claim, pref in ctx.claims.register2preferred.items():
            if pref in ctx.provider_info:
                v = ctx.provider_info[pref]
                if not (isinstance(v, list) and all(isinstance(x, str) for x in v)):
                    raise RuntimeError("provider_info[%s] is not a list of strings" % pref)
                support[claim] = list(v)
        listy = [k for k, spec in RegistrationResponse.c_param.items() if isinstance(spec[0], list)]
        algs = set()
        for item in ("id_token_signed_response_alg", "userinfo_signed_response_alg"):
            algs |= set(support.get(item, []))
        sign_ok = []
        for alg in sorted(algs):
            kt = alg2keytype(alg)
            if kt in ("none", "oct"):
                sign_ok.append(alg)
                continue
            ks = []
            for iss in ("", ctx.issuer):
                ks.extend(self.server.keyjar.get_signing_key(kt, alg=alg, issuer_id=iss))
            if ks:
                sign_ok.append(alg)
        kw = self.reg.kwargs
        expires = kw.get("client_secret_expires_in", 2592000) if kw.get("client_secret_expires", True) else None
        return {"support": support, "listy": listy, "resp_keys": list(RegistrationResponse.c_param), "sign_ok": sign_ok,
                "read": self.rd.full_path if self.rd else None, "expires_in": expires}

    # -- snapshots
    def canon_record(self, rec):
        out = jsonable(rec)
        for k in self.sorted_keys:
            if isinstance(out.get(k), list):
                out[k] = sorted(out[k])
        return out

    def snap(self):
        return {"cdb": {k: self.canon_record(v) for k, v in self.ctx.cdb.items()},
                "rat": dict(self.ctx.registration_access_token),
                "owners": sorted(self.server.keyjar.owners())}

    # -- operations on the real endpoints
    def register(self, body):
        """body: dict (JSON-serialisable).  Returns the observation record."""
        for k in self.drawn:
            self.drawn[k] = []
        txt = json.dumps(body)
        out = {"kind": None}
        try:
            req = self.reg.parse_request(txt)
        except Exception as e:
            out = {"kind": "parse", "exc": type(e).__name__}
            req = None
        if req is not None:
            if "error" in req:
                out = {"kind": "parse", "exc": "error:" + str(req["error"])}
            else:
                resp = self.reg.process_request(request=req)
                if isinstance(resp, dict) and "response_args" in resp:
                    ra = self.canon_record(resp["response_args"].to_dict())
                    out = {"kind": "accepted", "cid": ra.get("client_id"), "resp": ra}
                else:
                    out = {"kind": "refused", "code": str(resp.get("error")), "descr": str(resp.get("error_description"))}
        out["draws"] = {str(k): list(v) for k, v in self.drawn.items()}
        return out

    def read(self, hdr, cid):
        http_info = {"headers": {"authorization": hdr}} if hdr is not None else {}
        q = "client_id=" + cid if cid is not None else ""
        try:
            req = self.rd.parse_request(q, http_info=http_info)
        except Exception as e:
            return {"kind": "refused", "exc": type(e).__name__}
        if "error" in req:
            return {"kind": "refused", "exc": "error:" + str(req["error"])}
        try:
            resp = self.rd.process_request(request=req)
        except Exception as e:
            return {"kind": "refused", "exc": "process:" + type(e).__name__}
        return {"kind": "answer", "cid": req.get("client_id"), "resp": self.canon_record(resp["response_args"].to_dict())}


def parsed_request(body):
    """What the endpoint's deserialiser makes of the body (defaults included); None when it cannot."""
    from idpyoidc.message.oidc import RegistrationRequest
    try:
        return jsonable(RegistrationRequest().from_json(json.dumps(body))._dict)
    except Exception:
        return None


def jwks_loads(body):
    """Environment: does KeyJar.load_keys accept this request's jwks / jwks_uri ?"""
    from cryptojwt.key_jar import KeyJar
    try:
        KeyJar().load_keys("probe", jwks_uri=body.get("jwks_uri", "") or "", jwks=copy.deepcopy(body.get("jwks")))
        return True
    except Exception:
        return False


def delta(before, after):
    return {k: after.get(k) for k in sorted(set(before) | set(after)) if before.get(k) != after.get(k)}


# ------------------------------------------------------------------------------------------ modelled fragment
def uri_unmodelled(u):
    """True when the URI may lie outside the modelled urllib fragment (conservative)."""
    if not isinstance(u, str):
        return True
    if any(ord(c) > 127 for c in u):
        return True
    low = u.lower()
    for j in range(len(low) - 2):           # percent escapes >= 0x80 (UTF-8 decoding with replacement)
        if low[j] == "%" and low[j + 1] in "89abcdef" and low[j + 2] in "0123456789abcdef":
            return True
    ob, cb = "[" in u, "]" in u
    if ob and cb:
        # both kinds of bracket: only the literal [::1] host is modelled (ipaddress validation otherwise)
        return not (u.count("[") == 1 and u.count("]") == 1 and "[::1]" in u)
    return False


MODEL_KEYS_BLOCK = {"sector_identifier_uri", "client_id", "client_secret_basic", "client_assertion", "access_token",
                    "client_authn_method", "_client_authn_method"}


def body_unmodelled(body, preq):
    if preq is None:
        return True
    for k in body:
        if k in MODEL_KEYS_BLOCK:
            return True
    if "client_secret" in body and "client_id" in body:
        return True
    for k in ("redirect_uris", "request_uris"):
        v = preq.get(k)
        if isinstance(v, list) and any(uri_unmodelled(u) for u in v):
            return True
    for k in ("post_logout_redirect_uri", "policy_uri", "logo_uri", "tos_uri"):
        if k in preq and uri_unmodelled(preq[k]):
            return True
    return False


# ------------------------------------------------------------------------------------------ property oracle
LOOPBACK = ("localhost", "127.0.0.1", "::1")
PROVIDER_ASSIGNED = ("client_id", "client_salt", "client_secret", "client_secret_expires_at", "client_id_issued_at",
                     "registration_access_token", "registration_client_uri")


def rule_violation(app_type, response_types, uri):
    """The redirect-URI rule of the property text for one registered URI; None when it is obeyed."""
    try:
        p = urlsplit(uri)
    except ValueError:
        return "unparseable-redirect-uri"
    if p.fragment:
        return "fragment-stored"
    native = app_type == "native"
    if not p.scheme:
        return "native-schemeless-uri" if native else "schemeless-redirect-uri"
    custom = p.scheme not in ("http", "https")
    if native:
        if not (custom or (p.scheme == "http" and p.hostname in LOOPBACK)):
            return "native-not-custom-or-loopback"
    else:
        if custom:
            return "web-custom-scheme"
        if any(rt != "code" for rt in (response_types or [])) and p.scheme != "https":
            return "web-implicit-non-https"
    return None


def same_uri(echoed, stored_entry):
    """semantic equality of an echoed redirect URI with the stored (base, query dict) pair"""
    base, q = stored_entry[0], stored_entry[1] or {}
    if not q:
        return echoed == base
    try:
        p = urlsplit(echoed)
    except ValueError:
        return False
    return echoed.split("?", 1)[0] == base and parse_qs(p.query) == {k: list(v) for k, v in q.items()} and not p.fragment


# registration parameter -> the discovery parameter that lists what the provider supports for it.  Written from OpenID
# Connect Dynamic Client Registration 1.0 section 2 / Discovery 1.0 section 3 (NOT read from the library's own table).
PARAM2SUPPORTED = {
    "request_object_signing_alg": "request_object_signing_alg_values_supported",
    "request_object_encryption_alg": "request_object_encryption_alg_values_supported",
    "request_object_encryption_enc": "request_object_encryption_enc_values_supported",
    "userinfo_signed_response_alg": "userinfo_signing_alg_values_supported",
    "userinfo_encrypted_response_alg": "userinfo_encryption_alg_values_supported",
    "userinfo_encrypted_response_enc": "userinfo_encryption_enc_values_supported",
    "id_token_signed_response_alg": "id_token_signing_alg_values_supported",
    "id_token_encrypted_response_alg": "id_token_encryption_alg_values_supported",
    "id_token_encrypted_response_enc": "id_token_encryption_enc_values_supported",
    "token_endpoint_auth_method": "token_endpoint_auth_methods_supported",
    "token_endpoint_auth_signing_alg": "token_endpoint_auth_signing_alg_values_supported",
    "subject_type": "subject_types_supported",
    "response_types": "response_types_supported",
    "response_modes": "response_modes_supported",
    "grant_types": "grant_types_supported",
    "default_acr_values": "acr_values_supported",
}


def outside_lists(provider_info, record):
    """[(parameter, value, discovery key, list)] for every value of `record` that has a provider-side list in the
    provider information AS IT IS NOW on the live object and is not a member of it."""
    bad = []
    for param, skey in PARAM2SUPPORTED.items():
        if param not in record or skey not in provider_info:
            continue
        sup = provider_info[skey]
        sup = list(sup) if isinstance(sup, (list, tuple)) else [sup]
        val = record[param]
        for x in (val if isinstance(val, list) else [val]):
            if x not in sup:
                bad.append((param, val, skey, sup))
                break
    return bad


class Oracle:
    def __init__(self, ctx, rig):
        self.ctx, self.rig = ctx, rig
        self.issued = {}          # token -> client id (own bookkeeping, from the responses)
        self.responses = {}       # client id -> registration response
        self.secrets = set()
        self.ids = set(rig.snap()["cdb"])

    def v(self, sig, what, rec):
        self.ctx.violation(sig, what, rec)

    def registration(self, body, ob, before, after, now, rec):
        rig = self.rig
        if ob["kind"] != "accepted":
            if before != after:
                by_exc = ob.get("code") == "invalid_configuration_request" or ob["kind"] == "parse"
                what = []
                for part in ("cdb", "rat", "owners"):
                    if before[part] != after[part]:
                        what.append(part)
                self.v("reject-leaves-stub-exc" if by_exc else "reject-leaves-stub",
                       "refused registration %s (%s) changed %s: %s" % (json.dumps(body)[:300], ob.get("code") or ob.get("exc"),
                                                                         "+".join(what), json.dumps(delta(before["cdb"], after["cdb"]))[:300]), rec)
            return
        cid, resp = ob["cid"], ob["resp"]
        # --- identifier: not in use before, never assigned before
        if cid in before["cdb"] or cid in self.ids:
            self.v("client-id-reused", "assigned client_id %r was already in use" % cid, rec)
        self.ids.add(cid)
        changed = delta(before["cdb"], after["cdb"])
        for k in list(changed):
            # client-authentication bookkeeping (verify_client notes the method used) is not registration data
            b, a = dict(before["cdb"].get(k) or {}), dict(changed[k] or {})
            b.pop("auth_method", None)
            a.pop("auth_method", None)
            if k != cid and a == b:
                del changed[k]
        if set(changed) != {cid}:
            self.v("accept-touches-other-client", "accepted registration changed cdb entries %r" % sorted(changed), rec)
        stored = after["cdb"].get(cid)
        if stored is None:
            self.v("accepted-not-stored", "201 answered but client %r is not in cdb" % cid, rec)
            return
        # --- redirect-URI rule on what was admitted
        asked = body.get("redirect_uris")
        asked = [asked] if isinstance(asked, str) else list(asked or [])
        at, rts = stored.get("application_type"), stored.get("response_types")
        for u in asked:
            sig = rule_violation(at, rts, u)
            if sig:
                self.v(sig, "stored client %s (application_type=%r response_types=%r) with redirect URI %r" % (cid, at, rts, u), rec)
        sru = stored.get("redirect_uris") or []
        if len(sru) != len(asked) or any("#" in (e[0] or "") and urlsplit(e[0]).fragment for e in sru):
            self.v("fragment-stored", "stored redirect_uris %r for requested %r" % (sru, asked), rec)
        # --- metadata within what the provider supports
        for claim, sup in rig.cfg["support"].items():
            if claim in stored:
                val = stored[claim]
                vals = val if isinstance(val, list) else [val]
                if any(x not in sup for x in vals):
                    self.v("unsupported-metadata-stored", "client %s stored %s=%r outside provider support %r" % (cid, claim, val, sup), rec)
        # the same rule on all three views, against the lists the live provider advertises right now: what is stored,
        # what is echoed (and, in read(), what the read endpoint returns) for a parameter that has a provider-side list
        # is a member of that list or absent
        live = jsonable(dict(rig.ctx.provider_info))
        for view, record in (("stored", stored), ("echoed", resp)):
            for param, val, skey, sup in outside_lists(live, record):
                self.v("unsupported-metadata-" + view, "client %s: %s %s=%r is not in %s=%r (request had %r)"
                       % (cid, view, param, val, skey, sup, body.get(param)), rec)
        if stored.get("application_type") not in (None, "web", "native") or stored.get("subject_type") not in (None, "public", "pairwise"):
            self.v("unsupported-metadata-stored", "client %s stored application_type/subject_type %r/%r" % (cid, stored.get("application_type"), stored.get("subject_type")), rec)
        # --- provider-assigned values are the provider's: fresh secret, the issued token, ...
        d = ob["draws"]
        expect = {"client_id": cid, "client_salt": (d["8"] or [None])[-1], "client_secret": (d["secret"] or [None])[-1],
                  "client_id_issued_at": now}
        if rig.cfg["read"]:
            expect["registration_access_token"] = (d["32"] or [None])[-1]
            expect["registration_client_uri"] = "%s?client_id=%s" % (rig.cfg["read"], cid)
        if rig.cfg["expires_in"] is not None:
            expect["client_secret_expires_at"] = now + rig.cfg["expires_in"]
        for k, v in expect.items():
            if stored.get(k) != v:
                self.v("reserved-metadata-override", "client %s: provider-assigned %s is %r, stored %r (request had %r)" % (cid, k, v, stored.get(k), body.get(k)), rec)
        sec = stored.get("client_secret")
        if sec in self.secrets or (sec is not None and sec in [x for x in body.values() if isinstance(x, str)]):
            self.v("secret-not-fresh", "client %s got a secret that is not fresh: %r" % (cid, sec), rec)
        self.secrets.add(sec)
        # --- the response echoes exactly what was stored
        from idpyoidc.message.oidc import RegistrationResponse
        for k in RegistrationResponse.c_param:
            sv, rv = stored.get(k), resp.get(k)
            if k == "redirect_uris":
                ok = isinstance(rv, list) and len(rv) == len(sru) and all(same_uri(a, b) for a, b in zip(rv, sru))
            elif k == "post_logout_redirect_uri" and sv is not None:
                ok = rv is not None and same_uri(rv, sv)
            elif k == "request_uris" and sv is not None:
                ok = rv == [(b if not f else "%s#%s" % (b, f)) for b, f in sv]
            else:
                ok = sv == rv
            if not ok:
                self.v("echo-mismatch", "client %s: response %s=%r but stored %r" % (cid, k, rv, sv), rec)
        for k in resp:
            if k not in stored:
                self.v("echo-mismatch", "client %s: response carries %s=%r which is not stored" % (cid, k, resp[k]), rec)
        # --- the registration token is recorded for this client and nobody else's entry moved
        drat = delta(before["rat"], after["rat"])
        tok = resp.get("registration_access_token")
        if rig.cfg["read"]:
            if tok is None or after["rat"].get(tok) != cid:
                self.v("token-not-issued", "client %s: echoed registration token %r maps to %r" % (cid, tok, after["rat"].get(tok)), rec)
            if set(drat) - {tok}:
                self.v("token-map-disturbed", "registration of %s changed token entries %r" % (cid, sorted(drat)), rec)
            self.issued[tok] = cid
        self.responses[cid] = resp
        # --- key jar: exactly this client gained keys, and they are its secret
        if set(after["owners"]) - set(before["owners"]) != {cid} or set(before["owners"]) - set(after["owners"]):
            self.v("keyjar-owners", "key-jar owners changed by %r / %r" % (sorted(set(after["owners"]) - set(before["owners"])),
                                                                              sorted(set(before["owners"]) - set(after["owners"]))), rec)

    def read(self, hdr, cid, ob, before, after, now, rec):
        tok = hdr[len("Bearer "):] if isinstance(hdr, str) and hdr.startswith("Bearer ") else None
        owner = self.issued.get(tok) if tok is not None else None
        if ob["kind"] == "answer":
            if owner is None or cid is None or owner != cid or ob["cid"] != owner:
                self.v("read-isolation", "read endpoint answered for client %r (query client_id=%r) to a credential %r that was issued to %r"
                       % (ob["cid"], cid, hdr, owner), rec)
            else:
                want = self.responses.get(owner)
                if want is not None and ob["resp"] != want:
                    self.v("read-echo-mismatch", "read of %s returned %r, registered %r" % (owner, ob["resp"], want), rec)
            for param, val, skey, sup in outside_lists(jsonable(dict(self.rig.ctx.provider_info)), ob["resp"]):
                self.v("unsupported-metadata-read", "read endpoint returned %s=%r for client %r, not in %s=%r"
                       % (param, val, ob["cid"], skey, sup), rec)
        else:
            if owner is not None and owner == cid:
                exp = (before["cdb"].get(owner) or {}).get("client_secret_expires_at", 0)
                if not (exp and exp < now):
                    self.v("read-own-denied", "client %s refused (%s) with its own registration token" % (owner, ob.get("exc")), rec)
        ch = delta(before["cdb"], after["cdb"])
        bad = False
        for k, v in ch.items():
            b = dict(before["cdb"].get(k) or {})
            a = dict(v or {})
            b.pop("auth_method", None)
            a.pop("auth_method", None)
            if a != b or k != ob.get("cid"):
                bad = True
        if bad or before["rat"] != after["rat"] or before["owners"] != after["owners"]:
            self.v("read-changes-state", "read (%r, %r) changed provider state: %r" % (hdr, cid, sorted(ch)), rec)


# ------------------------------------------------------------------------------------------ trace builder
class Trace:
    """Runs operations on a fresh provider, collects model cases + applies the oracle."""

    def __init__(self, ctx, rng, clock, **kw):
        self.ctx = ctx
        self.rig = Rig(rng, clock, **kw)
        self.clock = clock
        self.oracle = Oracle(ctx, self.rig)
        self.st0 = self.rig.snap()
        self.steps = []         # coq "(op, obs)" strings
        self.rec = {"ops": []}
        self.modelled = True
        self.accepted = 0
        self.tokens = []        # (token, cid)

    def case_rec(self):
        """what a violation is reported with: the provider's configured lists (when restricted) + the last operations"""
        r = {"trace": self.rec["ops"][-6:]}
        if self.rig.caps:
            r["provider_capabilities"] = self.rig.caps
        return r

    def register(self, body, plan_ids=None, model=True):
        rig = self.rig
        rig.plan16 = list(plan_ids or [])
        before = rig.snap()
        now = self.clock.now
        preq = parsed_request(body)
        ob = rig.register(body)
        rig.plan16 = []
        after = rig.snap()
        r = {"op": "register", "body": body, "out": {k: v for k, v in ob.items() if k != "draws"}, "now": now}
        self.rec["ops"].append(r)
        self.ctx.count("reg:" + ob["kind"] + (":" + ob["code"] if ob.get("code") else ""))
        self.oracle.registration(body, ob, before, after, now, self.case_rec())
        if ob["kind"] == "accepted":
            self.accepted += 1
            if ob["resp"].get("registration_access_token"):
                self.tokens.append((ob["resp"]["registration_access_token"], ob["cid"]))
        if not model or not self.modelled:
            return ob
        if body_unmodelled(body, preq):
            # outside the modelled fragment: the rest of this trace is judged by the oracle only
            self.ctx.unmodelled += 1
            self.modelled = False
            return ob
        d = ob["draws"]
        op = "(OpReg (mkReg %s %s %s %s %s %s %s))" % (
            coq_dict(preq), coq_strs(d["16"] or ["-unused-"]), coq_str((d["8"] or ["-"])[-1]), coq_str((d["32"] or ["-"])[-1]),
            coq_str((d["secret"] or ["-"])[-1]), coq_bool(jwks_loads(body)), coq_z(now))
        if ob["kind"] == "parse":
            o = "OParseRefused"
        elif ob["kind"] == "refused":
            o = "(ORefused %s)" % coq_str(ob["code"])
        else:
            o = "(OAccepted %s %s)" % (coq_str(ob["cid"]), coq_dict(ob["resp"]))
        self.push(op, "(OutReg %s)" % o, before, after)
        return ob

    READ_EXC = {"UnAuthorizedClient": "RUnauthorized", "BearerTokenAuthenticationError": "RUnknownToken",
                "UnknownClient": "RUnknownClient", "InvalidClient": "RInvalidClient"}

    def read(self, hdr, cid):
        rig = self.rig
        before = rig.snap()
        now = self.clock.now
        ob = rig.read(hdr, cid)
        after = rig.snap()
        self.rec["ops"].append({"op": "read", "hdr": hdr, "cid": cid, "out": ob, "now": now})
        self.ctx.count("read:" + (ob["kind"] if ob["kind"] == "answer" else ob["exc"]))
        self.oracle.read(hdr, cid, ob, before, after, now, self.case_rec())
        if not self.modelled:
            return ob
        op = "(OpRead %s %s %s)" % (coq_opt(hdr, coq_str, "pystr"), coq_opt(cid, coq_str, "pystr"), coq_z(now))
        if ob["kind"] == "answer":
            o = "(RAnswer %s %s)" % (coq_str(ob["cid"]), coq_dict(ob["resp"]))
        else:
            o = self.READ_EXC.get(ob["exc"], "RUnm")
        self.push(op, "(OutRead %s)" % o, before, after)
        return ob

    def push(self, op, out, before, after):
        obs = "(mkObs %s %s %s %s)" % (
            out, coq_delta(delta(before["cdb"], after["cdb"]), coq_dict, DICT_T),
            coq_delta(delta(before["rat"], after["rat"]), coq_str, "pystr"), coq_strs(after["owners"]))
        self.steps.append("(%s, %s)" % (op, obs))

    def case(self):
        term = "(%s, %s, %s)" % (coq_cfg(self.rig.cfg), coq_state(self.st0), coq_list(self.steps, "(op * obs)"))
        return term, self.rec

    def finish(self, cases, nontrivial=True):
        self.ctx.case_seen(self.rec, nontrivial)
        if self.steps:
            cases.append(self.case())


# ------------------------------------------------------------------------------------------ generators
GOOD_JWKS = {"keys": [{"kty": "oct", "k": "c2VjcmV0LXNlY3JldC1zZWNyZXQtc2VjcmV0LTAxMjM0NTY3", "kid": "k1"}]}


def endpoint_matrix():
    schemes = ["http://", "https://", "myapp://", "HTTP://", "//"]
    hosts = ["a.example.com", "localhost", "127.0.0.1", "[::1]"]
    shapes = ["/cb", ":8080/cb", "/cb?x=1&y=2", "/cb#frag", "/cb?x=1#f"]
    apps = ["web", "native"]
    rtss = [["code"], ["id_token"], ["code", "id_token token"]]
    for s, h, sh, a, rts in itertools.product(schemes, hosts, shapes, apps, rtss):
        yield {"redirect_uris": [s + h + sh], "application_type": a, "response_types": rts}


def single_fault_bodies():
    ok = {"redirect_uris": ["https://rp.example.com/cb"]}

    def w(**kw):
        b = copy.deepcopy(ok)
        b.update(kw)
        return b
    bad6 = "http://[::1"
    return [
        w(),                                                         # baseline
        {},                                                          # redirect_uris missing
        {"redirect_uris": []},
        w(application_type="other"),
        w(application_type="native", redirect_uris=["com.example.app:/cb"]),
        w(application_type="native", redirect_uris=["cb"]),          # no scheme at all (41e49ce)
        w(application_type="native", redirect_uris=["//host/cb"]),
        w(application_type="native", redirect_uris=["http://localhost/cb", "https://rp.example.com/cb"]),   # second URI bad
        w(redirect_uris=["https://rp.example.com/cb", "https://rp.example.com/cb2#f"]),
        w(subject_type="ephemeral"), w(subject_type="pairwise"),
        w(initiate_login_uri="http://rp.example.com/login"), w(initiate_login_uri="https://rp.example.com/login"),
        w(id_token_encrypted_response_enc="A128GCM"), w(userinfo_encrypted_response_enc="A128GCM"),
        w(request_object_encryption_enc="A128GCM"),
        w(id_token_encrypted_response_alg="RSA-OAEP"), w(userinfo_encrypted_response_alg="RSA-OAEP", userinfo_encrypted_response_enc="A256GCM"),
        w(token_endpoint_auth_signing_alg="none"), w(token_endpoint_auth_signing_alg="ES256"), w(token_endpoint_auth_signing_alg="XS999"),
        w(response_types=["foo"]), w(response_types=["id_token code"]), w(response_types=["code", "foo", "token"]),
        w(response_types=["code", "code"]), w(response_types=[]),
        w(grant_types=["authorization_code", "implicit"]), w(grant_types=["implicit"]),
        w(token_endpoint_auth_method="foo"), w(token_endpoint_auth_method="private_key_jwt"),
        w(response_modes=["query", "bar"]), w(default_acr_values=["x"]), w(scope="openid"),
        w(id_token_signed_response_alg="RS256"), w(id_token_signed_response_alg="ES512"), w(id_token_signed_response_alg="none"),
        w(id_token_signed_response_alg="HS256"), w(id_token_signed_response_alg="XX1"), w(userinfo_signed_response_alg="EdDSA"),
        w(userinfo_signed_response_alg="ES256", id_token_signed_response_alg="ES384"),
        w(request_object_signing_alg="RS256"), w(request_object_signing_alg="nope"),
        w(post_logout_redirect_uri="https://rp.example.com/lo"), w(post_logout_redirect_uri="https://rp.example.com/lo?a=1&a=2"),
        w(post_logout_redirect_uri="https://rp.example.com/lo#frag"), w(post_logout_redirect_uri=bad6),
        w(request_uris=["https://rp.example.com/r.jwt"]), w(request_uris=["https://rp.example.com/r.jwt#abc", "https://rp.example.com/r2"]),
        w(request_uris=["https://rp.example.com/r.jwt?x=1"]), w(request_uris=["https://rp.example.com/r#a#b"]), w(request_uris=[bad6]),
        w(policy_uri="https://rp.example.com/policy"), w(policy_uri="https://other.example.com/policy"), w(policy_uri=bad6),
        w(logo_uri="https://rp.example.com/logo.png"), w(logo_uri="http://rp.example.com/logo.png"),
        w(tos_uri="https://rp.example.com:443/tos"), w(tos_uri="https://rp.example.com/tos", policy_uri="https://rp.example.com/p"),
        w(redirect_uris=[bad6]), w(redirect_uris=["https://rp.example.com/cb", "http://]"]),
        w(jwks=GOOD_JWKS), w(jwks={"keys": [{"kty": "RSA"}]}), w(jwks={"keys": "x"}), w(jwks_uri="https://rp.example.com/jwks.json"),
        w(foo="bar"), {"redirect_uris": ["https://rp.example.com/cb"], "client_name#ja": "x", "client_name": "N"},
        w(require_auth_time=False, default_max_age=0), w(require_auth_time=True, default_max_age=3600, contacts=["a@example.com"]),
        w(client_uri="https://rp.example.com/", frontchannel_logout_uri="https://rp.example.com/fl", backchannel_logout_session_required=True),
        # the registering party tries to choose what the provider assigns (26376a3)
        w(client_secret="mine-mine-mine", registration_access_token="tok", registration_client_uri="https://evil.example/x",
          client_salt="s", client_id_issued_at=5, client_secret_expires_at=9999999999),
    ]


def random_body(rng):
    hosts = ["rp%d.example.com" % rng.randint(1, 4), "localhost", "127.0.0.1", "app.example.org:8443"]
    at = rng.choice(["web", "web", "native", None])
    rts = rng.choice([None, ["code"], ["code"], ["id_token"], ["code id_token"], ["code", "id_token token"], ["token", "nope"], ["nope"]])
    uris = []
    for _ in range(rng.randint(1, 3)):
        r = rng.random()
        h = rng.choice(hosts)
        if at == "native":
            u = rng.choice(["com.example.app:/cb", "myapp://cb/x", "http://localhost:%d/cb" % rng.randint(1024, 9999), "http://127.0.0.1/cb",
                            "https://%s/cb" % h, "http://%s/cb" % h, "x-app://cb?z=1", "cb"])
        else:
            u = rng.choice(["https://%s/cb", "https://%s/cb?a=1&b=x+y", "http://%s/cb", "https://%s/cb/%%41?k=%%26v&k=2", "https://%s"]) % h
        if r < 0.06:
            u += "#frag"
        elif r < 0.09:
            u = "myapp://" + h
        elif r < 0.11:
            u = "http://[::1"
        uris.append(u)
    body = {"redirect_uris": uris}
    if at:
        body["application_type"] = at
    if rts is not None:
        body["response_types"] = rts
    first_host = "https://" + hosts[0]
    opt = [
        ("client_name", lambda: "RP " + str(rng.randint(0, 99))),
        ("contacts", lambda: ["ops@example.com"]),
        ("subject_type", lambda: rng.choice(["public", "pairwise", "pairwise", "ephemeral"])),
        ("token_endpoint_auth_method", lambda: rng.choice(["client_secret_basic", "private_key_jwt", "tls_client_auth", "none"])),
        ("grant_types", lambda: rng.choice([["authorization_code"], ["authorization_code", "refresh_token"], ["implicit"], ["authorization_code", "implicit"]])),
        ("id_token_signed_response_alg", lambda: rng.choice(["RS256", "ES256", "ES384", "HS256", "none", "EdDSA", "RS1"])),
        ("userinfo_signed_response_alg", lambda: rng.choice(["RS256", "ES512", "PS256", "bogus"])),
        ("request_object_signing_alg", lambda: rng.choice(["RS256", "none", "ES256"])),
        ("id_token_encrypted_response_alg", lambda: rng.choice(["RSA-OAEP", "ECDH-ES"])),
        ("userinfo_encrypted_response_enc", lambda: "A128GCM"),
        ("default_max_age", lambda: rng.choice([0, 60, 86400])),
        ("require_auth_time", lambda: rng.random() < 0.5),
        ("post_logout_redirect_uri", lambda: rng.choice([first_host + "/lo", first_host + "/lo?x=1", first_host + "/lo#f"])),
        ("request_uris", lambda: rng.choice([[first_host + "/ro.jwt"], [first_host + "/ro.jwt#h1"], [first_host + "/ro?q=1"]])),
        ("policy_uri", lambda: rng.choice([first_host + "/policy", "https://elsewhere.example.net/policy"])),
        ("jwks_uri", lambda: first_host + "/jwks.json"),
        ("jwks", lambda: rng.choice([GOOD_JWKS, GOOD_JWKS, {"keys": [{"kty": "RSA"}]}])),
        ("response_modes", lambda: rng.choice([["query"], ["form_post", "nope"]])),
        ("initiate_login_uri", lambda: rng.choice(["https://x.example.com/l", "http://x.example.com/l"])),
        ("token_endpoint_auth_signing_alg", lambda: rng.choice(["RS256", "none"])),
        ("x_extra", lambda: "v"),
    ]
    for k, f in opt:
        if rng.random() < 0.14:
            body[k] = f()
    return body


def read_matrix(tr, rng, limit=None, own_limit=None):
    """all token x client_id pairings + bogus / missing credentials (own_limit: of at most that many of the clients)"""
    toks = list(tr.tokens)
    if own_limit is not None and len(toks) > own_limit:
        toks = rng.sample(toks, own_limit)
    cids = [c for _, c in toks] + ["client_1", "nobody"]
    hdrs = ["Bearer " + t for t, _ in toks] + ["Bearer bogus-token", "Basic Zm9vOmJhcg==", None]
    pairs = [(h, c) for h in hdrs for c in cids + [None]]
    if limit and len(pairs) > limit:
        own = [("Bearer " + t, c) for t, c in toks]
        rest = [p for p in pairs if p not in own]
        pairs = own + rng.sample(rest, min(len(rest), max(0, limit - len(own))))
    for h, c in pairs:
        tr.read(h, c)


# ------------------------------------------------------------------------------------------ restricted providers
# (e) negotiation against RESTRICTED provider lists.  The universe of each list is what the library itself supports (read
# from a provider built with every feature switched on); a restricted provider advertises a subset of it; requests ask
# for values inside the subset, outside it but inside the universe, and outside the universe.
ENC_PAIRS = [("request_object_encryption", "encrypt_request_object_supported"),
             ("id_token_encrypted_response", "encrypt_id_token_supported"),
             ("userinfo_encrypted_response", "encrypt_userinfo_supported")]
SIG_PARAMS = ["id_token_signed_response_alg", "userinfo_signed_response_alg", "request_object_signing_alg",
              "token_endpoint_auth_signing_alg"]
LIST_PARAMS = ["response_types", "grant_types", "response_modes", "default_acr_values"]       # arrays in the schema
OTHER_UNIVERSE = {
    "response_types_supported": RT_SUPPORTED,
    "acr_values_supported": ["urn:acr:bronze", "urn:acr:silver", "urn:acr:gold"],
    "grant_types_supported": ["implicit"],
    "token_endpoint_auth_methods_supported": ["none", "tls_client_auth"],
}


def universe():
    """discovery key -> every value the library supports for it (the real defaults, all features on)"""
    import srv
    caps = {flag: True for _, flag in ENC_PAIRS}
    pi = srv.make_server(extra={"capabilities": caps}).context.provider_info
    uni = {}
    for skey in PARAM2SUPPORTED.values():
        vals = list(pi.get(skey) or [])
        for x in OTHER_UNIVERSE.get(skey, []):
            if x not in vals:
                vals.append(x)
        uni[skey] = vals
    for skey in uni:
        if skey.endswith("signing_alg_values_supported") and not skey.startswith("token_endpoint"):
            uni[skey] = uni[skey] + ["none"]
    return uni


def enc_keys(prefix):
    """(alg discovery key, enc discovery key) of one encryption pair"""
    return PARAM2SUPPORTED[prefix + "_alg"], PARAM2SUPPORTED[prefix + "_enc"]


def enc_requests(prefix, uni, caps):
    """the request shapes for one (alg, enc) pair on a provider whose lists are caps[...]: every combination of
    {inside, outside, absent} halves + a value outside the universe"""
    ak, ek = enc_keys(prefix)
    algs_in, encs_in = caps[ak], caps[ek]
    algs_out = [x for x in uni[ak] if x not in algs_in] or ["XX-ALG"]
    encs_out = [x for x in uni[ek] if x not in encs_in] or ["XX-ENC"]
    A, E = prefix + "_alg", prefix + "_enc"
    return [
        {A: algs_in[0]},                                   # alg only: verify() completes it with the default enc
        {A: algs_in[-1], E: encs_out[0]},
        {A: algs_in[0], E: encs_in[-1]},
        {A: algs_out[0], E: encs_in[0]},
        {A: algs_out[-1], E: encs_out[-1]},
        {A: algs_out[0]},
        {E: encs_in[0]},                                   # enc without alg: refused
        {A: algs_in[0], E: "XX-ENC"},
    ]


def enc_designs(uni, quick):
    """providers with encryption enabled and restricted lists: leave-one-out (every universe enc value is the missing one
    once, for all three pairs at the same time, a different alg value missing per pair) and singletons (every universe
    value is the only one for some pair; for every pair in the thorough tier)"""
    n = max(len(uni[enc_keys(p)[1]]) for p, _ in ENC_PAIRS)
    for kind, idx in (("leave-one-out", range(n)), ("singleton", range(0, n, 2) if quick else range(n))):
        for i in idx:
            caps = {}
            for j, (prefix, flag) in enumerate(ENC_PAIRS):
                ak, ek = enc_keys(prefix)
                caps[flag] = True
                if kind == "singleton":
                    e, a = uni[ek][(i + j) % len(uni[ek])], uni[ak][(i + 3 * j) % len(uni[ak])]
                    caps[ek], caps[ak] = [e], [a]
                else:
                    e, a = uni[ek][i % len(uni[ek])], uni[ak][(i + 3 * j) % len(uni[ak])]
                    caps[ek], caps[ak] = [x for x in uni[ek] if x != e], [x for x in uni[ak] if x != a]
            yield kind, caps


def sig_designs(uni):
    for i in range(4):
        caps = {}
        for j, param in enumerate(SIG_PARAMS):
            skey = PARAM2SUPPORTED[param]
            full = [x for x in uni[skey] if x != "none"]
            one = full[(5 * i + 3 * j) % len(full)]
            if i % 2 == 0:
                caps[skey] = [one]                                       # a single algorithm, no "none"
            else:
                caps[skey] = [x for x in full if x != one][:: (j % 2) + 1]  # the rest (or every other one of it)
            if "none" in uni[skey] and (i + j) % 3 == 0:
                caps[skey] = caps[skey] + ["none"]
        yield caps


def sig_requests(uni, caps):
    out = []
    for param in SIG_PARAMS:
        skey = PARAM2SUPPORTED[param]
        ins = caps[skey]
        outs = [x for x in uni[skey] if x not in ins and x != "none"]
        for val in [ins[0], ins[-1], outs[0], outs[-1], "none", "XX999"]:
            out.append({param: val})
    return out


def misc_designs(uni):
    rt, gt = uni["response_types_supported"], uni["grant_types_supported"]
    st, am = uni["subject_types_supported"], uni["token_endpoint_auth_methods_supported"]
    rm, acr = uni["response_modes_supported"], uni["acr_values_supported"]
    yield {"response_types_supported": ["code"], "grant_types_supported": gt[:1], "subject_types_supported": ["public"],
           "token_endpoint_auth_methods_supported": am[:1], "response_modes_supported": rm[:1], "acr_values_supported": acr[:1]}
    yield {"response_types_supported": ["id_token", "id_token token"], "grant_types_supported": gt[1:3],
           "subject_types_supported": ["pairwise"], "token_endpoint_auth_methods_supported": am[-2:-1],
           "response_modes_supported": rm[1:], "acr_values_supported": acr[1:]}
    yield {"response_types_supported": rt[1:], "grant_types_supported": [gt[0], gt[-1]], "subject_types_supported": st[1:],
           "token_endpoint_auth_methods_supported": am[1:3], "response_modes_supported": rm[-1:]}


def misc_requests(uni, caps):
    out = []
    for param in ("subject_type", "token_endpoint_auth_method"):
        skey = PARAM2SUPPORTED[param]
        ins = caps.get(skey) or uni[skey]
        outs = [x for x in uni[skey] if x not in ins] or ["XX"]
        out += [{param: ins[0]}, {param: ins[-1]}, {param: outs[0]}, {param: outs[-1]}, {param: "XX"}]
    for param in LIST_PARAMS:
        skey = PARAM2SUPPORTED[param]
        ins = caps.get(skey) or uni[skey]
        outs = [x for x in uni[skey] if x not in ins] or ["XX"]
        out += [{param: [ins[0]]}, {param: list(ins)}, {param: [outs[0]]}, {param: [outs[0], ins[-1]]},
                {param: [ins[0], outs[-1], "XX", ins[0]]}, {param: list(outs)}, {param: ["XX"]}]
    return out


def inside_response_types(caps, rng=None):
    """a response_types value the provider supports (so that the registration is decided on the parameter under test)"""
    rts = caps.get("response_types_supported") or RT_SUPPORTED
    return [rts[0] if rng is None else rng.choice(rts)]


def with_base(extra, caps, n, rng=None):
    body = {"redirect_uris": ["https://neg%d.example.com/cb" % n]}
    if "response_types" not in extra and "code" not in (caps.get("response_types_supported") or RT_SUPPORTED):
        body["response_types"] = inside_response_types(caps, rng)
    body.update(extra)
    return body


def random_caps(rng, uni):
    """a provider whose lists are random subsets of the universe; encryption per pair: off / full / restricted"""
    caps = {}
    for prefix, flag in ENC_PAIRS:
        ak, ek = enc_keys(prefix)
        r = rng.random()
        if r < 0.15:
            continue                                                    # not configured: no lists advertised
        caps[flag] = True
        if r < 0.25:
            continue                                                    # enabled, the full lists
        fam = rng.choice(["GCM", "CBC", None, None])
        if fam:
            caps[ek] = [x for x in uni[ek] if fam in x] or list(uni[ek])
            if rng.random() < 0.5:
                caps[ek] = rng.sample(caps[ek], rng.randint(1, len(caps[ek])))
        else:
            caps[ek] = rng.sample(uni[ek], rng.randint(1, len(uni[ek]) - 1))
        if rng.random() < 0.7:
            caps[ak] = rng.sample(uni[ak], rng.randint(1, len(uni[ak]) - 1))
    for param in SIG_PARAMS + ["subject_type", "token_endpoint_auth_method"] + LIST_PARAMS:
        skey = PARAM2SUPPORTED[param]
        if rng.random() < 0.6:
            u = uni[skey]
            caps[skey] = rng.sample(u, rng.choice([1, 1, 2, 3, max(1, len(u) - 1)]) if len(u) > 1 else 1)
            caps[skey] = caps[skey][:len(u)]
    return caps


def pick_value(rng, ins, uni_vals, p_in=0.45):
    outs = [x for x in uni_vals if x not in ins]
    r = rng.random()
    if r < p_in and ins:
        return rng.choice(ins)
    if r < 0.93 and outs:
        return rng.choice(outs)
    return rng.choice(["XX", "XX", "none", ""])


def negotiated_body(rng, live, uni, n):
    """one registration against the lists of the live provider (`live` = its provider information)"""
    extra = {}
    for prefix, _ in ENC_PAIRS:
        if rng.random() < 0.45:
            ak, ek = enc_keys(prefix)
            shape = rng.choice(["alg", "alg", "alg", "both", "both", "both", "both", "enc"])
            if shape in ("alg", "both"):
                extra[prefix + "_alg"] = pick_value(rng, live.get(ak) or [], uni[ak])
            if shape in ("enc", "both"):
                extra[prefix + "_enc"] = pick_value(rng, live.get(ek) or [], uni[ek])
    for param in SIG_PARAMS + ["subject_type", "token_endpoint_auth_method"]:
        if rng.random() < (0.12 if param == "subject_type" else 0.3):
            skey = PARAM2SUPPORTED[param]
            extra[param] = pick_value(rng, live.get(skey) or [], uni[skey])
    for param in LIST_PARAMS:
        if rng.random() < (0.5 if param == "response_types" else 0.25):
            skey = PARAM2SUPPORTED[param]
            extra[param] = [pick_value(rng, live.get(skey) or [], uni[skey], 0.75) for _ in range(rng.randint(1, 3))]
    if rng.random() < 0.1:
        extra["scope"] = "openid"
    caps = {"response_types_supported": live.get("response_types_supported")}
    body = with_base(extra, caps, n, rng if rng.random() < 0.85 else None)
    if rng.random() < 0.1:
        body.pop("response_types", None)                                # the schema default ["code"] is judged too
    if rng.random() < 0.25:
        body["application_type"] = "web"
    return body


def restricted_providers(ctx, rng, clock, traces):
    uni = universe()
    n = [0]

    def run_on(caps, bodies, label, reads=12):
        tr = Trace(ctx, rng, clock, caps=caps)
        live = jsonable(dict(tr.rig.ctx.provider_info))
        for skey, want in caps.items():
            if isinstance(want, list) and live.get(skey) != want:
                raise RuntimeError("provider does not advertise the configured %s=%r: %r" % (skey, want, live.get(skey)))
        tr.rec["provider"] = {k: v for k, v in caps.items()}
        for extra in bodies:
            n[0] += 1
            body = extra if "redirect_uris" in extra else with_base(extra, caps, n[0])
            ob = tr.register(body)
            ctx.count("restricted:%s:%s" % (label, ob["kind"]))
            if ob["kind"] == "accepted":
                kept = sum(1 for k in body if k in PARAM2SUPPORTED and k in ob["resp"])
                dropped = sum(1 for k in body if k in PARAM2SUPPORTED and k not in ob["resp"])
                ctx.count("restricted:negotiated-kept", kept)
                ctx.count("restricted:negotiated-dropped", dropped)
            clock.tick(1)
        if tr.rig.rd is not None:
            read_matrix(tr, rng, limit=reads, own_limit=(8 if ctx.quick else None))
        tr.finish(traces, nontrivial=True)
        return tr

    for kind, caps in enc_designs(uni, ctx.quick):
        bodies = []
        for prefix, _ in ENC_PAIRS:
            bodies += enc_requests(prefix, uni, caps)
        run_on(caps, bodies, "enc-" + kind)
    for caps in sig_designs(uni):
        run_on(caps, sig_requests(uni, caps), "sig")
    for caps in misc_designs(uni):
        run_on(caps, misc_requests(uni, caps), "lists")
    for i in range(14 if ctx.quick else 300):
        caps = random_caps(rng, uni)
        tr = Trace(ctx, rng, clock, caps=caps)
        live = jsonable(dict(tr.rig.ctx.provider_info))
        tr.rec["provider"] = caps
        for j in range(rng.randint(6, 16)):
            n[0] += 1
            ob = tr.register(negotiated_body(rng, live, uni, n[0]))
            ctx.count("restricted:random:" + ob["kind"])
            clock.tick(rng.choice([0, 1, 60]))
        if tr.rig.rd is not None:
            read_matrix(tr, rng, limit=12)
        tr.finish(traces, nontrivial=tr.accepted > 0)


# ------------------------------------------------------------------------------------------ pure URI cases
SCHEMES = ["http", "https", "HTTP", "HtTpS", "myapp", "com.example.app", "a+b.c-d", "1abc", "", "javascript"]
HOSTS = ["a.example.com", "localhost", "LOCALHOST", "127.0.0.1", "[::1]", "[::1", "localhost.", "127.0.0.1.evil.com",
         "user@localhost", "localhost@evil.com", "", "localhost:80@evil.com"]
PORTS = ["", ":8080", ":abc"]
PATHS = ["", "/cb", "/cb;p=1", "//x/cb", "cb"]
QUERIES = ["", "?a=b", "?a=b&a=c&d=%20x+y&e", "?", "?a=b;c=d&=x&y=", "?k=%41%2b%zz&%26=%3D"]
FRAGS = ["", "#f", "#", "#a#b"]


def rand_uri(rng):
    s = rng.choice(SCHEMES)
    h = rng.choice(HOSTS)
    sep = rng.choice(["://", "://", "://", ":", ":/", ":///"]) if s else rng.choice(["", "//", "//"])
    u = s + sep + h + rng.choice(PORTS) + rng.choice(PATHS) + rng.choice(QUERIES) + rng.choice(FRAGS)
    r = rng.random()
    if r < 0.05:
        u = rng.choice([" ", "\x01 ", "\t"]) + u
    elif r < 0.08:
        i = rng.randint(0, len(u))
        u = u[:i] + rng.choice(["\t", "\n", "\r"]) + u[i:]
    elif r < 0.10:
        u = u + rng.choice(["ä", "?x=%C3%A4", " "])
    return u


def pure_uri_cases(ctx, rng, n):
    from idpyoidc.server.oidc.registration import Registration, comb_uri
    from idpyoidc.server.exception import InvalidRedirectURIError
    from idpyoidc.util import split_uri
    REASON = {"redirect_uri contains fragment": 1, "Redirect_uri must use custom scheme or http and localhost": 2,
              "None https redirect_uri not allowed": 3, "Custom redirect_uri not allowed for web client": 4}
    cells, usplit, spl, comb = [], [], [], []
    cells_l, usplit_l, spl_l = [], [], []
    seen = set()
    uris = [rand_uri(rng) for _ in range(n)]
    # the deterministic core of the product first
    for s, h, p, q, f in itertools.product(["http", "https", "myapp", ""], HOSTS[:5], ["/cb"], QUERIES[:3], FRAGS[:2]):
        uris.append((s + "://" if s else "//") + h + p + q + f)
    for u in uris:
        if u in seen:
            continue
        seen.add(u)
        unm = uri_unmodelled(u)
        if unm:
            ctx.unmodelled += 1
        # urlsplit + hostname
        try:
            p = urlsplit(u)
            obs = "(Ok ((%s, %s, %s, %s, %s), %s))" % (coq_str(p.scheme), coq_str(p.netloc), coq_str(p.path), coq_str(p.query),
                                                         coq_str(p.fragment), coq_opt(p.hostname, coq_str, "pystr"))
        except ValueError:
            obs = "(Err ValueError)"
        (usplit_l if unm else usplit).append(("(%s, %s)" % (coq_str(u), obs), {"urlsplit": u}))
        # split_uri
        try:
            b, q = split_uri(u)
            obs = "(Ok (%s, %s))" % (coq_str(b), coq_opt(q, coq_qdict, QD_T))
            if q:
                args = {"redirect_uris": [(b, q)]}
                comb_uri(args)
                if not unm:
                    comb.append(("(%s, %s, %s)" % (coq_str(b), coq_qdict(q), coq_str(args["redirect_uris"][0])), {"comb": [b, q]}))
        except ValueError:
            obs = "(Err ValueError)"
        (spl_l if unm else spl).append(("(%s, %s)" % (coq_str(u), obs), {"split_uri": u}))
        # the decision itself, real static method, a few (application_type, response_types) per URI
        for at, rts in rng.sample([(a, r) for a in ("web", "native", None) for r in (["code"], ["id_token"], ["code", "token"], None)], 3):
            req = {"redirect_uris": [u]}
            if at:
                req["application_type"] = at
            if rts is not None:
                req["response_types"] = rts
            try:
                res = Registration.verify_redirect_uris(req)
                obs = "(Ok %s)" % coq_list(["(%s, %s)" % (coq_str(b), coq_qdict(q)) for b, q in res], "(pystr * list (pystr * list pystr))")
                kind = "accept"
                sig = rule_violation(at or "web", rts, u)
                if sig:
                    ctx.violation(sig, "verify_redirect_uris admits %r for application_type=%r response_types=%r" % (u, at, rts), req)
            except InvalidRedirectURIError as e:
                obs = "(Err (Refused %d))" % REASON.get(str(e), 99)
                kind = "reject%d" % REASON.get(str(e), 99)
            except ValueError:
                obs = "(Err ValueError)"
                kind = "valueerror"
            ctx.count("cell:" + kind)
            ctx.case_seen({"verify_redirect_uris": req, "out": kind}, True)
            (cells_l if unm else cells).append(("(%s, %s)" % (coq_dict(req), obs), {"verify_redirect_uris": req, "out": obs[:200]}))
    imp = ["Lib.Base", "Lib.PyStr", "Lib.Urlenc", "Model.RegUri", "Model.Registration"]
    ctx.coq_check_cases(imp, "cell_case", "chk_cell", cells, shard=400, label="cell", diag="diag_cell")
    ctx.coq_check_cases(imp, "pystr * res (split5 * option pystr)", "chk_urlsplit", usplit, shard=400, label="urlsplit")
    ctx.coq_check_cases(imp, "pystr * res (pystr * option qdict)", "chk_split_uri", spl, shard=400, label="splituri")
    ctx.coq_check_cases(imp, "pystr * qdict * pystr", "chk_comb", comb, shard=400, label="comb")
    # flagged as possibly outside the fragment: the model may say Unmodelled, a definite answer must agree
    ctx.coq_check_cases(imp, "cell_case", "chk_cell_l", cells_l, shard=400, label="cell_l", diag="diag_cell")
    ctx.coq_check_cases(imp, "pystr * res (split5 * option pystr)", "chk_urlsplit_l", usplit_l, shard=400, label="urlsplit_l")
    ctx.coq_check_cases(imp, "pystr * res (pystr * option qdict)", "chk_split_uri_l", spl_l, shard=400, label="splituri_l")


# ------------------------------------------------------------------------------------------ run
def real_supply(ctx, clock):
    """The traces below replace the library's random supply (rndstr, secret) by a recorded one, under the assumption
    that the real supply is fresh.  This part exercises the REAL generators and the unshimmed registration endpoint
    with the clock standing still (everything happens within one second): secrets issued for the same client id, for
    different client ids, in bursts and across re-registrations under the same id must all be different; so must the
    registration access tokens and the client ids."""
    import srv
    import idpyoidc.server.oidc.registration as R
    n = 40 if ctx.quick else 400
    rec = {"flow": "real-supply"}
    # the generators themselves
    seen = {}
    for sid in ["client_a", "client_a", "client_b", ""] + ["c%d" % (i % 3) for i in range(n)]:
        for seed in ("seed-1", "seed-1", "seed-2"):
            v = R.secret(seed, sid)
            if v in seen:
                ctx.violation("secret-not-fresh", "secret(%r, %r) repeats the value issued for %r within one second"
                              % (seed, sid, seen[v]), rec)
            seen[v] = (seed, sid)
    ids = [R.random_client_id(reserved=[]) for _ in range(n)]
    if len(set(ids)) != len(ids):
        ctx.violation("client-id-not-fresh", "random_client_id repeats within %d draws" % n, rec)
    ctx.count("real-supply:secret-calls", len(seen))
    # the endpoint with nothing replaced: registrations and re-registrations under the same id in one burst
    server = srv.make_server(extra={"capabilities": {"response_types_supported": RT_SUPPORTED}})
    reg = server.get_endpoint("registration")
    issued, tokens, cids = [], [], []
    body = {"redirect_uris": ["https://rp.example.com/cb"], "response_types": ["code"]}
    for i in range(6):
        resp = reg.process_request(reg.parse_request(dict(body)))
        ra = resp.get("response_args")
        if ra is None:
            continue
        cids.append(ra["client_id"])
        issued.append((ra["client_id"], ra.get("client_secret")))
        tokens.append(ra.get("registration_access_token"))
        for j in range(4 if ctx.quick else 12):      # the client registers anew under its id (rotation), same second
            b2 = dict(body)
            b2["client_id"] = ra["client_id"]
            r2 = reg.process_request(reg.parse_request(b2), new_id=False)
            a2 = r2.get("response_args")
            if a2 is None:
                ctx.count("real-supply:re-registration-refused")
                continue
            issued.append((a2["client_id"], a2.get("client_secret")))
            tokens.append(a2.get("registration_access_token"))
            stored = server.context.cdb[a2["client_id"]].get("client_secret")
            if stored != a2.get("client_secret"):
                ctx.violation("secret-echo-differs", "re-registration of %s: echoed secret is not the stored one" % a2["client_id"], rec)
    secrets_ = [s for _, s in issued if s]
    if len(set(secrets_)) != len(secrets_):
        dup = sorted({s for s in secrets_ if secrets_.count(s) > 1})
        ctx.violation("secret-not-fresh", "%d secrets issued within one second by the unshimmed endpoint, only %d distinct "
                      "(registrations and re-registrations of %d clients); e.g. %r issued %d times"
                      % (len(secrets_), len(set(secrets_)), len(cids), dup[0][:12] + "...", secrets_.count(dup[0])), rec)
    toks = [t for t in tokens if t]
    if len(set(toks)) != len(toks):
        ctx.violation("registration-token-not-fresh", "registration access tokens repeat within one burst", rec)
    if len(set(cids)) != len(cids):
        ctx.violation("client-id-not-fresh", "client ids repeat within one burst", rec)
    ctx.count("real-supply:secrets-issued", len(secrets_))
    ctx.case_seen(rec, len(secrets_) > 6)


def run(ctx):
    import logging
    import srv
    logging.disable(logging.CRITICAL)
    rng = ctx.rng
    clock = srv.Clock(START).install()
    import idpyoidc.server.oidc.registration as R
    saved = (R.rndstr, R.secret)
    traces = []
    try:
        real_supply(ctx, clock)
        # (a) the endpoint matrix, 25 registrations per provider
        cells = list(endpoint_matrix())
        for i in range(0, len(cells), 25):
            tr = Trace(ctx, rng, clock)
            for body in cells[i:i + 25]:
                tr.register(body)
                clock.tick(rng.randint(0, 3))
            read_matrix(tr, rng, limit=12)
            tr.finish(traces)
        # (b) single-fault matrix, each on a provider that already has two dynamic clients
        faults = single_fault_bodies()
        for i in range(0, len(faults), 12):
            tr = Trace(ctx, rng, clock)
            tr.register({"redirect_uris": ["https://first.example.com/cb?x=1"]})
            for body in faults[i:i + 12]:
                tr.register(body)
                clock.tick(1)
            read_matrix(tr, rng, limit=20)
            tr.finish(traces)
        # outside the modelled fragment: judged by the oracle only
        tr = Trace(ctx, rng, clock)
        for body in [{"redirect_uris": ["https://rp.example.com/cb"], "sector_identifier_uri": "https://nowhere.invalid/si"},
                     {"redirect_uris": ["https://rp.example.com/ä?x=%C3%A4"]},
                     {"redirect_uris": ["https://rp.example.com/cb"], "client_id": "client_1"},
                     {"redirect_uris": ["http://[fe80::1]/cb"], "application_type": "native"},
                     {"redirect_uris": "https://rp.example.com/cb", "jwks": "x"}]:
            tr.register(body, model=False)
        tr.finish([], True)
        ctx.unmodelled += 5
        # (c) random histories
        nh = 24 if ctx.quick else 600
        for i in range(nh):
            kw = {}
            if i % 6 == 5:
                kw = {"endpoints": {"registration_read": None}}          # provider without the read endpoint
            elif i % 6 == 4:
                kw = {"endpoints": {"registration": {"client_secret_expires": False}}}
            tr = Trace(ctx, rng, clock, **kw)
            for j in range(rng.randint(2, 30)):
                plan = None
                r = rng.random()
                existing = list(tr.rig.ctx.cdb.keys())
                if r < 0.25:
                    # colliding draws first; the retry loop of the generator has no bound, so neither has the run
                    plan = [rng.choice(existing) for _ in range(rng.choice([1, 2, 3, 3, 9, 10, 11, 17, 40]))]
                tr.register(random_body(rng), plan_ids=plan)
                clock.tick(rng.choice([0, 1, 1, 60, 100000]))
            if tr.rig.rd is not None:
                read_matrix(tr, rng, limit=30 if ctx.quick else 120)
                # secrets expire: own token refused afterwards, nothing else changes
                if tr.tokens and tr.rig.cfg["expires_in"]:
                    clock.tick(tr.rig.cfg["expires_in"] + 1)
                    for t, c in tr.tokens[:3]:
                        tr.read("Bearer " + t, c)
            tr.finish(traces, nontrivial=tr.accepted > 0)
        # (e) providers with restricted *_supported lists
        restricted_providers(ctx, rng, clock, traces)
        imp = ["Lib.Base", "Lib.PyStr", "Lib.Urlenc", "Model.RegUri", "Model.Registration"]
        ctx.coq_check_cases(imp, "trace_case", "chk_trace", traces, shard=6, label="trace", diag="diag_trace")
        # (d) pure URI product
        pure_uri_cases(ctx, rng, 500 if ctx.quick else 20000)
    finally:
        R.rndstr, R.secret = saved
        clock.uninstall()
        logging.disable(logging.NOTSET)


def replay(ctx, rp):
    ctx.notes.append("replay re-runs the generator with the recorded seed (cases are a deterministic function of it)")
    ctx.rng.seed(rp.get("seed", ctx.seed))
    run(ctx)
