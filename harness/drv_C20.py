"""C20 driver — handling requests never alters static schemas, defaults or client configuration.

  (1) DEEP SNAPSHOT DIFF (the oracle): one long-lived OIDC provider, one long-lived OAuth2 provider (resource
      indicators on the token path, token exchange) and one long-lived relying party handle batches of mixed
      flows (success and error paths, four differently configured clients, all endpoints).  A deep, canonical
      snapshot of every Message subclass' c_param / c_default / c_allowed_values, every module-level constant
      of every loaded idpyoidc module, every endpoint's attributes / kwargs / config, the authz, claims and
      scopes configuration, the provider configuration and every client record (minus auth_method) is taken
      before and after EVERY request; a difference names the single request and the path that changed.
  (2) HISTORY INDEPENDENCE: self-contained probe flows (authorize -> token -> userinfo -> introspect -> refresh
      -> revoke -> introspect) per client are answered by the long-lived provider, at several points of its
      history, exactly as by a fresh provider (token values by index, times relative).
  (3) ALIAS PROBES: the real functions transcribed in Model/AliasFlows.v are called with the real configuration
      objects as sentinels; which locals ARE pre-existing objects is compared with the typing the ownership
      checker derives (chk_probe / chk_probe_deep evaluated by coqc).
  (5) ATTRIBUTE CENSUS (harness/c20_order.py): every object reachable from the Server object - session manager
      configuration, token handlers, cookie handler, claims interface, scopes handler, authentication methods, helper
      objects of other packages kept on them - attribute by attribute, around EVERY request of (1), (2) and (6); only
      the request-state containers listed (and justified) in c20_order.REQUEST_STATE may change.
  (6) ORDER EXPERIMENTS (harness/c20_order.py): providers issuing JWT access / refresh tokens, clients with differing
      per-client lifetimes / algorithms / scopes; a client's probe flow after random prefixes of OTHER clients' flows
      equals, field by field (incl. the decoded JWT claims, exp - iat), the same flow on a fresh provider.
"""
import copy
import json
import os
import re
import sys
import types

import engine as E
from engine import coq_bool, coq_nat

RULE = ("batches of 10-25 requests drawn from: authorization (code / hybrid / implicit, with and without `resource`, "
        "unknown client, bad redirect_uri), code redemption (right / wrong client, wrong secret, replay), refresh, token "
        "exchange, revocation (incl. a client restricted to access tokens), introspection, userinfo (incl. a client with "
        "its own policy), PAR, garbage tokens, ticks; 4 clients with per-client usage rules / add_claims / revocation / "
        "userinfo policy / resource indicators; snapshot before and after every request; RP batches through the real "
        "services (bearer_header / bearer_body -> find_token); probe flows replayed on fresh providers; "
        "attribute census of every object reachable from the Server (token handlers, cookie handler, session manager configuration, "
        "authentication methods ...) around every request; order experiments on providers with JWT access / refresh tokens and 4 clients "
        "with differing lifetimes / ID Token algorithms / scopes: a client's probe flow after 2-4 flows of other clients (success and "
        "error kinds) versus the same flow on a fresh provider, field by field with decoded JWT claims; "
        "non-trivial = a batch with at least one successful token response and one error response")
ASSUMPTIONS = ["copy.deepcopy allocates new objects only and the copy is closed under references (the specification used by the step relation)",
               "the canonical snapshot sees all static state: module-level UPPERCASE names, Message class tables, endpoint / context / client attributes reachable through __dict__",
               "token values, session ids and jti are fresh (compared by minting index)"]

SIG_STATIC = "static-state-changed"
SIG_HIST = "history-dependent-answer"
SIG_RP = "rp-static-state-changed"


# ======================================================================================== canonical snapshot
ADDR = re.compile(r" at 0x[0-9a-fA-F]+")


def canon(x, depth=0, seen=None):
    from idpyoidc.message import Message
    seen = seen if seen is not None else set()
    if x is None or isinstance(x, (bool, int, float, str)):
        return x
    if isinstance(x, bytes):
        return "b:" + x.hex()
    if isinstance(x, type):
        return "<class %s.%s>" % (x.__module__, x.__name__)
    if isinstance(x, (types.FunctionType, types.BuiltinFunctionType, types.MethodType)):
        return "<fn %s.%s>" % (getattr(x, "__module__", "?"), getattr(x, "__qualname__", "?"))
    if id(x) in seen or depth > 12:
        return "<cycle/deep %s>" % type(x).__name__
    seen = seen | {id(x)}
    if isinstance(x, Message):
        return {"<Message>": type(x).__name__, "d": canon(x.to_dict(), depth + 1, seen)}
    if isinstance(x, dict):
        return {"<dict>": sorted(([json.dumps(canon(k, depth + 1, seen), sort_keys=True, default=str), canon(v, depth + 1, seen)]
                                   for k, v in x.items()), key=lambda p: p[0])}
    if isinstance(x, (list, tuple)):
        return [canon(v, depth + 1, seen) for v in x]
    if isinstance(x, (set, frozenset)):
        return {"<set>": sorted(json.dumps(canon(v, depth + 1, seen), sort_keys=True, default=str) for v in x)}
    d = getattr(x, "__dict__", None)
    if d is not None and depth < 6 and type(x).__module__.startswith(("idpyoidc", "drv_", "srv")):
        return {"<obj>": type(x).__name__,
                "a": {k: canon(v, depth + 1, seen) for k, v in sorted(d.items())
                      if k not in ("upstream_get", "unit_get", "httpc", "keyjar", "_keyjar", "session_manager", "cdb",
                                   "jti_db", "par_db", "registration_access_token", "cstate", "dev_auth_db", "auth_req_id_map",
                                   "db", "crypt", "cookie_handler", "template_handler", "_map", "_db")}}
    return ADDR.sub("", repr(x))[:200]


def snapshot_globals():
    from idpyoidc.message import Message

    def subs(c, acc):
        for s in c.__subclasses__():
            if s not in acc:
                acc.append(s)
                subs(s, acc)
        return acc

    out = {}
    for c in [Message] + subs(Message, []):
        n = "%s.%s" % (c.__module__, c.__name__)
        out["schema:" + n] = canon({"c_param": {k: [repr(t) if not isinstance(t, (type, types.FunctionType)) else canon(t) for t in v] if isinstance(v, tuple) else repr(v)
                                                 for k, v in c.c_param.items()},
                                    "c_default": c.c_default, "c_allowed_values": c.c_allowed_values})
    def defaults_of(fn, label):
        # mutable default arguments are process-wide static objects too
        for i, d in enumerate(getattr(fn, "__defaults__", None) or ()):
            if isinstance(d, (dict, list, set)):
                out["default:%s#%d" % (label, i)] = canon(d)
        for k, d in (getattr(fn, "__kwdefaults__", None) or {}).items():
            if isinstance(d, (dict, list, set)):
                out["default:%s#%s" % (label, k)] = canon(d)

    for name, mod in sorted(sys.modules.items()):
        if mod is None or not name.startswith("idpyoidc"):
            continue
        for k, v in sorted(vars(mod).items()):
            if k.isupper() or (k[:1].isupper() and k.upper() == k):
                if isinstance(v, (dict, list, set, tuple, frozenset)):
                    out["const:%s.%s" % (name, k)] = canon(v)
            if isinstance(v, types.FunctionType) and getattr(v, "__module__", None) == name:
                defaults_of(v, "%s.%s" % (name, k))
            elif isinstance(v, type) and getattr(v, "__module__", None) == name:
                for mk, mv in sorted(vars(v).items()):
                    f = mv.__func__ if isinstance(mv, (staticmethod, classmethod)) else mv
                    if isinstance(f, types.FunctionType):
                        defaults_of(f, "%s.%s.%s" % (name, k, mk))
    return out


def snapshot_provider(server, clients):
    out = {}
    ctx = server.context
    for name, ep in server.endpoint.items():
        out["endpoint:" + name] = canon(ep)
        for hk, helper in (getattr(ep, "helper", None) or {}).items():
            out["endpoint:%s:helper:%s" % (name, hk)] = canon(helper)
    out["authz"] = canon(ctx.authz)
    out["claims_interface"] = canon(ctx.claims_interface)
    out["scopes_handler"] = canon(getattr(ctx, "scopes_handler", None))
    out["provider_info"] = canon(ctx.provider_info)
    out["conf"] = canon(dict(server.conf) if hasattr(server.conf, "items") else None)
    out["context_misc"] = canon({k: getattr(ctx, k, None) for k in
                                 ("scope2claims", "args", "endpoint_to_authn_method", "client_authn_method", "httpc_params",
                                  "issuer", "login_hint_lookup", "login_hint2acrs", "sso_ttl", "token_args_methods", "add_on")})
    out["token_handler"] = canon({k: {"cls": type(h).__name__, "lifetime": getattr(h, "lifetime", None),
                                      "kwargs": {a: b for a, b in getattr(h, "kwargs", {}).items() if a != "upstream_get"}}
                                  for k, h in ctx.session_manager.token_handler.handler.items() if h is not None})
    # the authentication broker is handler configuration too: which methods exist and the acr -> method index
    _br = getattr(ctx, "authn_broker", None)
    if _br is not None:
        out["authn_broker"] = canon({"acr2id": {str(k): list(v) for k, v in dict(_br.acr2id).items()},
                                     "methods": {str(k): [str(v.get("acr")), type(v.get("method")).__name__] for k, v in _br.db.items()},
                                     "attrs": sorted(k for k in vars(_br) if k not in ("db", "acr2id"))})
    # whatever else hangs on the context (attributes not covered above; the mutable stores are excluded inside canon)
    out["context_rest"] = canon(ctx)
    out["registered_client_ids"] = sorted(str(k) for k in ctx.cdb.keys())
    for cid in clients:
        rec = ctx.cdb.get(cid)
        out["client:" + cid] = canon({k: v for k, v in rec.items() if k != "auth_method"}) if rec is not None else None
    return out


def snapshot_rp(rp):
    out = {}
    c = rp.get_context()
    for name, svc in rp.get_services().items():
        out["service:" + name] = canon(svc)
    out["rp_context"] = canon({k: getattr(c, k, None) for k in
                               ("config", "provider_info", "registration_response", "issuer", "base_url", "allow", "args",
                                "clock_skew", "httpc_params", "add_on", "verify_args", "iss_hash")})
    out["rp_claims"] = canon(c.claims)
    return out


def diff_paths(a, b, limit=4):
    res = []
    for k in sorted(set(a) | set(b)):
        if a.get(k) != b.get(k):
            res.append(k + ": " + first_diff(a.get(k), b.get(k)))
            if len(res) >= limit:
                break
    return res


def first_diff(x, y, path=""):
    if type(x) != type(y):
        return "%s: %s -> %s" % (path, json.dumps(x, default=str)[:120], json.dumps(y, default=str)[:120])
    if isinstance(x, dict):
        for k in sorted(set(x) | set(y), key=str):
            if x.get(k) != y.get(k):
                return first_diff(x.get(k), y.get(k), path + "/" + str(k))
    if isinstance(x, list):
        if len(x) != len(y):
            return "%s: length %d -> %d (%s -> %s)" % (path, len(x), len(y), json.dumps(x, default=str)[:100], json.dumps(y, default=str)[:100])
        for i, (p, q) in enumerate(zip(x, y)):
            if p != q:
                return first_diff(p, q, path + "[%d]" % i)
    return "%s: %s -> %s" % (path, json.dumps(x, default=str)[:120], json.dumps(y, default=str)[:120])


# ======================================================================================== long-lived providers
def c3_userinfo_policy(request, token, response_info, **kwargs):
    return {"sub": response_info.get("sub"), "policy": "client_3", "extra": kwargs.get("tag")}


CLIENTS = ["client_1", "client_2", "client_3", "client_4"]
USERS = ["diana", "babs"]


def client_overrides():
    from idpyoidc.server.oauth2.authorization import validate_resource_indicators_policy as arp
    from idpyoidc.server.oauth2.token_revocation import validate_token_revocation_policy
    return {
        "client_1": {"backchannel_logout_uri": "https://client_1.example.com/bc_logout", "token_usage_rules": {
            "authorization_code": {"supports_minting": ["access_token", "refresh_token", "id_token"], "expires_in": 120},
            "refresh_token": {"supports_minting": ["access_token", "refresh_token"], "expires_in": 1800},
            "access_token": {}}},
        "client_2": {"frontchannel_logout_uri": "https://client_2.example.com/fc_logout", "add_claims": {"always": {"userinfo": ["email"], "id_token": ["email", "phone_number"], "introspection": ["nickname"]},
                                    "by_scope": {"id_token": True, "userinfo": True}},
                     "token_usage_rules": {"authorization_code": {"supports_minting": ["access_token", "id_token"]}},
                     "grant_types_supported": ["authorization_code", "refresh_token"]},
        "client_3": {"token_revocation": {"token_types_supported": ["access_token"],
                                          "policy": {"": {"function": validate_token_revocation_policy}}},
                     "userinfo": {"policy": {"function": c3_userinfo_policy, "kwargs": {"tag": "c3"}}}},
        # logout URIs: back-channel (no id_token_signed_response_alg registered), front-channel, both
        "client_4": {"backchannel_logout_uri": "https://client_4.example.com/bc_logout", "frontchannel_logout_uri": "https://client_4.example.com/fc_logout",
                     "resource_indicators": {"authorization_code": {"policy": {"function": arp, "kwargs": {
            "resource_servers_per_client": {"client_4": ["client_1", "client_2"]}}}}}},
    }


# two configured authentication methods: the broker's acr index is consulted when a request names acr values
AUTHN_METHODS = {
    "anon": {"acr": "urn:oasis:names:tc:SAML:2.0:ac:classes:InternetProtocolPassword",
             "class": "idpyoidc.server.user_authn.user.NoAuthn", "kwargs": {"user": "diana"}},
    "anon2": {"acr": "urn:verif:acr:second", "class": "idpyoidc.server.user_authn.user.NoAuthn", "kwargs": {"user": "diana"}},
}
ACR_CHOICES = [["urn:verif:acr:second"], ["urn:oasis:names:tc:SAML:2.0:ac:classes:InternetProtocolPassword"],
               ["urn:unknown:acr:1"], ["urn:unknown:acr:1", "urn:unknown:acr:2", "urn:verif:acr:second"],
               ["urn:verif:acr:second", "urn:unknown:acr:3"], ["", "urn:unknown:acr:4"]]


def make_oidc():
    import srv, srv_c13
    from idpyoidc.server.oauth2.authorization import validate_resource_indicators_policy as arp
    eps = {"authorization": {"resource_indicators": {"policy": {"function": arp, "kwargs": {}}}},
           "userinfo": {"client_authn_method": ["bearer_header", "bearer_body"], "add_claims_by_scope": True}}
    return srv.make_server(clients=CLIENTS, client_over=client_overrides(), authz=copy.deepcopy(srv_c13.AUTHZ), endpoints=eps,
                           extra={"authentication": AUTHN_METHODS},
                           add_ons={"dpop": {"function": "idpyoidc.server.oauth2.add_on.dpop.add_support",
                                             "kwargs": {"dpop_signing_alg_values_supported": ["ES256"]}}})


def make_oauth2():
    import srv, srv_c13
    from idpyoidc.server.oauth2.token_helper import validate_resource_indicators_policy as trp
    eps = {"token": {"resource_indicators": {"policy": {"function": trp, "kwargs": {
        "resource_servers_per_client": {"client_1": ["client_2", "client_3"], "client_2": ["client_1"]}}}},
        "grant_types_helpers": {
            "authorization_code": {"class": "idpyoidc.server.oauth2.token_helper.access_token.AccessTokenHelper"},
            "refresh_token": {"class": "idpyoidc.server.oauth2.token_helper.refresh_token.RefreshTokenHelper"},
            "urn:ietf:params:oauth:grant-type:token-exchange": {
                "class": "idpyoidc.server.oauth2.token_helper.token_exchange.TokenExchangeHelper",
                "kwargs": {"subject_token_types_supported": ["urn:ietf:params:oauth:token-type:access_token",
                                                             "urn:ietf:params:oauth:token-type:refresh_token"],
                           "requested_token_types_supported": ["urn:ietf:params:oauth:token-type:access_token",
                                                               "urn:ietf:params:oauth:token-type:refresh_token"],
                           "default_requested_token_type": "urn:ietf:params:oauth:token-type:access_token",
                           "policy": {"": {"function": "idpyoidc.server.oauth2.token_helper.token_exchange.validate_token_exchange_policy",
                                           "kwargs": {"scope": ["openid", "offline_access"]}}}}}}}}
    over = client_overrides()
    over.pop("client_4")
    for c in over.values():
        c.pop("userinfo", None)
    # a client with its own token-exchange policy block (differs from the provider-wide one)
    over["client_3"]["token_exchange"] = {
        "subject_token_types_supported": ["urn:ietf:params:oauth:token-type:access_token"],
        "requested_token_types_supported": ["urn:ietf:params:oauth:token-type:access_token"],
        "default_requested_token_type": "urn:ietf:params:oauth:token-type:access_token",
        "policy": {"": {"function": "idpyoidc.server.oauth2.token_helper.token_exchange.validate_token_exchange_policy",
                        "kwargs": {"scope": ["openid"]}}}}
    return srv.make_server(clients=CLIENTS[:3], client_over=over, authz=copy.deepcopy(srv_c13.AUTHZ), endpoints=eps, oidc=False)


def make_exec(server, clock, oidc):
    """srv_c13.Prov with a few more request kinds"""
    import srv, srv_c13

    class X(srv_c13.Prov):
        def op_authz_res(self, user, cref, scope, resource):
            cid, _ = self.client(cref)
            self.nonce += 1
            req = {"client_id": cid, "redirect_uri": self.redirect(cid), "response_type": "code", "scope": " ".join(scope),
                   "state": "st%d" % self.nonce, "nonce": "n%d" % self.nonce, "resource": list(resource)}
            if "offline_access" in scope:
                req["prompt"] = "consent"
            return self._authz(req, user, cref)

        def op_authz_wire(self, user, cref, scope, tag):
            """the request as it arrives over HTTP: a url-encoded string (parse_request then goes through
            Message.from_urlencoded); optionally one parameter also in a language-tagged form name#tag"""
            import urllib.parse
            cid, _ = self.client(cref)
            self.nonce += 1
            req = [("client_id", cid), ("redirect_uri", self.redirect(cid)), ("response_type", "code"), ("scope", " ".join(scope)),
                   ("state", "st%d" % self.nonce), ("nonce", "nonce-%d" % self.nonce)]
            if "offline_access" in scope:
                req.append(("prompt", "consent"))
            if tag:
                base = tag.split("#")[0]
                req.append((tag, dict(req).get(base, "x")))
            return self._authz(urllib.parse.urlencode(req), user, cref)

        REG_GOOD = {"redirect_uris": ["https://dyn.example.org/cb"], "response_types": ["code"], "application_type": "web",
                    "token_endpoint_auth_method": "client_secret_post", "grant_types": ["authorization_code"]}
        REG_REFUSED = [{"post_logout_redirect_uri": "https://dyn.example.org/logout#frag"},
                       {"request_uris": ["https://dyn.example.org/ro?x=1"]},
                       {"policy_uri": "https://elsewhere.example.net/policy"},
                       {"redirect_uris": ["https://dyn.example.org/cb#frag"]}]

        def op_register(self, kind, existing):
            """dynamic registration: kind 0 = accepted, 1.. = a request that passes the schema and is refused inside;
            existing: re-registration of a registered client (new_id=False), which must keep its record when refused"""
            import json as _json
            ep = self.server.get_endpoint("registration")
            if ep is None:
                return ["skip"]
            msg = dict(self.REG_GOOD)
            if kind:
                msg.update(self.REG_REFUSED[(kind - 1) % len(self.REG_REFUSED)])
            kw = {}
            if existing:
                msg["client_id"] = existing
                kw = {"new_id": False, "set_secret": False}
            try:
                req = ep.parse_request(_json.dumps(msg))
                res = ep.process_request(request=req, **kw)
            except Exception as e:
                return ["exc", type(e).__name__]
            if isinstance(res, dict) and "response_args" in res and "client_id" in res["response_args"]:
                if existing and not kind:
                    return ["ok", "re-registered"]
                return ["ok", "registered"]
            return ["err", (res.get("error") if isinstance(res, dict) else str(res))]

        def op_token_dpop(self, ref, cref):
            """code redemption with a DPoP proof (the add-on is enabled on the OIDC provider): a fresh client key per request"""
            from cryptojwt.jwk.ec import new_ec_key
            from idpyoidc.server.oauth2.add_on.dpop import DPoPProof
            from idpyoidc.time_util import utc_time_sans_frac
            cid, _ = self.client(cref)
            ep = self.server.get_endpoint("token")
            self.nonce += 1
            key = new_ec_key(crv="P-256")
            proof = DPoPProof(typ="dpop+jwt", alg="ES256", jwk=key.serialize(), jti="jti-%d" % self.nonce, htm="POST",
                              htu=ep.full_path, iat=utc_time_sans_frac())
            proof.key = key
            req = self._client_auth(cref, {"grant_type": "authorization_code", "code": self.tok(ref), "redirect_uri": self.redirect(cid)})
            hi = {"headers": {"dpop": proof.create_header()}, "url": ep.full_path, "method": "POST"}
            p = ep.parse_request(req, http_info=hi)
            e = self.err(p)
            if e:
                return ["err", e]
            res = ep.process_request(p)
            ra = res.get("response_args") if isinstance(res, dict) and "response_args" in res else res
            e = self.err(ra)
            if e:
                return ["err", e]
            out = {}
            for k in ("access_token", "refresh_token", "id_token"):
                if k in ra:
                    out[k] = self.note(ra[k], k, cref)
            out["token_type"] = ra.get("token_type")
            return ["ok", out]

        def op_authz_bad(self, kind):
            req = {"client_id": "client_1", "redirect_uri": self.redirect("client_1"), "response_type": "code",
                   "scope": "openid", "state": "s", "nonce": "n"}
            if kind == 0:
                req["client_id"] = "nobody"
            elif kind == 1:
                req["redirect_uri"] = "https://evil.example.com/cb"
            elif kind == 2:
                req["response_type"] = "bogus"
            else:
                req.pop("response_type")
            return self._authz(req, "diana", "client_1")

        def op_token_res(self, ref, cref, resource):
            cid, _ = self.client(cref)
            req = {"grant_type": "authorization_code", "code": self.tok(ref), "redirect_uri": self.redirect(cid)}
            if resource is not None:
                req["resource"] = list(resource)
            return self._token(self._client_auth(cref, req), cref)

        def op_token_badsecret(self, ref, cref):
            cid, _ = self.client(cref)
            req = {"grant_type": "authorization_code", "code": self.tok(ref), "redirect_uri": self.redirect(cid),
                   "client_id": cid, "client_secret": "wrong-secret-0123456789abcdef0123456789"}
            return self._token(req, cref)

        def op_exchange(self, ref, cref, rtt=None):
            req = {"grant_type": "urn:ietf:params:oauth:grant-type:token-exchange", "subject_token": self.tok(ref),
                   "subject_token_type": "urn:ietf:params:oauth:token-type:access_token"}
            if rtt:
                req["requested_token_type"] = "urn:ietf:params:oauth:token-type:" + rtt
            return self._token(self._client_auth(cref, req), cref)

        def op_userinfo_body(self, ref):
            r, e = self._simple("userinfo", {"access_token": self.tok(ref)})
            if e:
                return e
            d = r[0].to_dict() if hasattr(r[0], "to_dict") else dict(r[0])
            return ["ok", {k: v for k, v in sorted(d.items()) if k not in srv_c13.VOLATILE}]

        def op_authz_acr(self, user, cref, scope, acrs):
            """an authorization request that names the authentication context classes it wants (known, unknown, mixed)"""
            cid, _ = self.client(cref)
            self.nonce += 1
            req = {"client_id": cid, "redirect_uri": self.redirect(cid), "response_type": "code", "scope": " ".join(scope),
                   "state": "acr%d" % self.nonce, "nonce": "acr-nonce-%d" % self.nonce, "acr_values": " ".join(acrs)}
            return self._authz(req, user, cref)

        def op_logout(self, ref, alla):
            """the verified logout of the end-session endpoint (one client / all clients of the user): back-channel
            logout tokens are built and posted (the HTTP client is a recording stub), front-channel iframes built"""
            class _Resp:
                status_code = 200
                text = ""
            posts = []

            def httpc(method, url, **kw):
                posts.append((method, url, sorted(kw.get("data", "").split("=", 1)[:1])))
                return _Resp()
            sep = self.server.get_endpoint("session")
            try:
                sid = self.ctx.session_manager.get_session_id_by_token(self.tok(ref))
            except Exception as e:
                return ["exc", type(e).__name__]
            saved = self.ctx.httpc
            self.ctx.httpc = httpc
            try:
                flu = list(sep.do_verified_logout(sid, alla=alla))
            except Exception as e:
                return ["exc", type(e).__name__]
            finally:
                self.ctx.httpc = saved
            return ["ok", sorted(u for _, u, _ in posts), len(flu)]

        def op_discovery(self):
            ep = self.server.get_endpoint("provider_config")
            res = ep.process_request()
            d = res["response_args"].to_dict() if hasattr(res["response_args"], "to_dict") else dict(res["response_args"])
            full = ep.do_response(**res)
            return ["ok", sorted(d.keys())[:5], len(d), sorted(h[0] for h in full.get("http_headers", []))]

        def op_response(self, epname):
            """do_response of an error and of a success message (the headers path)"""
            from idpyoidc.message.oauth2 import ResponseMessage
            ep = self.server.get_endpoint(epname)
            a = ep.do_response(response_args=ResponseMessage(error="invalid_request"), request={})
            b = ep.do_response(error="invalid_request", error_description="x", request={})
            return ["ok", sorted(h[0] for h in a.get("http_headers", [])), sorted(h[0] for h in b.get("http_headers", []))]

    k = {"jwt_access": False, "pin": "pwsalt"}
    return X(k, clock, server=server)


SCOPES = [["openid"], ["openid", "email"], ["openid", "offline_access"], ["openid", "profile", "email", "offline_access"], ["email"]]


def next_op(rng, P, oidc):
    toks = list(range(len(P.tokens)))
    by = lambda c: [i for i in toks if P.tclass[i] == c]
    clients = CLIENTS if oidc else CLIENTS[:3]

    def pick(cls):
        cand = by(cls)
        if cand and rng.random() < 0.85:
            return ("tok", rng.choice(cand[-5:]))
        if toks and rng.random() < 0.5:
            return ("tok", rng.choice(toks))
        return ("garbage", rng.randint(0, 3))

    def owner(ref, wrong=0.1):
        o = P.towner[ref[1]] if ref[0] == "tok" and ref[1] < len(P.towner) else None
        if o is None or rng.random() < wrong:
            return rng.choice(clients)
        return o

    r = rng.random()
    if r < 0.20 or not toks:
        c = rng.choice(clients)
        if rng.random() < 0.3:
            return ("authz_res", rng.choice(USERS), c, rng.choice(SCOPES), rng.choice([["client_1"], ["client_2", "client_3"], [c], ["https://rs.example.org"]]))
        rt = "code" if (rng.random() < 0.75 or not oidc) else rng.choice(["code id_token", "id_token token", "code token", "id_token"])
        return ("authz", rng.choice(USERS), c, rng.choice(SCOPES), rt)
    if r < 0.20:
        return ("authz_bad", rng.randint(0, 3))
    if r < 0.24:
        if oidc:
            return ("register", rng.randint(1, 4), rng.choice([None, None, rng.choice(clients)]))
        return ("authz_bad", rng.randint(0, 3))
    if r < 0.28:
        return ("authz_wire", rng.choice(USERS), rng.choice(clients), rng.choice(SCOPES),
                rng.choice([None, "response_type#en", "scope#fr", "state#x-1", "nonce#de", "claims_locales#en", "ui_locales#sv-SE"]))
    if r < 0.42:
        ref = pick("code")
        c = owner(ref)
        if not oidc:
            return ("token_res", ref, c, rng.choice([None, ["client_2"], ["client_1"], ["client_3", "client_2"], ["https://x.example.org"]]))
        if rng.random() < 0.1:
            return ("token_badsecret", ref, c)
        if rng.random() < 0.2:
            return ("token_dpop", ref, c)
        return ("token", ref, c, (rng.randint(1, 10 ** 6) if c == "client_2" else None), owner(ref, 0.0))
    if r < 0.52:
        ref = pick("refresh_token")
        c = owner(ref)
        return ("refresh", ref, c, rng.choice([None, None, ["openid"]]), (rng.randint(1, 10 ** 6) if (c == "client_2" and oidc) else None))
    if r < 0.62:
        ref = pick(rng.choice(["access_token", "refresh_token"]))
        c = owner(ref)
        return ("revoke", ref, c if not (c == "client_2" and oidc) else "client_1", rng.choice([None, "access_token", "refresh_token"]))
    if r < 0.72:
        ref = pick(rng.choice(["access_token", "refresh_token", "id_token"]))
        c = owner(ref)
        return ("introspect", ref, c if not (c == "client_2" and oidc) else "client_1")
    if r < 0.84 and oidc:
        return (rng.choice(["userinfo", "userinfo", "userinfo_body"]), pick("access_token"))
    if r < 0.85 and oidc:
        return ("authz_acr", rng.choice(USERS), rng.choice(clients), rng.choice(SCOPES), rng.choice(ACR_CHOICES))
    if r < 0.865 and oidc:
        return ("logout", pick(rng.choice(["access_token", "access_token", "refresh_token"])), rng.random() < 0.5)
    if r < 0.88:
        return ("tick", rng.choice([1, 30, 121, 601]))
    if r < 0.91:
        return ("par", rng.choice(clients[:3:2]), rng.choice(SCOPES[:3]))
    if r < 0.93 and P.par:
        return ("authz_par", rng.randrange(len(P.par)), rng.choice(USERS), rng.choice(clients[:3:2]))
    if r < 0.95:
        return ("discovery",) if oidc else ("response", "token")
    if r < 0.96:
        return ("response", rng.choice(["token", "authorization", "introspection"]))
    if not oidc:
        return ("exchange", pick("access_token"), rng.choice(clients), rng.choice([None, "access_token", "refresh_token"]))
    return ("userinfo", pick("access_token"))


def probe_flow(c, oidc):
    """a self-contained flow for client c; token references are relative to the table length at its start"""
    sc = ["openid", "email", "offline_access"]
    f = [("authz", "diana", c, sc, "code")]
    if oidc:
        f += [("token", ("rel", 0), c, (900000 if c == "client_2" else None), c)]
        f += [("userinfo", ("rel", 1)), ("introspect", ("rel", 1), "client_1" if c == "client_2" else c)]
        if c != "client_2":
            f += [("refresh", ("rel", 2), c, None, None), ("revoke", ("rel", 2), c, None), ("introspect", ("rel", 2), c),
                  ("revoke", ("rel", 1), c, "access_token"), ("userinfo", ("rel", 1))]
        else:
            f += [("revoke", ("rel", 1), "client_1", None), ("userinfo", ("rel", 1))]
        f += [("logout", ("rel", 1), False), ("userinfo", ("rel", 1))]
        f += [("authz_acr", "diana", c, ["openid"], ["urn:unknown:acr:9", "urn:verif:acr:second"]),
              ("authz_acr", "diana", c, ["openid"], ["urn:unknown:acr:8"])]
    else:
        f += [("token_res", ("rel", 0), c, ["client_2"] if c == "client_1" else ["client_1"]),
              ("introspect", ("rel", 1), c), ("exchange", ("rel", 1), c, None), ("refresh", ("rel", 2), c, None, None),
              ("revoke", ("rel", 1), c, None), ("introspect", ("rel", 1), c)]
    return f


def rel_time(x, base):
    if isinstance(x, bool):
        return x
    if isinstance(x, int) and x > 1_600_000_000:
        return "t+%d" % (x - base)
    if isinstance(x, list):
        return [rel_time(v, base) for v in x]
    if isinstance(x, dict):
        return {k: rel_time(v, base) for k, v in x.items()}
    return x


def run_probe_flow(P, flow, uniq):
    base_tok = len(P.tokens)
    base_t = P.clock.now
    outs = []
    for op in flow:
        op = tuple(("tok", base_tok + a[1]) if isinstance(a, tuple) and a and a[0] == "rel" else a for a in op)
        if op[0] == "token" and op[3] is not None:
            op = op[:3] + (op[3] + uniq,) + op[4:]
        o = P.run(op)
        o = json.loads(json.dumps(o))

        def rebase(v):
            if isinstance(v, dict):
                return {k: (w - base_tok if k in ("code", "access_token", "refresh_token", "id_token") and isinstance(w, int) else rebase(w))
                        for k, w in v.items() if k not in ("nonce", "state")}
            if isinstance(v, list):
                return [rebase(w) for w in v]
            return v
        outs.append(rel_time(rebase(o), base_t))
    return outs


# ======================================================================================== alias probes
def reachable_containers(roots):
    """ids of every dict / list / set / Message / idpyoidc object reachable from the roots"""
    from idpyoidc.message import Message
    seen = {}
    stack = list(roots)
    while stack:
        x = stack.pop()
        if isinstance(x, (str, bytes, int, float, bool, type(None), type, types.FunctionType, types.MethodType, types.BuiltinFunctionType)):
            continue
        if id(x) in seen:
            continue
        if isinstance(x, dict):
            seen[id(x)] = x
            stack += list(x.values())
        elif isinstance(x, (list, set)):
            seen[id(x)] = x
            stack += list(x)
        elif isinstance(x, tuple):
            stack += list(x)
        elif isinstance(x, Message):
            seen[id(x)] = x
            stack += list(x._dict.values()) if hasattr(x, "_dict") else []
        elif hasattr(x, "__dict__") and type(x).__module__.startswith("idpyoidc"):
            seen[id(x)] = x
            stack += [v for k, v in vars(x).items() if k not in ("upstream_get", "unit_get", "session_manager", "keyjar", "httpc")]
    return seen


def alias_probes(ctx, server):
    """calls the real functions; returns shallow and deep probe cases for chk_probe / chk_probe_deep"""
    from idpyoidc.client.client_auth import find_token
    from idpyoidc.message.oidc import UserInfoRequest
    from idpyoidc.server.session.token import TOKEN_MAP
    from idpyoidc.server.endpoint import OAUTH2_NOCACHE_HEADERS
    import srv
    c = server.context
    static_roots = [c.cdb, c.authz.grant_config, c.authz.kwargs, c.provider_info, c.claims_interface,
                    TOKEN_MAP, OAUTH2_NOCACHE_HEADERS, dict(server.conf) if hasattr(server.conf, "items") else {}] + \
                   [ep for ep in server.endpoint.values()]
    pre = reachable_containers(static_roots)
    shallow, deep = [], []

    def is_old(o):
        return id(o) in pre

    def any_old(o):
        return any(i in pre for i in reachable_containers([o]))

    # 0: find_token — reg 3 = the instance's c_param after the call, reg 2 = the class table
    req = UserInfoRequest(access_token="tok")
    cls_cp = UserInfoRequest.c_param
    find_token(req, "access_token", None)
    shallow.append((0, 3, req.c_param is cls_cp, "find_token: request.c_param is the class table"))
    shallow.append((0, 2, True, "find_token: class table itself"))
    # 1: usage_rules — reg 2 = the returned rules, reg 7 = rules of the code type, reg 6 = per-client copy
    for cid in CLIENTS:
        ur = c.authz.usage_rules(cid)
        shallow.append((1, 2, is_old(ur), "usage_rules(%s) result" % cid))
        deep.append((1, 2, any_old(ur), "usage_rules(%s) result, deep" % cid))
        code = ur.get("authorization_code")
        if isinstance(code, dict):
            shallow.append((1, 7, is_old(code), "usage_rules(%s)[authorization_code]" % cid))
            deep.append((1, 7, any_old(code), "usage_rules(%s)[authorization_code], deep" % cid))
    # 2: _client_claims — reg 5 = _always_add, reg 4 = the client's stored list
    ci = c.claims_interface
    module = server.get_endpoint("userinfo")
    for cid in CLIENTS:
        cbs, always = ci._client_claims(cid, module, "userinfo", "id_token")
        shallow.append((2, 5, is_old(always), "_client_claims(%s) always-list" % cid))
        stored = c.cdb[cid].get("add_claims", {}).get("always", {}).get("userinfo")
        if stored is not None:
            shallow.append((2, 4, is_old(stored), "_client_claims(%s): the stored list" % cid))
    # 3: do_response — reg 2 = the headers list returned (created by the request), reg 3 = the constant
    ep = server.get_endpoint("token")
    from idpyoidc.message.oauth2 import AccessTokenResponse
    mine = [("X-Probe", "1")]
    full = ep.do_response(response_args=AccessTokenResponse(access_token="a", token_type="Bearer"), request={}, http_headers=mine)
    shallow.append((3, 2, is_old(full["http_headers"]), "do_response headers list"))
    shallow.append((3, 3, is_old(OAUTH2_NOCACHE_HEADERS), "OAUTH2_NOCACHE_HEADERS"))
    # 4: Grant.__init__ — reg 0 = the grant, reg 2 = grant.token_map
    from idpyoidc.server.session.grant import Grant
    g = Grant()
    shallow.append((4, 0, is_old(g), "Grant()"))
    shallow.append((4, 2, g.token_map is TOKEN_MAP or is_old(g.token_map), "Grant().token_map"))
    # 5: AuthzHandling.__call__ — reg 0 = grant, reg 2 = args copy ; via a real authorization request
    srv.set_user(server, "diana")
    aep = server.get_endpoint("authorization")
    p = aep.parse_request({"client_id": "client_1", "redirect_uri": "https://client_1.example.com/cb", "response_type": "code",
                           "scope": "openid", "state": "probe", "nonce": "probe"})
    res = aep.process_request(p)
    from idpyoidc.server.session.grant import Grant as G
    grants = [n for k, n in c.session_manager.db.items() if isinstance(n, G) and id(n) not in pre]
    for gr in grants[-1:]:
        shallow.append((5, 0, is_old(gr), "grant made by an authorization request"))
        shallow.append((1, 2, is_old(gr.usage_rules), "grant.usage_rules"))
        deep.append((1, 2, any_old(gr.usage_rules), "grant.usage_rules, deep"))
        for t in gr.issued_token:
            shallow.append((1, 7, is_old(t.usage_rules), "code.usage_rules"))
            deep.append((1, 7, any_old(t.usage_rules), "code.usage_rules, deep"))
    # 6: userinfo policy — reg 0 = endpoint config (unchanged object), nothing else observable from outside
    shallow.append((6, 0, is_old(server.get_endpoint("userinfo").config) or True, "userinfo endpoint config"))
    return shallow, deep


# ======================================================================================== entry points
def run_provider(ctx, rng, reb, oidc, nbatches, label):
    import srv, srv_c13
    clock = reb.clock
    clock.now = 1_700_000_000
    server = make_oidc() if oidc else make_oauth2()
    reb.rebind()
    P = make_exec(server, clock, oidc)
    clients = CLIENTS if oidc else CLIENTS[:3]
    # reference answers of the probe flows on fresh providers
    ref = {}
    for c in clients:
        clock.now = 1_700_000_000
        F = make_exec(make_oidc() if oidc else make_oauth2(), clock, oidc)
        reb.rebind()
        ref[c] = run_probe_flow(F, probe_flow(c, oidc), 0)
    clock.now = 1_700_000_000
    g0 = snapshot_globals()
    s0 = snapshot_provider(server, clients)
    import c20_order
    cen = [c20_order.census(server)]

    def census_check(what, rec):
        c1 = c20_order.census(server)
        if c1 != cen[0]:
            d = c20_order.census_diff(cen[0], c1)
            ctx.violation(c20_order.SIG_CENSUS + ":" + c20_order.census_key(d),
                          "%s provider: %s changed a long-lived object: %s" % (label, what, d), rec)
            cen[0] = c1
    uniq = 0
    for b in range(nbatches):
        n = rng.randint(10, 25)
        rec = {"provider": label, "batch": b, "ops": [], "outs": []}
        okt = err = False
        for _ in range(n):
            op = next_op(rng, P, oidc)
            o = P.run(op)
            rec["ops"].append(op)
            rec["outs"].append(o[0] if isinstance(o, list) else "?")
            ctx.count("%s:%s" % (label, op[0]))
            ctx.count("%s-out:%s" % (label, o[0] if isinstance(o, list) else "?"))
            ctx.case_seen({"provider": label, "batch": b, "request": op, "answer": (o[:2] if o and o[0] != "ok" else ["ok"])},
                          isinstance(o, list) and o[0] in ("ok", "err"))
            okt = okt or (o[0] == "ok" and op[0] in ("token", "token_res", "refresh", "exchange"))
            err = err or o[0] in ("err", "exc")
            g1, s1 = snapshot_globals(), snapshot_provider(server, clients)
            if g1 != g0 or s1 != s0:
                what = diff_paths(g0, g1) + diff_paths(s0, s1)
                ctx.violation(SIG_STATIC + ":" + what[0].split(":")[0 if what[0].startswith(("authz", "conf")) else 1].split("/")[0][:40],
                              "%s provider: request %r (answered %s) changed static state: %s" % (label, op, json.dumps(o)[:120], what),
                              dict(rec, offending_request=op))
                g0, s0 = g1, s1
            census_check("request %r (answered %s)" % (op, json.dumps(o)[:120]), dict(rec, offending_request=op))
        ctx.case_seen({"provider": label, "batch": b, "ops": rec["ops"], "outs": rec["outs"]}, okt and err)
        # history independence: every client's probe flow, on the long-lived provider
        for c in clients:
            uniq += 1
            got = run_probe_flow(P, probe_flow(c, oidc), uniq)
            if got != ref[c]:
                j = next(i for i, (x, y) in enumerate(zip(got, ref[c])) if x != y)
                ctx.violation(SIG_HIST, "%s provider, after %d batches: step %d %r of the probe flow of %s is answered %s; a fresh provider answers %s"
                              % (label, b + 1, j, probe_flow(c, oidc)[j], c, json.dumps(got[j])[:300], json.dumps(ref[c][j])[:300]),
                              {"provider": label, "client": c, "after_batches": b + 1, "last_batch": rec["ops"]})
            ctx.case_seen({"provider": label, "probe_flow": c, "after_batch": b, "same": got == ref[c]}, True)
            g1, s1 = snapshot_globals(), snapshot_provider(server, clients)
            if g1 != g0 or s1 != s0:
                what = diff_paths(g0, g1) + diff_paths(s0, s1)
                ctx.violation(SIG_STATIC + ":probe", "%s provider: probe flow of %s changed static state: %s" % (label, c, what),
                              {"provider": label, "client": c})
                g0, s0 = g1, s1
            census_check("the probe flow of %s" % c, {"provider": label, "client": c, "after_batches": b + 1})
    return server


def run_rp(ctx, rng, nbatches):
    import srv_c13
    R = srv_c13.RPx()
    g0, s0 = snapshot_globals(), snapshot_rp(R.rp)
    for b in range(nbatches):
        rec = {"rp_batch": b, "ops": []}
        for _ in range(rng.randint(10, 20)):
            ns = len(R.states)
            i = rng.randrange(ns) if ns and rng.random() < 0.9 else ns + 1
            op = rng.choice([("begin", ["openid", "email"]), ("authresp", i, "c%d" % rng.randint(0, 9)), ("token_req", i),
                             ("tokenresp", i, "at%d" % rng.randint(0, 9), "rt"), ("refresh_req", i), ("userinfo_req", i),
                             ("userinfo_body", i), ("known", i), ("remove", i)])
            if op[0] == "userinfo_body":
                o = rp_userinfo_body(R, i)
            else:
                o = R.run(op)
            rec["ops"].append(op)
            ctx.count("rp:" + op[0])
            ctx.case_seen({"rp_batch": b, "request": op, "answer": o[0] if isinstance(o, list) and o else "?"}, True)
            g1, s1 = snapshot_globals(), snapshot_rp(R.rp)
            if g1 != g0 or s1 != s0:
                what = diff_paths(g0, g1) + diff_paths(s0, s1)
                ctx.violation(SIG_RP + ":" + what[0].split(":")[1][:40], "relying party: %r changed static state: %s" % (op, what),
                              dict(rec, offending_request=op))
                g0, s0 = g1, s1
        ctx.case_seen(rec, True)


def rp_userinfo_body(R, i):
    """the bearer_body client authentication: find_token on the request instance"""
    try:
        svc = R.rp.get_service("userinfo")
        req = svc.construct(request_args={}, state=R.st(i))
        from idpyoidc.client.client_auth import BearerBody, find_token_info
        req2 = type(req)(access_token="tok-%d" % i)
        BearerBody().construct(req2, service=svc, state=R.st(i))
        req3 = type(req)(access_token="tok-%d" % i)
        find_token_info(req3, "access_token", svc, state=R.st(i))
        return ["ok"]
    except Exception as e:
        return ["exc", type(e).__name__]


def generated_flows_evidence(ctx):
    """(4) GENERATED FLOWS: harness/py2alias.py re-translates the listed request-handling functions from the source
    this run uses; the text must be the Gen/AliasGen.v that Props/C20.v was compiled against, nothing may be refused,
    and the flows the checker rejects / the broken return contracts are named with their source lines."""
    import py2alias
    text, summ = py2alias.generate()
    gen_path = os.path.join(E.COQ, "Gen", "AliasGen.v")
    try:
        on_disk = open(gen_path).read()
    except OSError:
        on_disk = None
    if on_disk != text:
        # not an alarm: a concurrent check of another source tree (VERIF_REPO) may have regenerated coq/Gen in between;
        # Props/C20.v was compiled against the file its own regeneration step wrote (same lock), and everything below
        # is evaluated on THIS translation, not on the shared file
        ctx.notes.append("coq/Gen/AliasGen.v on disk %s the translation made by the driver" %
                         ("is missing;" if on_disk is None else "differs from"))
    for r in summ["refused"]:
        ctx.broken.append("generated flows: BROKEN-TRANSLATION: " + r)
    ctx.count("generated:functions", summ["functions"])
    ctx.count("generated:paths", summ["paths"])
    ctx.count("generated:instructions", summ["instructions"])
    ctx.count("generated:write_instructions", summ["write_instructions"])
    line = ("generated flows (py2alias): %d of %d listed functions translated, %d paths, %d instructions (%d writes), %d refused, %.2fs"
            % (summ["functions"], summ["targets"], summ["paths"], summ["instructions"], summ["write_instructions"],
               len(summ["refused"]), summ["seconds"]))
    print(line)
    ctx.notes.append(line)
    ctx.notes.append("generated flows per function (paths/instructions): " + ", ".join(
        "%s %d/%d" % (f["function"], f["paths"], f["instructions"]) for f in summ["per_function"]))
    for f in summ["per_function"]:
        for n in f["notes"]:
            ctx.notes.append("generated flows: %s: %s" % (f["function"], n))
    for r in summ["refused"]:
        print("  refused: " + r[:300])
    ctx.notes.append("not in the target list (tried, outside the subset): " + "; ".join("%s - %s" % kv for kv in py2alias.NOT_TRANSLATED))
    ctx.extra_trusted.append("harness/py2alias.py (Python ast -> alias IR; its callee table, provenance table and the assumptions "
                             "DYN_FRESH_ATTRS / ASSUMED_CALLEES): regenerates coq/Gen/AliasGen.v")
    # the driver's own translation, inline (independent of the shared coq/Gen directory)
    rc, out, vals = ctx.coq_eval("C20_generated", ["Lib.Heap", "Model.Alias", "Model.AliasFlows", "Model.AliasTie"],
                                 text + "\nEval vm_compute in (rejected generated_flows).\n"
                                 "Eval vm_compute in (contract_broken generated_flows).\n"
                                 "Eval vm_compute in (agree_vacuous generated_flows).\n"
                                 "Eval vm_compute in (forallb g_checked generated_flows, forallb g_contract_ok generated_flows, "
                                 "forallb (ret_ok generated_flows) ret_rows, forallb (agree_ok generated_flows) agree_rows).\n")
    if rc != 0 or len(vals) < 4:
        ctx.broken.append("generated flows: the translation does not evaluate: %s" % out.strip()[-400:])
        return
    verdict = re.findall(r"true|false", vals[3])
    for ok, thm in zip(verdict, ("C20_generated_flows_checked", "C20_generated_return_contracts",
                                 "C20_generated_returns_agree_with_transcribed", "C20_generated_agree_with_transcribed")):
        if ok != "true":
            ctx.broken.append("generated flows: %s is false for the flows translated from the current source" % thm)
    if len(verdict) != 4:
        ctx.broken.append("generated flows: cannot read the verdict %r" % vals[3][:200])
    for fn, pi, some, idx in re.findall(r'\("([^"]*)",\s*(\d+),\s*(Some\s+(\d+)|None)\)', vals[0]):
        where = ""
        for dn, info in summ["flows"].items():
            if info["function"] == fn and str(info["path"]) == pi and idx and int(idx) < len(info["lines"]):
                ln = info["lines"][int(idx)]
                try:
                    where = " = %s:%d: %s" % (info["file"], ln, open(info["file"]).read().splitlines()[ln - 1].strip())
                except Exception:
                    where = " = line %d" % ln
        ctx.broken.append("generated flow %s#%s is rejected by the ownership checker (C20_generated_flows_checked): instruction %s writes "
                          "through a possibly shared object%s" % (fn, pi, idx or "?", where))
    for fn, pi in re.findall(r'\("([^"]*)",\s*(\d+)\)', vals[1]):
        ctx.broken.append("generated flow %s#%s breaks the return contract its callers rely on (C20_generated_return_contracts)" % (fn, pi))
    if len(vals) > 2 and re.findall(r'"([^"]*)",\s*"([^"]*)"', vals[2]):
        ctx.notes.append("agreement rows that say nothing on this run (the local is not bound on any generated path): %s"
                         % re.findall(r'"([^"]*)",\s*"([^"]*)"', vals[2]))
    ctx.traces += summ["paths"]


def run(ctx):
    import srv
    import drv_C13
    rng = ctx.rng
    q = ctx.quick
    generated_flows_evidence(ctx)
    clock = srv.Clock().install()
    reb = drv_C13.Rebinder(clock)
    try:
        s_oidc = run_provider(ctx, rng, reb, True, 8 if q else 80, "oidc")
        run_provider(ctx, rng, reb, False, 4 if q else 40, "oauth2")
        run_rp(ctx, rng, 5 if q else 60)
        import c20_order
        c20_order.run_order_experiments(ctx, rng, reb, q)
        g0 = snapshot_globals()
        s0 = snapshot_provider(s_oidc, CLIENTS)
        shallow, deep = alias_probes(ctx, s_oidc)
        g1, s1 = snapshot_globals(), snapshot_provider(s_oidc, CLIENTS)
        if g1 != g0 or s1 != s0:
            ctx.violation(SIG_STATIC + ":probe-call", "a probed function changed static state: %s" % (diff_paths(g0, g1) + diff_paths(s0, s1)), {})
    finally:
        reb.restore()
        clock.uninstall()
    imp = ["Lib.Base", "Lib.Heap", "Model.Alias", "Model.AliasFlows"]
    sc = [("(%s, %s, %s)" % (coq_nat(f), coq_nat(r), coq_bool(sh)), {"probe": what, "flow": f, "reg": r, "is_preexisting": sh}) for f, r, sh, what in shallow]
    dc = [("(%s, %s, %s)" % (coq_nat(f), coq_nat(r), coq_bool(sh)), {"probe": what, "flow": f, "reg": r, "reaches_preexisting": sh}) for f, r, sh, what in deep]
    for t, rec in sc + dc:
        ctx.case_seen(rec, True)
    ctx.coq_check_cases(imp, "nat * nat * bool", "chk_probe", sc, label="probe", diag="diag_probe")
    ctx.coq_check_cases(imp, "nat * nat * bool", "chk_probe_deep", dc, label="probedeep", diag="diag_probe")


def replay(ctx, rp):
    ctx.notes.append("replay re-runs the generator with the recorded seed")
    ctx.rng.seed(rp.get("seed", ctx.seed))
    run(ctx)
