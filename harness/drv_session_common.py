"""Shared part of the C02 / C03 / C05 drivers: random and structured histories on real providers
(both endpoint flavours), whole-history correspondence with Model/Session.v, per-property oracle hooks."""
import json
import sess
from engine import coq_bool, coq_list

IMPORTS = ["Lib.Base", "Lib.PyStr", "Model.Session", "Model.SessionCheck"]


def one_history(ctx, rng, plan, oidc, roi, observers, label, fixed_ops=None, rules="explicit", empty3=False, deny=False):
    rs = sess.RealSession(oidc=oidc, revoke_refresh_on_issue=roi, rules=rules, empty3=empty3, deny=deny)
    ctx.count("deny_unknown_scopes:" + ("provider-on/client_1-off" if deny else "off"))
    ctx.count("rules:" + rules)
    ctx.count("client_12-allowed-scopes:" + ("empty" if empty3 else "absent"))
    try:
        if fixed_ops is not None:
            pairs, rec = [], []
            for op in fixed_ops:
                term_op = sess.coq_op(rs, op)
                for ob in observers:
                    if hasattr(ob, "before"):
                        ob.before(rs, op)
                out = rs.run(op)
                pairs.append("(%s, %s)" % (term_op, sess.coq_out(op, out)))
                rec.append([list(op), out])
                for ob in observers:
                    ob(rs, op, out, rec)
        else:
            def obs(rs_, op, out):
                for ob in observers:
                    ob(rs_, op, out, None)

            def obs_before(rs_, op):
                for ob in observers:
                    if hasattr(ob, "before"):
                        ob.before(rs_, op)
            obs.before = obs_before
            pairs, rec = sess.run_history(rs, plan, obs)
        for ob in observers:
            fin = getattr(ob, "finish", None)
            if fin:
                fin(rs, rec)
        term = "(%s, %s, %s, %s, %s, %s)" % (coq_bool(oidc), coq_bool(roi), coq_bool(empty3), coq_bool(rules == "handler"), coq_list(pairs), sess.coq_state(rs))
        record = {"label": label, "oidc": oidc, "revoke_refresh_on_issue": roi, "usage_rules": rules, "client_12_allowed_empty": empty3, "deny_unknown_scopes": deny, "ops": rec}
        for op, out in rec:
            ctx.count("op:" + op[0])
            ctx.count("out:" + out[0] + (":" + str(out[1]) if out[0] in ("err", "exc") else ""))
        minted = sum(1 for op, out in rec if op[0] == "proc" and out[0] == "ok")
        ctx.case_seen(record, nontrivial=minted > 0)
        return term, record
    finally:
        rs.close()


def run_histories(ctx, n_random, length, observers_factory, structured=(), seed_label="rnd", focus_of=None):
    """focus_of(i): the shape of the i-th random history ("mixed" or "multi", see sess.gen_history); default: all mixed"""
    rng = ctx.rng
    cases = []
    k = 0
    RULES = ["explicit", "implied", "per-client", "handler"]
    for j, (label, oidc, roi, ops) in enumerate(structured):
        cases.append(one_history(ctx, rng, None, oidc, roi, observers_factory(), label, fixed_ops=ops, rules=RULES[j % 4]))
    for i in range(n_random):
        oidc = (i % 3 != 2)
        roi = (i % 5 == 4)
        focus = focus_of(i) if focus_of else "mixed"
        ctx.count("history-shape:" + focus)
        plan = sess.gen_history(rng, rng.randint(*length), focus=focus)
        cases.append(one_history(ctx, rng, plan, oidc, roi, observers_factory(), "%s-%d" % (seed_label, i), rules=RULES[(i // 3) % 4],
                                 empty3=(i % 4 == 1), deny=(i % 4 == 3)))
    ctx.coq_check_cases(IMPORTS, "hist", "chk_hist", cases, shard=12, label="hist", diag="diag_hist")
    return cases
