"""Shared part of the C02 / C03 / C05 drivers: random and structured histories on real providers
(both endpoint flavours), whole-history correspondence with Model/Session.v, per-property oracle hooks."""
import json
import sess
from engine import coq_bool, coq_list

IMPORTS = ["Lib.Base", "Lib.PyStr", "Model.Session", "Model.SessionCheck"]


def one_history(ctx, rng, plan, oidc, roi, observers, label, fixed_ops=None, rules="explicit", empty3=False, deny=False,
                two_redirects=False, remove_inactive=False):
    """remove_inactive: the provider runs with session_params.remove_inactive_token (the model's c_remove_inactive)"""
    rs = sess.RealSession(oidc=oidc, revoke_refresh_on_issue=roi, rules=rules, empty3=empty3, deny=deny, two_redirects=two_redirects,
                          remove_inactive=remove_inactive)
    ctx.count("remove_inactive_token:" + ("on" if remove_inactive else "off (default)"))
    if two_redirects:
        ctx.count("registered-redirect-uris-per-client:2")
    ctx.count("deny_unknown_scopes:" + ("provider-on/client_1-off" if deny else "off"))
    ctx.count("rules:" + rules)
    ctx.count("client_12-allowed-scopes:" + ("empty" if empty3 else "absent"))
    try:
        if fixed_ops is not None:
            pairs, rec = [], []
            for op in fixed_ops:
                term_op = sess.coq_op(rs, op)
                for ob in observers:
                    if hasattr(ob, "before"):
                        ob.before(rs, op)
                out = rs.run(op)
                pairs.append("(%s, %s)" % (term_op, sess.coq_out(op, out)))
                rec.append([list(op), out])
                for ob in observers:
                    ob(rs, op, out, rec)
        else:
            def obs(rs_, op, out):
                for ob in observers:
                    ob(rs_, op, out, None)

            def obs_before(rs_, op):
                for ob in observers:
                    if hasattr(ob, "before"):
                        ob.before(rs_, op)
            obs.before = obs_before
            pairs, rec = sess.run_history(rs, plan, obs)
        for ob in observers:
            fin = getattr(ob, "finish", None)
            if fin:
                fin(rs, rec)
        term = "(%s, %s, %s, %s, %s, %s, %s)" % (coq_bool(oidc), coq_bool(roi), coq_bool(empty3), coq_bool(rules == "handler"),
                                                 coq_bool(remove_inactive), coq_list(pairs), sess.coq_state(rs))
        record = {"label": label, "oidc": oidc, "revoke_refresh_on_issue": roi, "usage_rules": rules, "client_12_allowed_empty": empty3, "deny_unknown_scopes": deny,
                  "remove_inactive_token": remove_inactive, "ops": rec}
        logs = iter(rs.cookie_log)
        for op, out in rec:
            ctx.count("op:" + op[0])
            if op[0] == "authzc":
                count_cookie_op(ctx, next(logs), op, out)
            if op[0] == "authzr":
                ctx.count("front-channel-authz:%s:%s:%s" % ("oidc" if oidc else "oauth2", op[4].replace(" ", "+"), out[0]))
            ctx.count("out:" + out[0] + (":" + str(out[1]) if out[0] in ("err", "exc") else ""))
        minted = sum(1 for op, out in rec if op[0] == "proc" and out[0] == "ok")
        ctx.case_seen(record, nontrivial=minted > 0)
        return term, record
    finally:
        rs.close()


def count_cookie_op(ctx, log, op, out):
    """coverage of the cookie-authorization class (what was asked relative to the grant whose cookie came back)"""
    _, prev, user, client, scope, redirect, fresh = op
    if not log["cookie"]:
        ctx.count("cookie-authz:no-cookie:redirect-" + ("second" if redirect.endswith("cb2") else "first") + ":" + out[0])
        return
    held = log["held"] or {"scope": [], "redirect_uri": None}
    a, b = set(scope), set(held["scope"])
    rel = ("same" if list(scope) == list(held["scope"]) else "reordered" if a == b else "narrower" if a < b else "wider" if a > b
           else "disjoint" if not (a & b) else "overlapping")
    ctx.count("cookie-authz:scope-" + rel)
    ctx.count("cookie-authz:redirect-" + ("same" if redirect == held["redirect_uri"] else "other-registered"))
    ctx.count("cookie-authz:client-" + ("same" if client == log["grant"][1] else "other"))
    ctx.count("cookie-authz:user-" + ("same" if user == log["grant"][0] else "other"))
    ctx.count("cookie-authz:nonce-" + ("new" if fresh else "same"))
    ctx.count("cookie-authz:outcome-" + (out[0] if out[0] != "ok" else "code-in-the-same-grant" if log["grants_after"] == log["grants_before"] else "code-in-a-new-grant"))


def cookie_structured(scope_variants=True):
    """Authorizing again within a browser session, as fixed histories (both flavours; the usage rules reach the provider in
    one of the three provider-wide ways): a login whose code stays pending, then an authorization request with the session
    cookie that (a) is the identical request, (b) names the client's other registered redirect_uri, (c) asks for a narrower
    scope, (d) for a wider one, (e) comes for another client; then EVERY code is presented with each registered redirect_uri
    (the foreign one first in half of the histories), and whatever was minted is introspected."""
    cases = []
    users = ["diana", "babs"]
    k = 0
    for oidc in (True, False):
        for cl in ("client_1", "client_2"):
            cb, cb2 = sess.registered_redirects(cl)
            base = ["openid", "email", "offline_access", "phone"]
            variants = [("identical", base, cb, False, cl), ("other-redirect", base, cb2, True, cl), ("other-redirect-same-nonce", base, cb2, False, cl)]
            if scope_variants:
                variants += [("narrower", ["openid"], cb, True, cl), ("narrower-same-nonce", ["openid", "email"], cb, False, cl),
                             ("wider", base + ["profile", "address"], cb, False, cl), ("reordered", list(reversed(base)), cb, False, cl),
                             ("other-client", base, None, True, "client_12")]
            for vname, sc2, red2, fresh, cl2 in variants:
                u = users[k % 2]
                first_cb = cb if k % 3 else cb2
                if first_cb == cb2:      # the login used the second registered redirect_uri
                    red2 = {cb: cb2, cb2: cb}.get(red2, red2)
                red2 = red2 or sess.registered_redirects(cl2)[k % 2]
                ops = [("authzc", 0, u, cl, base, first_cb, True),           # no session yet: no cookie
                       ("authzc", 0, u, cl2, sc2, red2, fresh)]              # the cookie of the first authorization comes back
                order = ["alt", "same"] if k % 2 else ["same", "alt"]
                n = 0
                for red in order:
                    for code, owner in ((0, cl), (1, cl2)):
                        ops += [("tparse", owner, ("tok", code), red), ("proc", n, None)]
                        n += 1
                ops += [("tparse", cl, ("tok", 0), "same"), ("proc", n, None)]      # and once more
                ops += [("introspect", cl2 if i % 2 else cl, ("tok", i)) for i in range(2, 10)]
                cases.append(("cookie-%s-%s-%s" % ("oidc" if oidc else "oauth2", cl, vname), oidc, False, ops, ["explicit", "implied", "handler"][k % 3]))
                k += 1
        # the age of the authentication (AuthnEvent.is_valid, valid for 3600 s in the harness configuration): the identical
        # request comes back with the cookie one second before, exactly at and one second after valid_until
        for d in (3599, 3600, 3601):
            cl = "client_1"
            cb, cb2 = sess.registered_redirects(cl)
            base = ["openid", "email", "offline_access", "phone"]
            ops = [("authzc", 0, "diana", cl, base, cb, True), ("tick", d), ("authzc", 0, "diana", cl, base, cb, False),
                   ("tparse", cl, ("tok", 1), "same"), ("proc", 0, None), ("tparse", cl, ("tok", 0), "same"), ("proc", 1, None)]
            ops += [("introspect", cl, ("tok", i)) for i in range(1, 5)]
            cases.append(("cookie-%s-authn-age-%d" % ("oidc" if oidc else "oauth2", d), oidc, False, ops, ["explicit", "implied", "handler"][k % 3]))
            k += 1
        if scope_variants:
            # the first authorization is granted NOTHING (no requested scope is allowed for the client); the identical request
            # comes back with the cookie; then a request for more
            for cl, sc, kw in (("client_12", ["openid", "email"], {"empty3": True}),) + ((("client_1", ["phone", "address"], {}),) if not oidc else ()):
                cb, cb2 = sess.registered_redirects(cl)
                ops = [("authzc", 0, "diana", cl, sc, cb, True), ("authzc", 0, "diana", cl, sc, cb, False),
                       ("authzc", 0, "diana", cl, sc + ["profile"], cb, False)]
                for code in (1, 0, 2):
                    ops += [("tparse", cl, ("tok", code), "same"), ("proc", [1, 0, 2].index(code), None)]
                ops += [("introspect", cl, ("tok", i)) for i in range(3, 9)]
                cases.append(("cookie-%s-%s-nothing-granted" % ("oidc" if oidc else "oauth2", cl), oidc, False, ops, ["explicit", "handler"][k % 2], kw))
                k += 1
    return cases


def run_histories(ctx, n_random, length, observers_factory, structured=(), seed_label="rnd", focus_of=None, cookie=False, front=0.0,
                  remove_inactive_of=None):
    """focus_of(i): the shape of the i-th random history ("mixed", "multi" or "cookie", see sess.gen_history); default: all
    mixed.  cookie: the providers register two redirect_uris per client and the random part of every history contains
    authorization requests that carry a session cookie (needs observers that understand the "authzc" operation)
    front: the share of the authorization requests of the random part that use an implicit / hybrid response type (needs
    observers that understand the "authzr" operation)
    remove_inactive_of(i): does the provider of the i-th random history run with session_params.remove_inactive_token
    (default: none does); a structured history asks for it with {"remove_inactive": True} in its sixth component"""
    rng = ctx.rng
    cases = []
    k = 0
    RULES = ["explicit", "implied", "per-client", "handler", "partial"]
    for j, entry in enumerate(structured):
        label, oidc, roi, ops = entry[:4]
        rules = entry[4] if len(entry) > 4 else RULES[j % 5]      # a structured history may name the usage-rule delivery it runs under
        kw = entry[5] if len(entry) > 5 else {}                   # ... and the registration variant (empty3)
        cases.append(one_history(ctx, rng, None, oidc, roi, observers_factory(), label, fixed_ops=ops, rules=rules,
                                 two_redirects=cookie, **kw))
    for i in range(n_random):
        oidc = (i % 3 != 2)
        roi = (i % 5 == 4)
        focus = focus_of(i) if focus_of else "mixed"
        ctx.count("history-shape:" + focus)
        plan = sess.gen_history(rng, rng.randint(*length), focus=focus, p_cookie=0.4 if cookie else 0.0, p_front=front)
        cases.append(one_history(ctx, rng, plan, oidc, roi, observers_factory(), "%s-%d" % (seed_label, i), rules=RULES[(i // 3) % 5],
                                 empty3=(i % 4 == 1), deny=(i % 4 == 3), two_redirects=cookie,
                                 remove_inactive=bool(remove_inactive_of and remove_inactive_of(i))))
    ctx.coq_check_cases(IMPORTS, "hist", "chk_hist", cases, shard=12, label="hist", diag="diag_hist")
    return cases
