"""Shared engine of the /verif checks.

One check of property Cxx =
  1. regenerate coq/Gen/*.v from /repo/src (gen_tables.py, py2v.py)
  2. build coq/Props/Cxx.vo and everything it needs (full .vo build), capture Print Assumptions,
     hygiene scan (no Admitted/Axiom/...)
  3. run the property's driver harness/drv_Cxx.py: it drives the real implementation, evaluates the
     Gallina model on the same inputs inside coqc (Eval vm_compute over generated case files) and
     applies an independent oracle written from the property text
  4. verdict + evidence/Cxx.json (+ replays/...)
"""
import fcntl
import hashlib
import importlib
import json
import os
import shutil
import random
import re
import subprocess
import sys
import time
import traceback

VERIF = os.path.dirname(os.path.dirname(os.path.abspath(__file__)))
COQ = os.path.join(VERIF, "coq")
BUILD = os.path.join(VERIF, "build")
REPO = os.environ.get("VERIF_REPO", "/repo")   # development only: a scratch copy for mutation trials
PY = "/venv/bin/python"
NCPU = os.cpu_count() or 8

ALLOWED_AXIOMS = {
    # standard-library axioms that may appear (none is expected; each is reported when it does)
    "functional_extensionality_dep", "proof_irrelevance", "classic", "JMeq_eq", "eq_rect_eq",
    "Eqdep.Eq_rect_eq.eq_rect_eq", "propositional_extensionality",
}
FORBIDDEN = re.compile(
    r"\b(Admitted|admit|Axiom|Axioms|Parameter|Parameters|Conjecture|Conjectures|"
    r"Admit Obligations|bypass_check|native_compute)\b|Unset\s+Guard|Unset\s+Positivity|"
    r"Unset\s+Universe\s+Checking|type-in-type|impredicative-set"
)
STMT = re.compile(r"^\s*(?:Local\s+|Global\s+|#\[[^\]]*\]\s*)*(Theorem|Lemma|Corollary|Example|Fact|"
                  r"Proposition|Remark)\s+([A-Za-z_][A-Za-z0-9_']*)", re.M)


def sh(cmd, timeout=None, cwd=None, env=None):
    p = subprocess.run(cmd, shell=isinstance(cmd, str), cwd=cwd, env=env, timeout=timeout,
                       stdout=subprocess.PIPE, stderr=subprocess.STDOUT, text=True, errors="replace")
    return p.returncode, p.stdout


import threading
_COQ_SLOTS = threading.BoundedSemaphore(int(os.environ.get("VERIF_COQ_JOBS", "0")) or NCPU)
_built_guard = threading.Lock()
_built_imports = set()


class Lock:
    def __init__(self, exclusive):
        os.makedirs(BUILD, exist_ok=True)
        self.f = open(os.path.join(BUILD, ".lock"), "w")
        self.mode = fcntl.LOCK_EX if exclusive else fcntl.LOCK_SH

    def __enter__(self):
        fcntl.flock(self.f, self.mode)
        return self

    def __exit__(self, *a):
        fcntl.flock(self.f, fcntl.LOCK_UN)
        self.f.close()


# ------------------------------------------------------------------ Coq literals
def coq_str(s):
    """Python str -> Gallina term of type pystr (list N)."""
    if s is None:
        raise ValueError("None is not a string")
    if all(32 <= ord(c) < 127 and c != '"' for c in s):
        return '(PS "%s")' % s
    return "[" + ";".join(str(ord(c)) for c in s) + "]%N" if s else "(@nil N)"


def coq_bool(b):
    return "true" if b else "false"


def coq_z(n):
    return "(%d)%%Z" % n


def coq_n(n):
    return "%d%%N" % n


def coq_nat(n):
    return "%d%%nat" % n


def coq_list(items, ty=None):
    if not items:
        return "(@nil %s)" % ty if ty else "[]"
    return "[" + "; ".join(items) + "]"


def coq_opt(x, f, ty=None):
    if x is None:
        return "(@None %s)" % ty if ty else "None"
    return "(Some %s)" % f(x)


def coq_pyval(v):
    if v is None:
        return "VNone"
    if v is True or v is False:
        return "(VBool %s)" % coq_bool(v)
    if isinstance(v, int):
        return "(VInt %s)" % coq_z(v)
    if isinstance(v, str):
        return "(VStr %s)" % coq_str(v)
    if isinstance(v, (list, tuple)):
        return "(VList %s)" % coq_list([coq_pyval(x) for x in v], "pyval")
    if isinstance(v, dict):
        return "(VDict %s)" % coq_list(["(%s, %s)" % (coq_str(k), coq_pyval(x)) for k, x in v.items()],
                                       "(pystr * pyval)")
    raise ValueError("no pyval for %r" % (v,))


# ------------------------------------------------------------------ regeneration and build
def regen(log):
    """Regenerate coq/Gen/*.v from /repo's current working tree. Returns list of broken
    translation obligations (strings)."""
    env = dict(os.environ, PYTHONPATH=REPO + "/src", PYTHONHASHSEED="0")
    os.makedirs(os.path.join(COQ, "Gen"), exist_ok=True)
    broken = []
    for script in ("gen_tables.py", "py2v.py"):
        path = os.path.join(VERIF, "harness", script)
        if not os.path.exists(path):
            continue
        rc, out = sh([PY, path, os.path.join(COQ, "Gen")], timeout=300, env=env, cwd=VERIF)
        log.append("== %s rc=%d\n%s" % (script, rc, out[-4000:]))
        for line in out.splitlines():
            if line.startswith("BROKEN-TRANSLATION:"):
                broken.append(line[len("BROKEN-TRANSLATION:"):].strip())
        if rc != 0:
            broken.append("%s failed: %s" % (script, out.strip().splitlines()[-1] if out.strip() else rc))
    # generators whose output only ONE property reads: they report what they refuse inside their own file (that
    # property's Props file states the refusal list is empty), and if the script itself cannot run its file is
    # removed, so that only that property's build breaks - never an obligation of the other properties
    for script, outfile in (("py2alias.py", "AliasGen.v"),):          # C20: alias-IR of the request-handling functions
        path = os.path.join(VERIF, "harness", script)
        if not os.path.exists(path):
            continue
        try:
            rc, out = sh([PY, path, os.path.join(COQ, "Gen")], timeout=120, env=env, cwd=VERIF)
        except Exception as e:
            rc, out = 1, "%s: %s" % (type(e).__name__, e)
        log.append("== %s rc=%d\n%s" % (script, rc, out[-4000:]))
        if rc != 0:
            try:
                os.remove(os.path.join(COQ, "Gen", outfile))
            except OSError:
                pass
    return broken


def all_v_files():
    res = []
    for d in ("Lib", "Gen", "Model", "Proofs", "Props"):
        dd = os.path.join(COQ, d)
        if os.path.isdir(dd):
            for f in sorted(os.listdir(dd)):
                if f.endswith(".v"):
                    res.append("%s/%s" % (d, f))
    return res


def ensure_makefile(log):
    files = all_v_files()
    proj = "-Q . Verif\n-arg -w -arg -notation-overridden,-deprecated-hint-without-locality,-deprecated-instance-without-locality\n" + "\n".join(files) + "\n"
    pp = os.path.join(COQ, "_CoqProject")
    old = open(pp).read() if os.path.exists(pp) else None
    if old != proj or not os.path.exists(os.path.join(COQ, "Makefile")):
        open(pp, "w").write(proj)
        rc, out = sh("coq_makefile -f _CoqProject -o Makefile", cwd=COQ, timeout=120)
        log.append("coq_makefile rc=%d %s" % (rc, out[-500:]))
        if rc != 0:
            raise RuntimeError("coq_makefile failed: " + out)


def deps_of(vfile, seen=None):
    """Transitive closure of 'Require ... Verif.X.Y' inside /verif/coq (relative .v paths)."""
    seen = seen if seen is not None else []
    if vfile in seen:
        return seen
    seen.append(vfile)
    try:
        txt = open(os.path.join(COQ, vfile)).read()
    except OSError:
        return seen
    txt = re.sub(r"\(\*.*?\*\)", "", txt, flags=re.S)
    # sentences end with a period followed by white space
    for sent in re.split(r"\.\s", txt + "\n"):
        m = re.match(r"\s*(?:From\s+(\S+)\s+)?Require\s+(?:Import\s+|Export\s+)?(.*)$", sent.strip(), re.S)
        if not m:
            continue
        prefix = m.group(1)
        for mod in m.group(2).split():
            parts = mod.split(".")
            if prefix and prefix.split(".")[0] == "Verif":
                parts = prefix.split(".")[1:] + parts
            elif parts[0] == "Verif":
                parts = parts[1:]
            else:
                continue
            if len(parts) == 2 and os.path.exists(os.path.join(COQ, parts[0], parts[1] + ".v")):
                deps_of("%s/%s.v" % (parts[0], parts[1]), seen)
    return seen


def build(targets, log, clean=False, timeout=1500):
    """make the given .vo targets (relative to coq/). Returns (ok, failing_file, error_text)."""
    ensure_makefile(log)
    if clean:
        sh("make clean", cwd=COQ, timeout=300)
        ensure_makefile(log)
    cmd = "timeout %d make -j%d %s" % (timeout, NCPU, " ".join(targets))
    rc, out = sh(cmd, cwd=COQ, timeout=timeout + 60)
    log.append("== %s rc=%d\n%s" % (cmd, rc, out[-6000:]))
    if rc == 0:
        return True, None, ""
    m = re.search(r'File "\./?([^"]+)", line (\d+), characters [^\n]*\n(.*?)(?:\nmake|\Z)', out, re.S)
    if m:
        return False, (m.group(1), int(m.group(2))), m.group(3).strip()[:3000]
    return False, None, out[-3000:]


def enclosing_statement(vfile, line):
    try:
        lines = open(os.path.join(COQ, vfile)).read().splitlines()
    except OSError:
        return None
    for i in range(min(line, len(lines)) - 1, -1, -1):
        m = STMT.match(lines[i])
        if m:
            return m.group(2)
    return None


def hygiene(files):
    bad = []
    for f in files:
        try:
            txt = open(os.path.join(COQ, f)).read()
        except OSError:
            continue
        code = re.sub(r"\(\*.*?\*\)", "", txt, flags=re.S)
        code = re.sub(r'"[^"]*"', '""', code)
        for m in FORBIDDEN.finditer(code):
            bad.append("%s: %s" % (f, m.group(0)))
        # Variable/Hypothesis outside a section
        depth = 0
        for ln in code.splitlines():
            s = ln.strip()
            if re.match(r"Section\s+\w+", s):
                depth += 1
            elif re.match(r"End\s+\w+", s) and depth > 0:
                depth -= 1
            elif depth == 0 and re.match(r"(Variable|Variables|Hypothesis|Hypotheses|Context)\b", s):
                bad.append("%s: %s outside a section" % (f, s[:40]))
    return bad


def count_statements(files):
    names = []
    for f in files:
        try:
            txt = open(os.path.join(COQ, f)).read()
        except OSError:
            continue
        code = re.sub(r"\(\*.*?\*\)", "", txt, flags=re.S)
        names += ["%s:%s" % (f, m.group(2)) for m in STMT.finditer(code)]
    return names


def print_assumptions(prop, log):
    """Re-compile Props/Cxx.v alone to capture its Print Assumptions output."""
    vf = "Props/%s.v" % prop
    rc, out = sh("timeout 600 coqc -Q . Verif -w -notation-overridden %s" % vf, cwd=COQ, timeout=700)
    log.append("== coqc %s rc=%d\n%s" % (vf, rc, out[-3000:]))
    closed = out.count("Closed under the global context")
    axioms = []
    if "Axioms:" in out:
        for blk in out.split("Axioms:")[1:]:
            for ln in blk.splitlines():
                m = re.match(r"^([A-Za-z_][\w.']*)\s*:", ln)
                if m:
                    axioms.append(m.group(1))
                elif ln.strip() == "" and axioms:
                    break
    return rc == 0, closed, sorted(set(axioms)), out


# ------------------------------------------------------------------ evaluating the model in Coq
def parse_eval_outputs(out):
    """Split coqc stdout into the values printed by successive `Eval ... in` commands."""
    vals = []
    cur = None
    for ln in out.splitlines():
        if ln.startswith("     = "):
            if cur is not None:
                vals.append(cur)
            cur = ln[7:]
        elif cur is not None:
            if ln.startswith("     : "):
                vals.append(cur)
                cur = None
            else:
                cur += " " + ln.strip()
    if cur is not None:
        vals.append(cur)
    return [v.strip() for v in vals]


def parse_nat_list(v):
    v = v.strip()
    v = re.sub(r"\s*:\s*list nat\s*$", "", v)
    v = v.replace("%nat", "")
    if v in ("[]", "nil"):
        return []
    m = re.match(r"^\[(.*)\]$", v, re.S)
    if not m:
        raise ValueError("cannot parse nat list: %r" % v[:200])
    return [int(x) for x in m.group(1).replace("\n", " ").split(";") if x.strip()]


class Ctx:
    """What a driver sees."""

    def __init__(self, prop, tier, seed, replay=None):
        self.prop, self.tier, self.seed, self.replay = prop, tier, seed, replay
        self.rng = random.Random(seed)
        self.dir = os.path.join(BUILD, prop)
        # generated case files of earlier runs are not kept (a thorough run writes thousands of shards)
        shutil.rmtree(os.path.join(self.dir, "cases"), ignore_errors=True)
        os.makedirs(os.path.join(self.dir, "cases"), exist_ok=True)
        self.mismatches = []      # model vs implementation differences
        self.violations = []      # oracle verdicts: dicts {sig, what, case}
        self.evaluations = 0
        self.nontrivial = set()
        self.samples = []
        self.distribution = {}
        self.unmodelled = 0
        self.traces = 0
        self.notes = []
        self.extra_trusted = []
        self.broken = []          # broken obligations found by the driver itself
        self.quick = tier == "quick"
        self.shard_seq = 0

    # --- bookkeeping
    def count(self, key, n=1):
        self.distribution[key] = self.distribution.get(key, 0) + n

    def case_seen(self, case, nontrivial=True):
        self.evaluations += 1
        if nontrivial:
            self.nontrivial.add(hashlib.sha1(json.dumps(case, sort_keys=True, default=str).encode()).hexdigest())
        if len(self.samples) < 4 or (self.evaluations % 997 == 0 and len(self.samples) < 8):
            self.samples.append(json.loads(json.dumps(case, default=str)))

    def violation(self, sig, what, case):
        self.violations.append({"sig": sig, "what": what, "case": json.loads(json.dumps(case, default=str))})

    def mismatch(self, what, case, model=None, impl=None):
        self.mismatches.append({"what": what, "case": json.loads(json.dumps(case, default=str)),
                                "model": model, "impl": impl})

    # --- Coq evaluation
    def ensure_built(self, imports):
        """the modules a case file imports are rebuilt from the current model sources / regenerated tables
        (they need not be in the dependency closure of Props/Cxx.v)"""
        with _built_guard:
            need = [i for i in imports if i not in _built_imports]
            if not need:
                return
            log = []
            with Lock(True):
                ok, where, err = build([i.replace(".", "/") + ".vo" for i in need], log)
            if ok:
                _built_imports.update(need)
            else:
                self.broken.append("model module does not build (%s): %s" % ("%s line %d" % where if where else "build", err[:800]))

    def coq_eval(self, name, imports, body, timeout=900):
        """Compile a generated .v file; returns (rc, stdout, list of Eval outputs)."""
        path = os.path.join(self.dir, "cases", name + ".v")
        self.ensure_built(imports)
        with open(path, "w") as f:
            f.write("From Coq Require Import String.\nFrom Verif Require Import %s.\nOpen Scope string_scope.\nSet Printing Width 100000.\nSet Printing Depth 100000.\n" % " ".join(imports))
            f.write(body)
        # at most NCPU case files are evaluated at a time, however many groups a driver runs concurrently
        # (each coqc needs about half a gigabyte)
        with _COQ_SLOTS:
            with Lock(False):
                rc, out = sh("ulimit -s unlimited 2>/dev/null; timeout %d coqc -Q %s Verif -w -notation-overridden %s" % (timeout, COQ, path),
                             cwd=os.path.join(self.dir, "cases"), timeout=timeout + 30)
        return rc, out, parse_eval_outputs(out)

    def coq_check_cases(self, imports, case_type, checker, cases, shard=400, label="cases", describe=None, diag=None):
        """cases: list of (coq_term_for_case, python_case_record). The Gallina `checker : case_type -> bool`
        is evaluated on every case by vm_compute; returns list of python_case_records on which it is false
        (model and implementation disagree). Also records mismatches."""
        shards = [cases[i:i + shard] for i in range(0, len(cases), shard)]
        jobs = []
        for k, sh_cases in enumerate(shards):
            self.shard_seq += 1
            name = "%s_%s_%03d" % (self.prop, label, self.shard_seq)
            body = "Definition cases : list (%s) := [\n%s\n].\nEval vm_compute in (bad_indices (%s) cases).\n" % (
                case_type, ";\n".join(t for t, _ in sh_cases), checker)
            jobs.append((name, body, sh_cases))
        bad = []
        # run shards in parallel
        from concurrent.futures import ThreadPoolExecutor
        def run(job):
            name, body, sh_cases = job
            return job, self.coq_eval(name, imports, body)
        with ThreadPoolExecutor(max_workers=min(NCPU, max(1, len(jobs)))) as ex:
            results = list(ex.map(run, jobs))
        for (name, body, sh_cases), (rc, out, vals) in results:
            if rc != 0 or not vals:
                self.broken.append("correspondence shard %s does not evaluate: %s" % (name, out.strip()[-600:]))
                continue
            try:
                idx = parse_nat_list(vals[-1])
            except ValueError as e:
                self.broken.append("correspondence shard %s: %s" % (name, e))
                continue
            self.traces += len(sh_cases)
            dvals = {}
            if idx and diag:
                # what does the model say on the disagreeing cases?  (diagnostics only)
                dbody = "".join("Eval vm_compute in (%s (%s)).\n" % (diag, sh_cases[i][0]) for i in idx[:5])
                drc, dout, dv = self.coq_eval(name + "_diag", imports, dbody)
                dvals = dict(zip(idx[:5], dv))
            for i in idx:
                rec = sh_cases[i][1]
                bad.append(rec)
                self.mismatch("model and implementation disagree (%s, %s[%d])" % (label, name, i), rec,
                              model=dvals.get(i, describe(sh_cases[i]) if describe else sh_cases[i][0][:2000]))
        return bad


# ------------------------------------------------------------------ known findings
def load_known():
    known, fixed = {}, []
    p = os.path.join(VERIF, "known_findings.txt")
    if os.path.exists(p):
        for ln in open(p):
            ln = ln.strip()
            m = re.match(r"finding:\s+property=(C\d+)\s+key=(\S+)\s+(.*)", ln)
            if m:
                known.setdefault(m.group(1), {})[m.group(2)] = m.group(3)
            elif ln.startswith("fixed:"):
                fixed.append(ln)
    return known, fixed


# ------------------------------------------------------------------ main entry
def repo_status():
    rc, out = sh("git -C %s status --porcelain" % REPO, timeout=60)
    return out


def run_check(prop, tier, seed, replay=None):
    t0 = time.time()
    log = []
    os.makedirs(os.path.join(VERIF, "evidence"), exist_ok=True)
    os.makedirs(os.path.join(VERIF, "replays"), exist_ok=True)
    os.makedirs(BUILD, exist_ok=True)
    status_before = repo_status()
    ctx = Ctx(prop, tier, seed, replay)
    broken = []          # (what, detail)
    props_v = "Props/%s.v" % prop
    with Lock(True):
        files = None
        for b in regen(log):
            # py2v tags a refusal with the generated file the function belongs to: it is an obligation of exactly the
            # properties whose Props closure reads that file (the others never mention the function); untagged lines
            # (table generators) stay obligations of every property
            m = re.match(r"\[(Gen/\w+\.v)\] ", b)
            if m:
                files = files if files is not None else deps_of(props_v)
                if m.group(1) not in files:
                    log.append("translation refusal outside the closure of %s: %s" % (props_v, b))
                    continue
            broken.append(("translation", b))
        files = deps_of(props_v)
        ok, where, err = build([props_v + "o"], log)
        if not ok:
            stmt = enclosing_statement(where[0], where[1]) if where else None
            broken.append(("proof", "%s%s does not check: %s" % (
                "%s line %d" % where if where else "build", " (in %s)" % stmt if stmt else "", err[:1500])))
            # keep the executable model available for the correspondence even if a proof broke
            model_targets = [f + "o" for f in files if f.startswith(("Lib/", "Gen/", "Model/"))]
            ok2, where2, err2 = build(model_targets, log)
            if not ok2:
                broken.append(("model", "model does not compile: %s %s" % (where2, err2[:800])))
    stmts = count_statements(files)
    hyg = hygiene(files)
    for h in hyg:
        broken.append(("hygiene", h))
    closed, axioms, pa_out = 0, [], ""
    if ok:
        with Lock(False):        # nobody rebuilds the tree while this file is re-read against it
            pa_ok, closed, axioms, pa_out = print_assumptions(prop, log)
        if not pa_ok:
            broken.append(("proof", "Props/%s.v does not recompile" % prop))
        for a in axioms:
            if a.split(".")[-1] not in ALLOWED_AXIOMS and a not in ALLOWED_AXIOMS:
                broken.append(("axiom", "theorem depends on non-standard axiom %s" % a))

    # independent re-check of the compiled development (thorough tier of the designated property only)
    coqchk_note = None
    if ok and tier == "thorough" and prop == "C14" and not replay:
        # bring every Props object up to date with the regenerated Gen files first: objects left behind by a run of another
        # property against another tree (or before a source change) are inconsistent with their dependencies and coqchk
        # then dies with a fatal type error - an alarm that has nothing to do with the axioms.  A Props module that does not
        # build NOW is an obligation of its own property's check, not of this re-check: it is left out (and counted).
        with Lock(True):
            props_all = sorted(f[:-2] for f in os.listdir(os.path.join(COQ, "Props")) if f.endswith(".v"))
            rc_m, out_m = sh("timeout 2700 make -k -j%d %s" % (NCPU, " ".join("Props/%s.vo" % x for x in props_all)), cwd=COQ, timeout=2800)
            log.append("== make -k of every Props module before coqchk rc=%d\n%s" % (rc_m, out_m[-1500:]))
            fresh = [x for x in props_all if sh("make -q Props/%s.vo" % x, cwd=COQ, timeout=120)[0] == 0]
        mods = " ".join("Verif.Props." + x for x in fresh)
        with Lock(False):
            rc, out = sh("timeout 3000 coqchk -silent -o -Q . Verif %s" % mods, cwd=COQ, timeout=3100)
        if len(fresh) != len(props_all):
            log.append("coqchk: left out (do not build on this tree): %s" % sorted(set(props_all) - set(fresh)))
        log.append("== coqchk rc=%d\n%s" % (rc, out[-3000:]))
        m = re.search(r"\* Axioms:(.*?)\n\s*\n\* ", out, re.S)
        ax = m.group(1).strip() if m else "?"
        coqchk_note = "coqchk -o over %d Props modules: rc=%d, axioms: %s" % (len(mods.split()), rc, " ".join(ax.split()))
        if rc != 0:
            broken.append(("proof", "coqchk failed: " + out[-600:]))
        elif ax not in ("<none>",):
            for a in re.findall(r"[A-Za-z_][\w.']*", ax):
                if a.split(".")[-1] not in ALLOWED_AXIOMS and a not in ALLOWED_AXIOMS:
                    broken.append(("axiom", "coqchk reports non-standard axiom %s" % a))

    # driver
    drv_err = None
    try:
        sys.path.insert(0, os.path.join(VERIF, "harness"))
        drv = importlib.import_module("drv_%s" % prop)
        if replay:
            drv.replay(ctx, json.load(open(replay)))
        else:
            drv.run(ctx)
    except Exception:
        drv_err = traceback.format_exc()
        broken.append(("harness", "driver crashed: " + drv_err[-1500:]))
    for b in ctx.broken:
        broken.append(("correspondence", b))

    known, fixed = load_known()
    known_p = known.get(prop, {})
    status_after = repo_status()
    if status_after != status_before:
        ctx.notes.append("WARNING: /repo working tree changed during the run: %r -> %r" % (status_before, status_after))

    # verdict
    out_lines = []
    exit_code = 0
    new_viol = [v for v in ctx.violations if v["sig"] not in known_p]
    hit = sorted({v["sig"] for v in ctx.violations if v["sig"] in known_p})
    for sig in hit:
        out_lines.append("KNOWN-FINDING: property=%s %s [%s]" % (prop, known_p[sig], sig))
    stale = sorted(set(known_p) - set(hit)) if not replay else []
    rp_dir = os.path.join(VERIF, "replays")
    stamp = "%s-%d-%d" % (prop, seed, int(t0))
    if new_viol:
        exit_code = 1
        v = new_viol[0]
        path = os.path.join(rp_dir, stamp + ".json")
        json.dump({"property": prop, "seed": seed, "tier": tier, "oracle_verdict": v["what"], "signature": v["sig"],
                   "case": v["case"], "other_violations": [x["what"] for x in new_viol[1:20]],
                   "broken_obligations": [b[1] for b in broken][:10],
                   "mismatches": ctx.mismatches[:5]}, open(path, "w"), indent=1, default=str)
        out_lines.append("VIOLATION property=%s replay=%s" % (prop, path))
    elif broken or ctx.mismatches:
        exit_code = 1
        path = os.path.join(rp_dir, stamp + ".json")
        json.dump({"property": prop, "seed": seed, "tier": tier,
                   "broken_obligations": [{"kind": k, "detail": d} for k, d in broken],
                   "correspondence_mismatches": ctx.mismatches[:20],
                   "note": "no failing input for the property itself was found by the oracle on this run; "
                           "the named theorem / translation / correspondence no longer checks"},
                  open(path, "w"), indent=1, default=str)
        out_lines.append("VIOLATION property=%s replay=%s no-failing-input-found" % (prop, path))

    wall = time.time() - t0
    n_obl = len(stmts) + (1 if ctx.traces else 0)
    n_dis = (len(stmts) if ok else 0) + (1 if ctx.traces and not ctx.mismatches and not ctx.broken else 0)
    trusted = [
        "Coq 8.16.1 kernel incl. vm_compute (no native_compute)",
        "Print Assumptions for Props/%s.v: %s" % (prop, ("%d theorem(s) 'Closed under the global context'" % closed) +
                                                  ("; axioms: " + ", ".join(axioms) if axioms else "; no axioms")),
        "harness/gen_tables.py and harness/py2v.py (regenerate coq/Gen/*.v from /repo/src)",
        "harness/engine.py + harness/drv_%s.py (implementation driver, canonicalisation, case writer, output parser)" % prop,
        "CPython 3.12, cryptojwt, cryptography, urllib, json as used by the implementation",
    ] + ctx.extra_trusted + ([coqchk_note] if coqchk_note else [])
    evidence = {
        "property_id": prop, "tier": tier, "seed": seed, "level": "proof",
        "coverage": {
            "obligations": max(n_obl, 1), "discharged": n_dis,
            "checker_cmd": "cd /verif/coq && coq_makefile -f _CoqProject -o Makefile && make Props/%s.vo (full .vo build), then coqc over build/%s/cases/*.v" % (prop, prop),
            "trusted_base": trusted,
            "theorems": [s for s in stmts if s.startswith("Props/")],
            "evaluations": ctx.evaluations, "distinct_nontrivial": len(ctx.nontrivial),
            "rule": getattr(sys.modules.get("drv_%s" % prop), "RULE", ""),
            "samples": ctx.samples[:8] or ["(no implementation cases on this run)"],
            "traces_validated_against_impl": ctx.traces,
            "model_impl_mismatches": len(ctx.mismatches),
            "unmodelled": ctx.unmodelled,
            "input_distribution": ctx.distribution,
            "known_findings_hit": hit, "known_findings_stale": stale,
            "broken_obligations": [b[1][:300] for b in broken],
            "files": files, "notes": ctx.notes,
        },
        "assumptions": getattr(sys.modules.get("drv_%s" % prop), "ASSUMPTIONS", []),
        "wall_s": round(wall, 2),
        "violations": len(new_viol) + (1 if (broken or ctx.mismatches) and not new_viol else 0),
    }
    # development runs against a scratch copy (VERIF_REPO=...) never overwrite the evidence of /repo itself
    ev_path = os.path.join(VERIF, "evidence", "%s.json" % prop) if REPO == "/repo" else os.path.join(BUILD, prop, "evidence_dev.json")
    json.dump(evidence, open(ev_path, "w"), indent=1, default=str)
    open(os.path.join(BUILD, "%s.log" % prop), "w").write("\n".join(log))
    for ln in out_lines:
        print(ln)
    print("%s %s tier=%s seed=%d: %d statements checked, %d impl cases (%d distinct), %d model/impl traces, "
          "%d mismatches, %d violations (%d known), %.1fs" % (
              prop, "FAIL" if exit_code else "OK", tier, seed, len(stmts), ctx.evaluations, len(ctx.nontrivial),
              ctx.traces, len(ctx.mismatches), len(ctx.violations), len(ctx.violations) - len(new_viol), wall))
    if exit_code:
        for k, d in broken[:5]:
            print("  broken[%s]: %s" % (k, d[:400].replace("\n", " | ")))
        for m in ctx.mismatches[:3]:
            print("  mismatch: %s" % json.dumps(m, default=str)[:600])
        for v in new_viol[:3]:
            print("  violation: %s" % v["what"][:600])
    return exit_code


def setup():
    log = []
    with Lock(True):
        b = regen(log)
        ok, where, err = build([], log, clean=True, timeout=3000)
    open(os.path.join(BUILD, "setup.log"), "w").write("\n".join(log))
    if b:
        print("setup: broken translations:", b)
    if not ok:
        print("setup: build failed at", where, err[:2000])
        return 1
    print("setup: built %d Coq files" % len(all_v_files()))
    return 0
