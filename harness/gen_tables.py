"""harness/gen_tables.py — regenerate coq/Gen/*.v (data tables) from the CURRENT /repo/src.

Called by the engine on every check as `python gen_tables.py <outdir>` with PYTHONPATH=<repo>/src.
Fail-closed: anything that can no longer be translated prints a line
    BROKEN-TRANSLATION: <what>
and the generated file is removed (so that every proof depending on it stops compiling); the process
then exits non-zero.

SHARED FILE — several property builders add generators here.  Rules:
  * one self-contained function `gen_<name>(outdir)` per generated file `Gen/<Name>.v`
    (local imports inside the function; use `emit(outdir, "<Name>.v", text)` to write);
  * append your function above `main()` and add ONE line to the GENERATORS list in main();
  * do not edit other builders' functions.
"""
import os
import sys
import traceback


def broken(what):
    print("BROKEN-TRANSLATION: " + str(what).replace("\n", " | "))


def emit(outdir, name, text):
    """Write a generated file only when its content changed (keeps make's timestamps quiet)."""
    path = os.path.join(outdir, name)
    old = None
    if os.path.exists(path):
        with open(path) as f:
            old = f.read()
    if old != text:
        tmp = path + ".tmp%d" % os.getpid()
        with open(tmp, "w") as f:
            f.write(text)
        os.replace(tmp, path)


def coq_str(s):
    """Python str -> Gallina term of type pystr (list N); same convention as engine.coq_str."""
    if all(32 <= ord(c) < 127 and c != '"' for c in s):
        return '(PS "%s")' % s
    return "[" + ";".join(str(ord(c)) for c in s) + "]%N" if s else "(@nil N)"


class Untranslatable(Exception):
    pass


# --------------------------------------------------------------------------------------------------
# C13: every ImpExp `parameter` / `special_load_dump` / `init_args` table  ->  Gen/ImpExpTables.v
# --------------------------------------------------------------------------------------------------
def gen_impexp_tables(outdir):
    """Gen/ImpExpTables.v: `impexp_tables : list (pystr * impexp_class)` — for every subclass of
    idpyoidc.impexp.ImpExp reachable after importing the provider and the relying-party packages:
    its qualified name, the `parameter` table (attribute -> ptype, declaration order), the names in
    `special_load_dump` (with which of load/dump they define) and `init_args`.
    ptype is defined by hand in Lib/ImpExpTy.v."""
    import importlib
    for m in ("idpyoidc.server", "idpyoidc.server.session.grant", "idpyoidc.server.session.manager",
              "idpyoidc.server.session.info", "idpyoidc.server.session.token", "idpyoidc.server.token.handler",
              "idpyoidc.server.endpoint_context", "idpyoidc.client.entity", "idpyoidc.client.service_context",
              "idpyoidc.client.current", "idpyoidc.client.service", "idpyoidc.item", "idpyoidc.node",
              "idpyoidc.client.claims.oidc", "idpyoidc.client.claims.oauth2", "idpyoidc.server.claims.oidc",
              "idpyoidc.server.claims.oauth2", "idpyoidc.client.oidc", "idpyoidc.client.oauth2",
              "idpyoidc.client.oauth2.stand_alone_client", "idpyoidc.client.rp_handler"):
        importlib.import_module(m)
    # every service module of the relying party (their instances are exported through Entity / DLDict and are visited by
    # the attribute census of C13)
    import pkgutil
    for pkg in ("idpyoidc.client.oidc", "idpyoidc.client.oauth2"):
        for info in pkgutil.iter_modules(importlib.import_module(pkg).__path__):
            if not info.ispkg:
                importlib.import_module(pkg + "." + info.name)
    from idpyoidc.impexp import ImpExp
    from idpyoidc.message import Message

    def qn(c):
        return c.__module__ + "." + c.__name__

    def ptype(v, where):
        if v is None:
            return "PNone"
        if v is bool:
            return "PBool"
        if v is object:
            return "PObject"
        if isinstance(v, bool):
            raise Untranslatable("%s: boolean literal %r as parameter type" % (where, v))
        if isinstance(v, int) and v == 0:
            return "PInt"
        if isinstance(v, str):
            if v == "":
                return "PStr"
            if v == "DICT_TYPE":
                return "PDictType"
            raise Untranslatable("%s: string %r as parameter type" % (where, v))
        if isinstance(v, bytes) and v == b"":
            return "PBytes"
        if isinstance(v, dict) and v == {}:
            return "PDict"
        if isinstance(v, list):
            if v == []:
                return "PList"
            if len(v) == 1:
                return "(PListOf %s)" % ptype(v[0], where + "[0]")
            raise Untranslatable("%s: list type with %d elements" % (where, len(v)))
        if isinstance(v, type):
            if issubclass(v, Message):
                return "(PMsg %s)" % coq_str(qn(v))
            return "(PCls %s)" % coq_str(qn(v))
        raise Untranslatable("%s: parameter type %r" % (where, v))

    def subs(c, acc):
        for s in c.__subclasses__():
            if s not in acc:
                acc.append(s)
                subs(s, acc)
        return acc

    classes = [ImpExp] + subs(ImpExp, [])
    classes = sorted({qn(c): c for c in classes if c.__module__.startswith("idpyoidc.")}.items())
    rows = []
    for name, c in classes:
        par = c.parameter
        if not isinstance(par, dict):
            raise Untranslatable("%s.parameter is not a dict" % name)
        fields = []
        for attr, ty in par.items():
            if not isinstance(attr, str):
                raise Untranslatable("%s.parameter key %r" % (name, attr))
            fields.append("(%s, %s)" % (coq_str(attr), ptype(ty, "%s.parameter[%r]" % (name, attr))))
        sld = c.special_load_dump
        if not isinstance(sld, dict):
            raise Untranslatable("%s.special_load_dump is not a dict" % name)
        specials = []
        for attr, fn in sld.items():
            if not isinstance(fn, dict) or set(fn) - {"load", "dump"}:
                raise Untranslatable("%s.special_load_dump[%r] = %r" % (name, attr, fn))
            specials.append("(%s, (%s, %s))" % (coq_str(attr), "true" if "dump" in fn else "false",
                                                 "true" if "load" in fn else "false"))
        ia = c.init_args
        if isinstance(ia, dict):
            ia = list(ia.keys())
        if not isinstance(ia, (list, tuple)) or not all(isinstance(x, str) for x in ia):
            raise Untranslatable("%s.init_args = %r" % (name, ia))
        bases = [qn(b) for b in c.__mro__[1:] if b is not object and b.__module__.startswith("idpyoidc.")]
        rows.append("  (%s,\n   mk_impexp_class\n     [%s]\n     [%s]\n     [%s]\n     [%s])" % (
            coq_str(name), ";\n      ".join(fields), "; ".join(specials),
            "; ".join(coq_str(x) for x in ia), "; ".join(coq_str(b) for b in bases)))
    text = ("(* GENERATED by harness/gen_tables.py (gen_impexp_tables) from the current /repo/src — do not edit. *)\n"
            "From Coq Require Import String.\nFrom Verif Require Import Lib.Base Lib.ImpExpTy.\n"
            "Open Scope string_scope.\n\n"
            "Definition impexp_tables : list (pystr * impexp_class) := [\n%s\n].\n" % ";\n".join(rows))
    emit(outdir, "ImpExpTables.v", text)


# --------------------------------------------------------------------------------------------------
# C15: PKCE transform tables of provider and relying party  ->  Gen/PkceTables.v
# --------------------------------------------------------------------------------------------------
def gen_pkce_tables(outdir):
    """Gen/PkceTables.v: server_cc_methods (name -> TrPlain | TrSha bits, classified behaviourally on
    probe strings against hashlib/base64 called directly), server_default_method (what post_authn_parse
    records when the request names no method), client_cc_methods (name -> bits), the relying party's
    default method and verifier length.  Types are in Lib/PkceTy.v."""
    import base64
    import hashlib
    from idpyoidc.server.oauth2.add_on import pkce as sp
    from idpyoidc.client.oauth2.add_on import pkce as cp
    from idpyoidc.client import defaults as cd

    probes = ["", "a", "abc-._~XYZ019", "x" * 200, "The quick brown fox"]
    sizes = (1, 224, 256, 384, 512)

    def ref(bits, s):
        h = hashlib.new("sha%d" % bits, s.encode("ascii")).digest()
        return base64.urlsafe_b64encode(h).decode("ascii").rstrip("=")

    if not isinstance(sp.CC_METHOD, dict):
        raise Untranslatable("server CC_METHOD is not a dict")
    srows = []
    for name, f in sp.CC_METHOD.items():
        if not isinstance(name, str):
            raise Untranslatable("server CC_METHOD key %r" % (name,))
        try:
            outs = [f(p) for p in probes]
        except Exception as e:
            raise Untranslatable("server CC_METHOD[%r] raises %r on an ASCII probe" % (name, e))
        kind = None
        if outs == probes:
            try:
                if f("å€") == "å€":
                    kind = "TrPlain"
            except Exception:
                pass
        else:
            for bits in sizes:
                if outs == [ref(bits, p) for p in probes]:
                    try:
                        f("å")
                    except UnicodeEncodeError:
                        kind = "(TrSha %d%%N)" % bits
                    except Exception:
                        pass
        if kind is None:
            raise Untranslatable("server CC_METHOD[%r] is neither the identity nor b64url_nopad(shaN(ascii))" % name)
        srows.append("(%s, %s)" % (coq_str(name), kind))

    class _Ctx:
        pass
    ctx = _Ctx()
    ctx.cdb = {"c": {}}
    ctx.add_on = {"pkce": {"essential": False, "code_challenge_methods": sp.CC_METHOD}}
    req = {"code_challenge": "x"}
    out = sp.post_authn_parse(req, "c", ctx)
    if not isinstance(out, dict) or not isinstance(out.get("code_challenge_method"), str):
        raise Untranslatable("post_authn_parse no longer records a default code_challenge_method")
    sdef = out["code_challenge_method"]

    if not isinstance(cd.CC_METHOD, dict):
        raise Untranslatable("client CC_METHOD is not a dict")
    crows = []
    for name, h in cd.CC_METHOD.items():
        bits = None
        for b in sizes:
            try:
                if all(h(p.encode()).digest() == hashlib.new("sha%d" % b, p.encode()).digest() for p in probes):
                    bits = b
            except Exception as e:
                raise Untranslatable("client CC_METHOD[%r] raises %r" % (name, e))
        if bits is None or not isinstance(name, str):
            raise Untranslatable("client CC_METHOD[%r] is not a hashlib shaN constructor" % (name,))
        crows.append("(%s, %d%%N)" % (coq_str(name), bits))

    class _CState:
        item = None

        def update(self, key, item):
            self.item = item
    cctx = _Ctx()
    cctx.add_on = {"pkce": {}}
    cctx.cstate = _CState()

    class _Svc:
        def upstream_get(self, what, *a):
            return cctx
    ra, _ = cp.add_code_challenge({"state": "s"}, _Svc())
    cdef = ra.get("code_challenge_method")
    try:
        clen = len(cctx.cstate.item["code_verifier"])
    except Exception:
        raise Untranslatable("add_code_challenge no longer stores code_verifier in the state item")
    if not isinstance(cdef, str):
        raise Untranslatable("add_code_challenge: no default code_challenge_method")
    text = ("(* GENERATED by harness/gen_tables.py (gen_pkce_tables) from the current /repo/src — do not edit. *)\n"
            "From Coq Require Import String.\nFrom Verif Require Import Lib.Base Lib.PkceTy.\n"
            "Open Scope string_scope.\n\n"
            "Definition server_cc_methods : list (pystr * tr_kind) := [%s].\n"
            "Definition server_default_method : pystr := %s.\n"
            "Definition client_cc_methods : list (pystr * N) := [%s].\n"
            "Definition client_default_method : pystr := %s.\n"
            "Definition client_default_length : N := %d%%N.\n"
            % ("; ".join(srows), coq_str(sdef), "; ".join(crows), coq_str(cdef), clen))
    emit(outdir, "PkceTables.v", text)


# --------------------------------------------------------------------------------------------------
# C10/C11: every Message subclass: c_param / c_allowed_values / c_default / verify() chaining
#          -> Gen/Schema.v      (vocabulary: Lib/MsgSchema.v)
# --------------------------------------------------------------------------------------------------
def gen_schema(outdir):
    """Gen/Schema.v: `all_classes : list mclass` — for EVERY subclass of idpyoidc.message.Message
    found after importing every module of the idpyoidc package: qualified name, bases, the parameter
    table (name, value type, required, serializer id, deserializer id, null allowed; unknown types
    and (de)serializers are kept as explicit opaque kinds, never dropped), c_allowed_values,
    c_default and - by ast inspection of the class's own verify() - whether it overrides verify,
    whether every normal return path of the override has called an ancestor's verify, and where."""
    import ast
    import importlib
    import inspect
    import pkgutil
    import textwrap
    import typing

    import idpyoidc
    from idpyoidc.message import Message

    # modules of the package that do not import on the unchanged tree (pinned; anything else that
    # stops importing is a broken translation, because its classes would silently disappear)
    KNOWN_UNIMPORTABLE = {"idpyoidc.client.oauth2.add_on.identity_assurance"}
    failed = []
    for mi in pkgutil.walk_packages(idpyoidc.__path__, "idpyoidc."):
        try:
            importlib.import_module(mi.name)
        except Exception as e:   # noqa
            if mi.name not in KNOWN_UNIMPORTABLE:
                failed.append("%s (%s: %s)" % (mi.name, type(e).__name__, str(e)[:80]))
    if failed:
        raise Untranslatable("modules of the package no longer import: " + "; ".join(failed))

    def qn(c):
        return c.__module__ + "." + c.__qualname__

    def subs(c, acc):
        for s in c.__subclasses__():
            if s not in acc:
                acc.append(s)
                subs(s, acc)
        return acc

    found = [c for c in subs(Message, []) if c.__module__.startswith("idpyoidc.")]
    by_name = {}
    for c in found:
        if qn(c) in by_name:
            raise Untranslatable("two Message subclasses share the name %s" % qn(c))
        by_name[qn(c)] = c
    classes = sorted(by_name.items())
    if len(classes) < 60:
        raise Untranslatable("only %d Message subclasses discovered" % len(classes))

    SER = {"idpyoidc.message.list_serializer": "SList", "idpyoidc.message.sp_sep_list_serializer": "SSpSep",
           "idpyoidc.message.json_serializer": "SJson", "idpyoidc.message.msg_ser": "SMsg",
           "idpyoidc.message.msg_list_ser": "SMsgList", "idpyoidc.message.oidc.msg_ser_json": "SMsgJson"}
    DESER = {"idpyoidc.message.list_deserializer": "DList", "idpyoidc.message.sp_sep_list_deserializer": "DSpSep",
             "idpyoidc.message.json_deserializer": "DJson", "idpyoidc.message.msg_deser": "DMsg",
             "idpyoidc.message.msg_list_deser": "DMsgList", "idpyoidc.message.oidc.dict_deser": "DDictText"}

    def fn_id(f, table, none, opaque, where):
        if f is None:
            return none
        if not callable(f):
            raise Untranslatable("%s: (de)serializer %r is not callable" % (where, f))
        name = "%s.%s" % (getattr(f, "__module__", "?"), getattr(f, "__qualname__", repr(f)))
        return table.get(name) or "(%s %s)" % (opaque, coq_str(name))

    def vtype(t):
        if t is str:
            return "TStr"
        if t is int:
            return "TInt"
        if t is bool:
            return "TBool"
        if t is dict:
            return "TDict"
        if t is typing.Any:
            return "TAny"
        if isinstance(t, type) and issubclass(t, Message):
            return "(TMsg %s)" % coq_str(qn(t))
        return "(TOpaqueTy %s)" % coq_str(repr(t)[:60])

    def ptype(t):
        if isinstance(t, list):
            if len(t) == 1:
                return "(PList %s)" % vtype(t[0])
            return "(PScalar (TOpaqueTy %s))" % coq_str(repr(t)[:60])
        return "(PScalar %s)" % vtype(t)

    def pyval(v, where):
        if v is None:
            return "VNone"
        if v is True or v is False:
            return "(VBool %s)" % ("true" if v else "false")
        if isinstance(v, int):
            return "(VInt (%d)%%Z)" % v
        if isinstance(v, str):
            return "(VStr %s)" % coq_str(v)
        if isinstance(v, (list, tuple)):
            return "(VList [%s])" % "; ".join(pyval(x, where) for x in v)
        if isinstance(v, dict) and all(isinstance(k, str) for k in v):
            return "(VDict [%s])" % "; ".join("(%s, %s)" % (coq_str(k), pyval(x, where)) for k, x in v.items())
        raise Untranslatable("%s: value %r has no pyval" % (where, v))

    # ---- verify() chaining, by ast ----
    def chain_info(cls):
        """(overrides, chains, position).  chains = on every path through the override that ends in a
        normal return (explicit or by falling off the end) a call `super().verify(...)`,
        `super(X, self).verify(...)` (X the class or an ancestor) or `<Ancestor>.verify(self, ...)` has
        been executed.  Paths ending in `raise` refuse the message and need no chaining."""
        if "verify" not in cls.__dict__:
            return False, True, "ChainNowhere"
        f = cls.__dict__["verify"]
        try:
            src = textwrap.dedent(inspect.getsource(f))
            fn = ast.parse(src).body[0]
        except Exception as e:
            raise Untranslatable("%s.verify: source not available (%s)" % (qn(cls), e))
        if not isinstance(fn, ast.FunctionDef) or not fn.args.args or fn.args.args[0].arg != "self":
            raise Untranslatable("%s.verify is not a plain method" % qn(cls))
        glob = getattr(f, "__globals__", {})
        ancestors = [b for b in cls.__mro__[1:] if b is not object and hasattr(b, "verify")]

        def is_chain_call(n):
            if not (isinstance(n, ast.Call) and isinstance(n.func, ast.Attribute) and n.func.attr == "verify"):
                return False
            v = n.func.value
            if isinstance(v, ast.Call) and isinstance(v.func, ast.Name) and v.func.id == "super":
                if not v.args:
                    return True
                if (len(v.args) == 2 and isinstance(v.args[0], ast.Name) and isinstance(v.args[1], ast.Name)
                        and v.args[1].id == "self"):
                    x = glob.get(v.args[0].id)
                    return isinstance(x, type) and x in cls.__mro__
                return False
            if isinstance(v, ast.Name) and n.args and isinstance(n.args[0], ast.Name) and n.args[0].id == "self":
                x = glob.get(v.id)
                return isinstance(x, type) and x in ancestors
            return False

        def own_exprs(st):
            """expression nodes evaluated by the statement itself (not by nested blocks)"""
            out = []
            for field, val in ast.iter_fields(st):
                if field in ("body", "orelse", "finalbody", "handlers"):
                    continue
                vals = val if isinstance(val, list) else [val]
                for x in vals:
                    if isinstance(x, ast.AST):
                        out.append(x)
            return out

        def calls(st):
            return any(is_chain_call(n) for e in own_exprs(st) for n in ast.walk(e))

        returns = []   # chained? at every normal return

        def block(stmts, states):
            """states: set of booleans 'an ancestor's verify has been called' possible on entry;
            returns the set possible when falling out of the block (empty = cannot fall through)."""
            for st in stmts:
                if not states:
                    break
                if isinstance(st, (ast.FunctionDef, ast.AsyncFunctionDef, ast.ClassDef, ast.Lambda)):
                    continue
                if isinstance(st, ast.Return):
                    c = calls(st)
                    returns.extend([True] if c else list(states))
                    states = set()
                elif isinstance(st, ast.Raise):
                    states = set()
                elif isinstance(st, ast.If):
                    s0 = {True} if calls(st) else set(states)
                    states = block(st.body, set(s0)) | block(st.orelse, set(s0))
                elif isinstance(st, (ast.For, ast.While, ast.AsyncFor)):
                    s0 = {True} if calls(st) else set(states)
                    after_body = block(st.body, set(s0))
                    states = block(st.orelse, s0 | after_body) if st.orelse else (s0 | after_body)
                elif isinstance(st, (ast.With, ast.AsyncWith)):
                    s0 = {True} if calls(st) else set(states)
                    states = block(st.body, s0)
                elif isinstance(st, ast.Try) or st.__class__.__name__ == "TryStar":
                    body_out = block(st.body, set(states))
                    # an exception may leave the body at any point: handlers may start un-chained
                    # whenever that was possible on entry
                    h_in = set(states) | body_out
                    outs = block(st.orelse, set(body_out)) if st.orelse else set(body_out)
                    for h in st.handlers:
                        outs |= block(h.body, set(h_in))
                    states = block(st.finalbody, outs) if st.finalbody else outs
                elif isinstance(st, ast.Match):
                    raise Untranslatable("%s.verify uses match: not analysed" % qn(cls))
                else:
                    if calls(st):
                        states = {True}
            return states

        body = list(fn.body)
        if body and isinstance(body[0], ast.Expr) and isinstance(getattr(body[0], "value", None), ast.Constant) \
                and isinstance(body[0].value.value, str):
            body = body[1:]
        fall = block(body, {False})
        exits = returns + list(fall)
        chains = bool(exits) and all(exits)
        if not any(is_chain_call(n) for n in ast.walk(fn)):
            pos = "ChainNowhere"
        elif body and calls(body[0]) and not isinstance(body[0], (ast.If, ast.For, ast.While, ast.Try, ast.With)):
            pos = "ChainFirst"
        elif body and isinstance(body[-1], ast.Return) and calls(body[-1]):
            pos = "ChainLast"
        else:
            pos = "ChainMiddle"
        return True, chains, pos

    rows = []
    nparams = 0
    for name, c in classes:
        spec = c.c_param
        if not isinstance(spec, dict):
            raise Untranslatable("%s.c_param is not a dict" % name)
        ps = []
        for pname, ent in spec.items():
            where = "%s.c_param[%r]" % (name, pname)
            if not isinstance(pname, str):
                raise Untranslatable("%s: parameter name is not a str" % where)
            if not (isinstance(ent, tuple) and len(ent) == 5):
                raise Untranslatable("%s: entry %r is not a 5-tuple" % (where, ent))
            typ, req, ser, deser, null = ent
            if not isinstance(req, bool) or not isinstance(null, bool):
                raise Untranslatable("%s: required / null-allowed flags are not booleans" % where)
            ps.append("mkP %s %s %s %s %s %s" % (
                coq_str(pname), ptype(typ), "true" if req else "false",
                fn_id(ser, SER, "SNone", "SOpaque", where), fn_id(deser, DESER, "DNone", "DOpaque", where),
                "true" if null else "false"))
            nparams += 1
        allowed = c.c_allowed_values
        if not isinstance(allowed, dict):
            raise Untranslatable("%s.c_allowed_values is not a dict" % name)
        al = []
        for k, vs in allowed.items():
            if not isinstance(k, str) or not isinstance(vs, (list, tuple)):
                raise Untranslatable("%s.c_allowed_values[%r] = %r" % (name, k, vs))
            al.append("(%s, [%s])" % (coq_str(k), "; ".join(pyval(v, "%s.c_allowed_values[%r]" % (name, k)) for v in vs)))
        dflt = c.c_default
        if not isinstance(dflt, dict) or not all(isinstance(k, str) for k in dflt):
            raise Untranslatable("%s.c_default = %r" % (name, dflt))
        df = ["(%s, %s)" % (coq_str(k), pyval(v, "%s.c_default[%r]" % (name, k))) for k, v in dflt.items()]
        bases = [qn(b) for b in c.__mro__[1:] if b is not object and isinstance(b, type) and issubclass(b, Message)]
        ov, ch, pos = chain_info(c)
        rows.append("  mkC %s\n    [%s]\n    [%s]\n    [%s]\n    [%s]\n    %s %s %s" % (
            coq_str(name), "; ".join(coq_str(b) for b in bases),
            ";\n     ".join(ps), ";\n     ".join(al), "; ".join(df),
            "true" if ov else "false", "true" if ch else "false", pos))
    # ---- rules over a SET of parameters: every call `self.<helper>([<two or more string literals>])` inside a class's
    #      own verify() (e.g. self.has_none_or_one_of(["id_token_hint", "login_hint", "login_hint_token"])), by ast:
    #      (class, helper, the member names in the order the code lists them) ----
    set_calls = []
    for name, c in classes:
        f = c.__dict__.get("verify")
        if f is None:
            continue
        try:
            fn = ast.parse(textwrap.dedent(inspect.getsource(f))).body[0]
        except Exception as e:
            raise Untranslatable("%s.verify: source not available (%s)" % (name, e))
        for n in ast.walk(fn):
            if (isinstance(n, ast.Call) and isinstance(n.func, ast.Attribute) and isinstance(n.func.value, ast.Name)
                    and n.func.value.id == "self" and len(n.args) == 1 and not n.keywords
                    and isinstance(n.args[0], (ast.List, ast.Tuple)) and len(n.args[0].elts) >= 2
                    and all(isinstance(e, ast.Constant) and isinstance(e.value, str) for e in n.args[0].elts)):
                set_calls.append("  (%s, %s, [%s])" % (coq_str(name), coq_str(n.func.attr),
                                                       "; ".join(coq_str(e.value) for e in n.args[0].elts)))
    text = ("(* GENERATED by harness/gen_tables.py (gen_schema) from the current /repo/src - do not edit.\n"
            "   %d Message subclasses, %d declared parameters. *)\n"
            "From Coq Require Import String.\nFrom Verif Require Import Lib.Base Lib.MsgSchema.\n\n"
            "Definition all_classes : list mclass := [\n%s\n].\n" % (len(classes), nparams, ";\n".join(rows)))
    text += ("\n(* calls self.<helper>([names]) found in the classes' own verify(): (class, helper, names) *)\n"
             "Definition set_rule_calls : list (pystr * pystr * list pystr) := %s.\n"
             % ("[\n%s\n]" % ";\n".join(set_calls) if set_calls else "nil"))
    emit(outdir, "Schema.v", text)

    # ---- C11: the DECLARED tables -> Gen/SchemaDecl.v.  `all_classes` above is read off the class objects AFTER every
    #      module has been imported: a class body (or module-level code) that aliases and changes another class's
    #      c_param / c_default / c_allowed_values at import time is already folded into it, and the table is
    #      self-consistent but no longer what the classes declare.  harness/schema_decl.py evaluates the class bodies
    #      from the SOURCE TEXT by value (no shared objects, independent of import order); Props/C11.v states that the
    #      two tables are equal (C11_declared_is_runtime) and that nothing was refused (C11_declared_all_evaluated).
    #      Private failure channel: never the engine's `BROKEN-TRANSLATION:` prefix; if this part cannot run its
    #      file is removed, so that only the build of Props/C11.v breaks.
    try:
        sys.path.insert(0, os.path.dirname(os.path.abspath(__file__)))
        import schema_decl
        decl, _owners, refused = schema_decl.declared(classes)
        drows = []
        for name, c in classes:
            if name not in decl:
                continue
            d = decl[name]
            ps = []
            for pname, ent in d["c_param"].items():
                where = "declared %s.c_param[%r]" % (name, pname)
                if not (isinstance(ent, tuple) and len(ent) == 5 and isinstance(ent[1], bool) and isinstance(ent[4], bool)):
                    raise Untranslatable("%s: entry %r" % (where, ent))
                typ, req, ser, deser, null = ent
                ps.append("mkP %s %s %s %s %s %s" % (
                    coq_str(pname), ptype(typ), "true" if req else "false",
                    fn_id(ser, SER, "SNone", "SOpaque", where), fn_id(deser, DESER, "DNone", "DOpaque", where),
                    "true" if null else "false"))
            al = []
            for k, vs in d["c_allowed_values"].items():
                if not isinstance(vs, (list, tuple)):
                    raise Untranslatable("declared %s.c_allowed_values[%r] = %r" % (name, k, vs))
                al.append("(%s, [%s])" % (coq_str(k), "; ".join(
                    pyval(v, "declared %s.c_allowed_values[%r]" % (name, k)) for v in vs)))
            df = ["(%s, %s)" % (coq_str(k), pyval(v, "declared %s.c_default[%r]" % (name, k)))
                  for k, v in d["c_default"].items()]
            drows.append("  (%s,\n   ([%s],\n    [%s],\n    [%s]))" % (
                coq_str(name), ";\n     ".join(ps), ";\n     ".join(al), "; ".join(df)))
        dtext = ("(* GENERATED by harness/gen_tables.py (gen_schema, declared part; evaluator harness/schema_decl.py) from the\n"
                 "   SOURCE TEXT of the class bodies of the current /repo/src - do not edit.\n"
                 "   %d classes evaluated, %d refused. *)\n"
                 "From Coq Require Import String.\nFrom Verif Require Import Lib.Base Lib.MsgSchema.\n\n"
                 "(* class -> (c_param, c_allowed_values, c_default) as the class bodies declare them *)\n"
                 "Definition declared_schemas : list (pystr * (list param * list (pystr * list pyval) * list (pystr * pyval))) := [\n%s\n].\n\n"
                 "(* classes whose body has a statement about a schema table that the evaluator does not cover: (class, reason) *)\n"
                 "Definition decl_refused : list (pystr * pystr) := %s.\n"
                 % (len(drows), len(refused), ";\n".join(drows),
                    "[\n%s\n]" % ";\n".join("  (%s, %s)" % (coq_str(n), coq_str(r)) for n, r in refused) if refused else "nil"))
        emit(outdir, "SchemaDecl.v", dtext)
    except Exception as e:   # noqa
        print("C11-BROKEN-DECLARATION: %s: %s" % (type(e).__name__, str(e).replace("\n", " | ")[:600]))
        for ext in (".v", ".vo", ".vos", ".vok", ".glob"):      # no stale table, source or compiled, survives
            try:
                os.remove(os.path.join(outdir, "SchemaDecl" + ext))
            except OSError:
                pass


# --------------------------------------------------------------------------------------------------
# --------------------------------------------------------------------------------------------------
# C08 / C09: relying-party message schemas and verification constants  ->  Gen/RpTables.v
# --------------------------------------------------------------------------------------------------
def gen_rp_tables(outdir):
    """Gen/RpTables.v: the c_param tables (name, type code, required; declaration order) of IdToken,
    oidc.AuthorizationResponse, oidc.AccessTokenResponse and OpenIDSchema, ID_TOKEN_VERIFY_ARGS, IDT2REG,
    CLAIMS_WITH_VERIFIED, the verified-claim prefix and NONCE_STORAGE_TIME.  Type codes: Lib/RpTy.v."""
    from idpyoidc import message as M
    from idpyoidc.message import oidc
    from idpyoidc.message import Message
    from idpyoidc.client.oidc import IDT2REG
    import idpyoidc

    def code(name, cls, spec):
        if not (isinstance(spec, tuple) and len(spec) == 5):
            raise Untranslatable("%s.c_param[%r] = %r" % (cls, name, spec))
        vtyp, req, ser, deser, na = spec
        if not isinstance(req, bool):
            raise Untranslatable("%s.c_param[%r] required flag %r" % (cls, name, req))
        if na is not False:
            return "COther", req
        if vtyp is str and ser is None and deser is None:
            return "CStr", req
        if vtyp is int and ser is None and deser is None:
            return "CInt", req
        if vtyp is bool and ser is None and deser is None:
            return "CBool", req
        if vtyp == [str] and ser is M.list_serializer and deser is M.list_deserializer:
            return "CStrList", req
        if vtyp == [str] and ser is M.sp_sep_list_serializer and deser is M.sp_sep_list_deserializer:
            return "CSpList", req
        if vtyp is Message and ser is M.msg_ser and deser is None:
            return "CJwt", req
        return "COther", req

    def table(defname, cls):
        if cls.c_allowed_values:
            raise Untranslatable("%s.c_allowed_values is not empty: %r" % (cls.__name__, cls.c_allowed_values))
        if "*" in cls.c_param:
            raise Untranslatable("%s.c_param has a wildcard entry" % cls.__name__)
        rows = []
        for name, spec in cls.c_param.items():
            if not isinstance(name, str):
                raise Untranslatable("%s.c_param key %r" % (cls.__name__, name))
            c, req = code(name, cls.__name__, spec)
            rows.append("  mkPS %s %s %s" % (coq_str(name), c, "true" if req else "false"))
        return "Definition %s : list pspec := [\n%s\n].\n" % (defname, ";\n".join(rows))

    for must, cls in ((("iss", "sub", "aud", "exp", "iat", "nonce", "azp", "at_hash", "c_hash"), oidc.IdToken),
                      (("state", "code", "iss", "client_id", "id_token", "access_token"), oidc.AuthorizationResponse),
                      (("access_token", "token_type", "id_token"), oidc.AccessTokenResponse),
                      (("sub",), oidc.OpenIDSchema)):
        for m in must:
            if m not in cls.c_param:
                raise Untranslatable("%s no longer declares %r" % (cls.__name__, m))
    nst = oidc.NONCE_STORAGE_TIME
    if not isinstance(nst, int) or isinstance(nst, bool):
        raise Untranslatable("NONCE_STORAGE_TIME = %r" % (nst,))
    vargs = oidc.ID_TOKEN_VERIFY_ARGS
    cwv = oidc.CLAIMS_WITH_VERIFIED
    if not all(isinstance(x, str) for x in list(vargs) + list(cwv)):
        raise Untranslatable("ID_TOKEN_VERIFY_ARGS / CLAIMS_WITH_VERIFIED are not lists of str")
    if not (isinstance(IDT2REG, dict) and all(isinstance(k, str) and isinstance(v, str) for k, v in IDT2REG.items())):
        raise Untranslatable("IDT2REG = %r" % (IDT2REG,))
    vcn = idpyoidc.verified_claim_name("X")
    if not vcn.endswith("_X"):
        raise Untranslatable("verified_claim_name('X') = %r" % vcn)
    text = ("(* GENERATED by harness/gen_tables.py (gen_rp_tables) from the current /repo/src - do not edit. *)\n"
            "From Coq Require Import String.\nFrom Verif Require Import Lib.Base Lib.RpTy.\nOpen Scope string_scope.\n\n"
            + table("idtoken_params", oidc.IdToken) + "\n"
            + table("authz_resp_params", oidc.AuthorizationResponse) + "\n"
            + table("token_resp_params", oidc.AccessTokenResponse) + "\n"
            + table("userinfo_params", oidc.OpenIDSchema) + "\n"
            + "Definition id_token_verify_args : list pystr := [%s].\n" % "; ".join(coq_str(x) for x in vargs)
            + "Definition claims_with_verified : list pystr := [%s].\n" % "; ".join(coq_str(x) for x in cwv)
            + "Definition idt2reg : list (pystr * pystr) := [%s].\n" % "; ".join(
                "(%s, %s)" % (coq_str(k), coq_str(v)) for k, v in IDT2REG.items())
            + "Definition verified_prefix : pystr := %s.\n" % coq_str(vcn[:-1])
            + "Definition nonce_storage_time : Z := (%d)%%Z.\n" % nst)
    emit(outdir, "RpTables.v", text)


# --------------------------------------------------------------------------------------------------
# C12: per-dimension value tables of BOTH halves of the library  ->  Gen/Supports.v
# --------------------------------------------------------------------------------------------------
def gen_supports(outdir):
    """Gen/Supports.v (vocabulary: Lib/InteropTy.v): what the relying-party half can be configured with
    (`_supports` of the client services and claims classes, client_auth.CLIENT_AUTHN_METHOD, defaults.CC_METHOD,
    DEFAULT_RESPONSE_MODE, IMPLICIT_RESPONSE_TYPES, default client-authentication methods) and what the provider
    half accepts (`_supports` of the endpoints and the claims class, client_authn.CLIENT_AUTHN_METHOD, the PKCE
    add-on's CC_METHOD, DEF_SIGN_ALG), the key family of every signing / key-management algorithm, and two
    behavioural probes: which artefacts create_authn_response puts into the authorization response for every
    response type the provider supports (on a real provider), and where StandAloneClient.get_access_and_id_token
    takes the access token / ID Token from for every response type the relying party supports."""
    import os
    import sys
    sys.path.insert(0, os.path.dirname(os.path.abspath(__file__)))
    from idpyoidc.client import client_auth as c_auth
    from idpyoidc.client import defaults as c_def
    from idpyoidc.client import util as c_util
    from idpyoidc.client.claims import oidc as c_claims
    from idpyoidc.client.oidc import access_token as c_at
    from idpyoidc.client.oidc import authorization as c_az
    from idpyoidc.client.oidc import userinfo as c_ui
    from idpyoidc.client.oidc import refresh_access_token as c_rf
    from idpyoidc.client.oauth2 import introspection as c_intro
    from idpyoidc.server import client_authn as s_auth
    from idpyoidc.server.claims import oidc as s_claims
    from idpyoidc.server.oauth2 import pushed_authorization as s_par
    from idpyoidc.server.oauth2 import introspection as s_intro
    from idpyoidc.server.oauth2.add_on import pkce as s_pkce
    from idpyoidc.server.oidc import authorization as s_az
    from idpyoidc.server.oidc import token as s_tok
    from idpyoidc.server.oidc import userinfo as s_ui
    from idpyoidc.server.token import id_token as s_idt
    from cryptojwt.jws.utils import alg2keytype as sig_kty
    from cryptojwt.jwe.utils import alg2keytype as enc_kty

    def strs(v, where):
        if callable(v):
            v = v()
        if not isinstance(v, (list, tuple)) or not all(isinstance(x, str) for x in v):
            raise Untranslatable("%s is not a list of str: %r" % (where, v))
        return list(v)

    def sup(cls, key):
        d = getattr(cls, "_supports", None)
        if not isinstance(d, dict) or key not in d:
            raise Untranslatable("%s.%s._supports has no %r" % (cls.__module__, cls.__name__, key))
        return strs(d[key], "%s._supports[%r]" % (cls.__name__, key))

    def lst(xs):
        return "[" + "; ".join(coq_str(x) for x in xs) + "]"

    defs = []

    def add(name, ty, body):
        defs.append("Definition %s : %s := %s." % (name, ty, body))

    # ---- relying party
    add("rp_response_types", "list pystr", lst(sup(c_az.Authorization, "response_types_supported")))
    add("rp_response_modes", "list pystr", lst(sup(c_az.Authorization, "response_modes_supported")))
    drm = c_def.DEFAULT_RESPONSE_MODE
    if not isinstance(drm, dict) or not all(isinstance(k, str) and isinstance(v, str) for k, v in drm.items()):
        raise Untranslatable("client DEFAULT_RESPONSE_MODE = %r" % (drm,))
    add("rp_default_response_mode", "list (pystr * pystr)",
        "[" + "; ".join("(%s, %s)" % (coq_str(k), coq_str(v)) for k, v in drm.items()) + "]")
    irt = c_util.IMPLICIT_RESPONSE_TYPES
    if not isinstance(irt, list) or not all(isinstance(s, set) and all(isinstance(x, str) for x in s) for s in irt):
        raise Untranslatable("client IMPLICIT_RESPONSE_TYPES = %r" % (irt,))
    add("rp_implicit_response_types", "list (list pystr)", "[" + "; ".join(lst(sorted(s)) for s in irt) + "]")
    add("rp_token_auth_methods", "list pystr", lst(sup(c_at.AccessToken, "token_endpoint_auth_methods_supported")))
    add("rp_token_auth_sig_algs", "list pystr", lst(sup(c_at.AccessToken, "token_endpoint_auth_signing_alg_values_supported")))
    add("rp_client_authn_methods", "list pystr", lst(strs(list(c_auth.CLIENT_AUTHN_METHOD.keys()), "client CLIENT_AUTHN_METHOD")))
    for nm, cls in (("rp_token_default_authn", c_at.AccessToken), ("rp_userinfo_default_authn", c_ui.UserInfo),
                    ("rp_introspection_default_authn", c_intro.Introspection)):
        v = getattr(cls, "default_authn_method", None)
        if not isinstance(v, str):
            raise Untranslatable("%s.default_authn_method = %r" % (cls.__name__, v))
        add(nm, "pystr", coq_str(v))
    add("rp_idt_sig_algs", "list pystr", lst(sup(c_claims.Claims, "id_token_signing_alg_values_supported")))
    add("rp_idt_enc_algs", "list pystr", lst(sup(c_claims.Claims, "id_token_encryption_alg_values_supported")))
    add("rp_idt_enc_encs", "list pystr", lst(sup(c_claims.Claims, "id_token_encryption_enc_values_supported")))
    add("rp_ui_sig_algs", "list pystr", lst(sup(c_ui.UserInfo, "userinfo_signing_alg_values_supported")))
    add("rp_ui_enc_algs", "list pystr", lst(sup(c_ui.UserInfo, "userinfo_encryption_alg_values_supported")))
    add("rp_ui_enc_encs", "list pystr", lst(sup(c_ui.UserInfo, "userinfo_encryption_enc_values_supported")))
    add("rp_reqobj_sig_algs", "list pystr", lst(sup(c_az.Authorization, "request_object_signing_alg_values_supported")))
    if not isinstance(c_def.CC_METHOD, dict):
        raise Untranslatable("client CC_METHOD is not a dict")
    add("rp_pkce_methods", "list pystr", lst(strs(list(c_def.CC_METHOD.keys()), "client CC_METHOD")))

    # ---- provider
    add("op_response_types", "list pystr", lst(sup(s_az.Authorization, "response_types_supported")))
    add("op_response_modes", "list pystr", lst(sup(s_az.Authorization, "response_modes_supported")))
    add("op_par_response_types", "list pystr", lst(sup(s_par.PushedAuthorization, "response_types_supported")))
    add("op_token_auth_methods", "list pystr", lst(sup(s_tok.Token, "token_endpoint_auth_methods_supported")))
    add("op_token_auth_sig_algs", "list pystr", lst(sup(s_tok.Token, "token_endpoint_auth_signing_alg_values_supported")))
    add("op_introspection_auth_methods", "list pystr", lst(sup(s_intro.Introspection, "client_authn_method")))
    add("op_client_authn_methods", "list pystr", lst(strs(list(s_auth.CLIENT_AUTHN_METHOD.keys()), "server CLIENT_AUTHN_METHOD")))
    add("op_idt_sig_algs", "list pystr", lst(sup(s_claims.Claims, "id_token_signing_alg_values_supported")))
    add("op_idt_enc_algs", "list pystr", lst(sup(s_claims.Claims, "id_token_encryption_alg_values_supported")))
    add("op_idt_enc_encs", "list pystr", lst(sup(s_claims.Claims, "id_token_encryption_enc_values_supported")))
    add("op_ui_sig_algs", "list pystr", lst(sup(s_ui.UserInfo, "userinfo_signing_alg_values_supported")))
    add("op_ui_enc_algs", "list pystr", lst(sup(s_ui.UserInfo, "userinfo_encryption_alg_values_supported")))
    add("op_ui_enc_encs", "list pystr", lst(sup(s_ui.UserInfo, "userinfo_encryption_enc_values_supported")))
    add("op_reqobj_sig_algs", "list pystr", lst(sup(s_az.Authorization, "request_object_signing_alg_values_supported")))
    add("op_pkce_advertised", "list pystr", lst(sup(s_az.Authorization, "code_challenge_methods_supported")))
    if not isinstance(s_pkce.CC_METHOD, dict):
        raise Untranslatable("server CC_METHOD is not a dict")
    add("op_pkce_methods", "list pystr", lst(strs(list(s_pkce.CC_METHOD.keys()), "server CC_METHOD")))
    dsa = s_idt.DEF_SIGN_ALG
    if not isinstance(dsa, dict) or not all(isinstance(k, str) and isinstance(v, str) for k, v in dsa.items()):
        raise Untranslatable("server DEF_SIGN_ALG = %r" % (dsa,))
    add("op_def_sign_alg", "list (pystr * pystr)",
        "[" + "; ".join("(%s, %s)" % (coq_str(k), coq_str(v)) for k, v in dsa.items()) + "]")

    # ---- key family of every algorithm either half names
    FAM = {"RSA": "KRsa", "EC": "KEc", "OKP": "KOkp", "oct": "KOct"}
    sig_all, enc_all = [], []
    for cls, key in ((c_claims.Claims, "id_token_signing_alg_values_supported"), (s_claims.Claims, "id_token_signing_alg_values_supported"),
                     (c_ui.UserInfo, "userinfo_signing_alg_values_supported"), (s_ui.UserInfo, "userinfo_signing_alg_values_supported")):
        for a in sup(cls, key):
            if a not in sig_all:
                sig_all.append(a)
    for cls, key in ((c_claims.Claims, "id_token_encryption_alg_values_supported"), (s_claims.Claims, "id_token_encryption_alg_values_supported"),
                     (c_ui.UserInfo, "userinfo_encryption_alg_values_supported"), (s_ui.UserInfo, "userinfo_encryption_alg_values_supported")):
        for a in sup(cls, key):
            if a not in enc_all:
                enc_all.append(a)
    rows = []
    for a in sig_all:
        k = sig_kty(a)
        if k not in FAM:
            raise Untranslatable("signing algorithm %r has key type %r" % (a, k))
        rows.append("(%s, %s)" % (coq_str(a), FAM[k]))
    add("sig_alg_family", "list (pystr * keyfam)", "[" + "; ".join(rows) + "]")
    rows = []
    for a in enc_all:
        k = enc_kty(a)
        if k not in FAM:
            raise Untranslatable("key-management algorithm %r has key type %r" % (a, k))
        rows.append("(%s, %s)" % (coq_str(a), FAM[k]))
    add("enc_alg_family", "list (pystr * keyfam)", "[" + "; ".join(rows) + "]")

    # ---- the response types the relying-party half can be configured with: everything its response-mode table,
    #      callback construction and get_access_and_id_token know (the `_supports` default is a subset)
    rp_cfg_rts = strs(list(drm.keys()), "client DEFAULT_RESPONSE_MODE keys")
    for t in sup(c_az.Authorization, "response_types_supported"):
        if t not in rp_cfg_rts:
            rp_cfg_rts.append(t)
    add("rp_configurable_response_types", "list pystr", lst(rp_cfg_rts))

    # ---- probe 1 (real provider): for every such response type, does create_authn_response handle it, which
    #      artefacts does the authorization response carry, fragment_enc, and which of c_hash / at_hash the
    #      ID Token issued there carries
    import base64 as _b64
    import json as _json
    import srv
    server = srv.make_server()
    az = server.get_endpoint("authorization")
    handled, rows, frows, hrows = [], [], [], []
    for rt in rp_cfg_rts:
        req = {"client_id": "client_1", "redirect_uri": "https://client_1.example.com/cb", "scope": "openid",
               "state": "st", "nonce": "n-0123456789", "response_type": rt}
        try:
            pr = az.parse_request(dict(req))
            if "error" in pr:
                continue
            r = az.process_request(pr)
            ra = r["response_args"]
            if "error" in ra:
                continue
        except Exception:
            continue       # not handled: the type is simply absent from op_configurable_response_types
        handled.append(rt)
        got = [k for k in ("code", "access_token", "id_token") if k in ra]
        rows.append("(%s, %s)" % (coq_str(rt), lst(got)))
        if not isinstance(r.get("fragment_enc"), bool):
            raise Untranslatable("authorization probe for %r: fragment_enc = %r" % (rt, r.get("fragment_enc")))
        frows.append("(%s, %s)" % (coq_str(rt), "true" if r["fragment_enc"] else "false"))
        if "id_token" in ra:
            try:
                part = ra["id_token"].split(".")[1]
                payload = _json.loads(_b64.urlsafe_b64decode(part + "=" * (-len(part) % 4)))
            except Exception as e:
                raise Untranslatable("authorization probe for %r: ID Token is not a JWS (%r)" % (rt, e))
            hrows.append("(%s, %s)" % (coq_str(rt), lst([h for h in ("c_hash", "at_hash") if h in payload])))
    add("op_configurable_response_types", "list pystr", lst(handled))
    add("op_artefacts", "list (pystr * list pystr)", "[" + "; ".join(rows) + "]")
    add("op_fragment_enc", "list (pystr * bool)", "[" + "; ".join(frows) + "]")
    add("op_idt_hashes", "list (pystr * list pystr)", "[" + "; ".join(hrows) + "]")

    # ---- the scope values the provider knows (what a client without allowed_scopes of its own may be granted:
    #      Scopes.get_allowed_scopes() of the real provider, i.e. the keys of its scope -> claims map), and
    #      whether a request naming another scope value is refused or the value silently dropped
    sh = server.context.scopes_handler
    add("op_scopes", "list pystr", lst(strs(list(sh.get_allowed_scopes()), "Scopes.get_allowed_scopes()")))
    duk = server.context.get_preference("deny_unknown_scopes")
    if duk not in (None, True, False):
        raise Untranslatable("provider preference deny_unknown_scopes = %r" % (duk,))
    add("op_deny_unknown_scopes", "bool", "true" if duk else "false")

    # ---- probe 1b (real message class): which hash the relying party REQUIRES in an ID Token that arrives
    #      together with a code / an access token (oidc.AuthorizationResponse.verify)
    from cryptojwt.jwt import JWT as _JWT
    from cryptojwt.jws.utils import left_hash as _left_hash
    from idpyoidc.message.oidc import AuthorizationResponse as _AR
    _kj = server.keyjar
    _iss = server.context.issuer

    def _idt(extra):
        pl = {"sub": "s", "nonce": "n", "aud": ["client_1"]}
        pl.update(extra)
        return _JWT(_kj, iss=_iss, sign_alg="RS256", lifetime=300).pack(pl, recv="client_1")

    def _accepts(msg):
        try:
            return bool(_AR(**msg).verify(keyjar=_kj, iss=_iss, client_id="client_1")), None
        except Exception as e:
            return False, e
    ok, err = _accepts({"state": "st", "id_token": _idt({})})
    if not ok:
        raise Untranslatable("AuthorizationResponse.verify refuses a plain ID Token in the probe: %r" % (err,))
    rrows = []
    for art, val in (("code", "the-code"), ("access_token", "the-access-token")):
        ok, err = _accepts({"state": "st", "id_token": _idt({}), art: val})
        if ok:
            continue            # nothing required for this artefact
        need = [h for h in ("c_hash", "at_hash") if h in str(err)]
        if len(need) != 1:
            raise Untranslatable("cannot tell which hash is required next to %r: %r" % (art, err))
        ok2, err2 = _accepts({"state": "st", "id_token": _idt({need[0]: _left_hash(val, "HS256")}), art: val})
        if not ok2:
            raise Untranslatable("ID Token with %s still refused next to %r: %r" % (need[0], art, err2))
        rrows.append("(%s, %s)" % (coq_str(art), coq_str(need[0])))
    add("rp_idt_required_hash", "list (pystr * pystr)", "[" + "; ".join(rrows) + "]")

    # ---- probe 2: where the relying party takes access token / ID Token from, per response type
    from idpyoidc.client.oauth2.stand_alone_client import StandAloneClient
    from idpyoidc.message.oidc import AuthorizationRequest

    class _CS:
        def __init__(self, rt):
            self.rt = rt

        def get_set(self, *a, **kw):
            return AuthorizationRequest(response_type=self.rt)

    class _Ctx:
        pass

    class _Probe(StandAloneClient):
        def __init__(self, rt):      # no configuration needed: only the method below is exercised
            self._ctx = _Ctx()
            self._ctx.cstate = _CS(rt)

        def get_context(self):
            return self._ctx

        def get_tokens(self, state):
            return {"access_token": "AT-token-endpoint", "__verified_id_token": "IDT-token-endpoint"}

    SRC = {None: "SrcNone", "AT-authz": "SrcAuthz", "IDT-authz": "SrcAuthz",
           "AT-token-endpoint": "SrcToken", "IDT-token-endpoint": "SrcToken"}
    rows = []
    for rt in rp_cfg_rts:
        ar = {"state": "st", "access_token": "AT-authz", "__verified_id_token": "IDT-authz", "code": "c"}
        try:
            res = _Probe(rt).get_access_and_id_token(authorization_response=ar, state="st")
        except Exception as e:
            raise Untranslatable("get_access_and_id_token probe for %r raised %r" % (rt, e))
        if not isinstance(res, dict) or res.get("access_token") not in SRC or res.get("id_token") not in SRC:
            raise Untranslatable("get_access_and_id_token probe for %r returned %r" % (rt, res))
        rows.append("(%s, (%s, %s))" % (coq_str(rt), SRC[res["access_token"]], SRC[res["id_token"]]))
    add("rp_artefact_sources", "list (pystr * (src * src))", "[" + "; ".join(rows) + "]")

    text = ("(* GENERATED by harness/gen_tables.py (gen_supports) from the current /repo/src - do not edit. *)\n"
            "From Coq Require Import String.\nFrom Verif Require Import Lib.Base Lib.InteropTy.\n"
            "Open Scope string_scope.\n\n" + "\n".join(defs) + "\n")
    emit(outdir, "Supports.v", text)


def main():
    outdir = sys.argv[1]
    os.makedirs(outdir, exist_ok=True)
    # (generator function, file it writes) — builders: append one line each
    GENERATORS = [
        (gen_impexp_tables, "ImpExpTables.v"),
        (gen_pkce_tables, "PkceTables.v"),
        (gen_schema, "Schema.v"),
        (gen_rp_tables, "RpTables.v"),
        (gen_supports, "Supports.v"),
    ]
    rc = 0
    for fn, fname in GENERATORS:
        try:
            fn(outdir)
        except Untranslatable as e:
            broken("%s: %s" % (fn.__name__, e))
            rc = 1
        except Exception:
            broken("%s crashed: %s" % (fn.__name__, traceback.format_exc()[-800:]))
            rc = 1
        else:
            continue
        try:   # fail closed: no stale table survives a broken translation
            os.remove(os.path.join(outdir, fname))
        except OSError:
            pass
    sys.exit(rc)


if __name__ == "__main__":
    main()
