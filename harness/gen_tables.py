"""harness/gen_tables.py — regenerate coq/Gen/*.v (data tables) from the CURRENT /repo/src.

Called by the engine on every check as `python gen_tables.py <outdir>` with PYTHONPATH=<repo>/src.
Fail-closed: anything that can no longer be translated prints a line
    BROKEN-TRANSLATION: <what>
and the generated file is removed (so that every proof depending on it stops compiling); the process
then exits non-zero.

SHARED FILE — several property builders add generators here.  Rules:
  * one self-contained function `gen_<name>(outdir)` per generated file `Gen/<Name>.v`
    (local imports inside the function; use `emit(outdir, "<Name>.v", text)` to write);
  * append your function above `main()` and add ONE line to the GENERATORS list in main();
  * do not edit other builders' functions.
"""
import os
import sys
import traceback


def broken(what):
    print("BROKEN-TRANSLATION: " + str(what).replace("\n", " | "))


def emit(outdir, name, text):
    """Write a generated file only when its content changed (keeps make's timestamps quiet)."""
    path = os.path.join(outdir, name)
    old = None
    if os.path.exists(path):
        with open(path) as f:
            old = f.read()
    if old != text:
        tmp = path + ".tmp%d" % os.getpid()
        with open(tmp, "w") as f:
            f.write(text)
        os.replace(tmp, path)


def coq_str(s):
    """Python str -> Gallina term of type pystr (list N); same convention as engine.coq_str."""
    if all(32 <= ord(c) < 127 and c != '"' for c in s):
        return '(PS "%s")' % s
    return "[" + ";".join(str(ord(c)) for c in s) + "]%N" if s else "(@nil N)"


class Untranslatable(Exception):
    pass


# --------------------------------------------------------------------------------------------------
# C13: every ImpExp `parameter` / `special_load_dump` / `init_args` table  ->  Gen/ImpExpTables.v
# --------------------------------------------------------------------------------------------------
def gen_impexp_tables(outdir):
    """Gen/ImpExpTables.v: `impexp_tables : list (pystr * impexp_class)` — for every subclass of
    idpyoidc.impexp.ImpExp reachable after importing the provider and the relying-party packages:
    its qualified name, the `parameter` table (attribute -> ptype, declaration order), the names in
    `special_load_dump` (with which of load/dump they define) and `init_args`.
    ptype is defined by hand in Lib/ImpExpTy.v."""
    import importlib
    for m in ("idpyoidc.server", "idpyoidc.server.session.grant", "idpyoidc.server.session.manager",
              "idpyoidc.server.session.info", "idpyoidc.server.session.token", "idpyoidc.server.token.handler",
              "idpyoidc.server.endpoint_context", "idpyoidc.client.entity", "idpyoidc.client.service_context",
              "idpyoidc.client.current", "idpyoidc.client.service", "idpyoidc.item", "idpyoidc.node",
              "idpyoidc.client.claims.oidc", "idpyoidc.client.claims.oauth2", "idpyoidc.server.claims.oidc",
              "idpyoidc.server.claims.oauth2", "idpyoidc.client.oidc", "idpyoidc.client.oauth2",
              "idpyoidc.client.oauth2.stand_alone_client", "idpyoidc.client.rp_handler"):
        importlib.import_module(m)
    from idpyoidc.impexp import ImpExp
    from idpyoidc.message import Message

    def qn(c):
        return c.__module__ + "." + c.__name__

    def ptype(v, where):
        if v is None:
            return "PNone"
        if v is bool:
            return "PBool"
        if v is object:
            return "PObject"
        if isinstance(v, bool):
            raise Untranslatable("%s: boolean literal %r as parameter type" % (where, v))
        if isinstance(v, int) and v == 0:
            return "PInt"
        if isinstance(v, str):
            if v == "":
                return "PStr"
            if v == "DICT_TYPE":
                return "PDictType"
            raise Untranslatable("%s: string %r as parameter type" % (where, v))
        if isinstance(v, bytes) and v == b"":
            return "PBytes"
        if isinstance(v, dict) and v == {}:
            return "PDict"
        if isinstance(v, list):
            if v == []:
                return "PList"
            if len(v) == 1:
                return "(PListOf %s)" % ptype(v[0], where + "[0]")
            raise Untranslatable("%s: list type with %d elements" % (where, len(v)))
        if isinstance(v, type):
            if issubclass(v, Message):
                return "(PMsg %s)" % coq_str(qn(v))
            return "(PCls %s)" % coq_str(qn(v))
        raise Untranslatable("%s: parameter type %r" % (where, v))

    def subs(c, acc):
        for s in c.__subclasses__():
            if s not in acc:
                acc.append(s)
                subs(s, acc)
        return acc

    classes = [ImpExp] + subs(ImpExp, [])
    classes = sorted({qn(c): c for c in classes if c.__module__.startswith("idpyoidc.")}.items())
    rows = []
    for name, c in classes:
        par = c.parameter
        if not isinstance(par, dict):
            raise Untranslatable("%s.parameter is not a dict" % name)
        fields = []
        for attr, ty in par.items():
            if not isinstance(attr, str):
                raise Untranslatable("%s.parameter key %r" % (name, attr))
            fields.append("(%s, %s)" % (coq_str(attr), ptype(ty, "%s.parameter[%r]" % (name, attr))))
        sld = c.special_load_dump
        if not isinstance(sld, dict):
            raise Untranslatable("%s.special_load_dump is not a dict" % name)
        specials = []
        for attr, fn in sld.items():
            if not isinstance(fn, dict) or set(fn) - {"load", "dump"}:
                raise Untranslatable("%s.special_load_dump[%r] = %r" % (name, attr, fn))
            specials.append("(%s, (%s, %s))" % (coq_str(attr), "true" if "dump" in fn else "false",
                                                 "true" if "load" in fn else "false"))
        ia = c.init_args
        if isinstance(ia, dict):
            ia = list(ia.keys())
        if not isinstance(ia, (list, tuple)) or not all(isinstance(x, str) for x in ia):
            raise Untranslatable("%s.init_args = %r" % (name, ia))
        bases = [qn(b) for b in c.__mro__[1:] if b is not object and b.__module__.startswith("idpyoidc.")]
        rows.append("  (%s,\n   mk_impexp_class\n     [%s]\n     [%s]\n     [%s]\n     [%s])" % (
            coq_str(name), ";\n      ".join(fields), "; ".join(specials),
            "; ".join(coq_str(x) for x in ia), "; ".join(coq_str(b) for b in bases)))
    text = ("(* GENERATED by harness/gen_tables.py (gen_impexp_tables) from the current /repo/src — do not edit. *)\n"
            "From Verif Require Import Lib.Base Lib.ImpExpTy.\n\n"
            "Definition impexp_tables : list (pystr * impexp_class) := [\n%s\n].\n" % ";\n".join(rows))
    emit(outdir, "ImpExpTables.v", text)


# --------------------------------------------------------------------------------------------------
def main():
    outdir = sys.argv[1]
    os.makedirs(outdir, exist_ok=True)
    # (generator function, file it writes) — builders: append one line each
    GENERATORS = [
        (gen_impexp_tables, "ImpExpTables.v"),
    ]
    rc = 0
    for fn, fname in GENERATORS:
        try:
            fn(outdir)
        except Untranslatable as e:
            broken("%s: %s" % (fn.__name__, e))
            rc = 1
        except Exception:
            broken("%s crashed: %s" % (fn.__name__, traceback.format_exc()[-800:]))
            rc = 1
        else:
            continue
        try:   # fail closed: no stale table survives a broken translation
            os.remove(os.path.join(outdir, fname))
        except OSError:
            pass
    sys.exit(rc)


if __name__ == "__main__":
    main()
