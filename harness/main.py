import argparse, os, sys
sys.path.insert(0, os.path.dirname(os.path.abspath(__file__)))
import engine

def main():
    ap = argparse.ArgumentParser()
    ap.add_argument("prop", nargs="?")
    ap.add_argument("--setup", action="store_true")
    ap.add_argument("--tier", default=os.environ.get("VERIF_TIER", "quick"), choices=["quick", "thorough"])
    ap.add_argument("--replay")
    a = ap.parse_args()
    if a.setup:
        sys.exit(engine.setup())
    if not a.prop:
        ap.error("property id required")
    seed = int(os.environ.get("VERIF_SEED", "20260926") or 0)
    sys.exit(engine.run_check(a.prop, a.tier, seed, a.replay))

main()
