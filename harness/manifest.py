"""Writes /verif/MANIFEST.json from the table below (run: /venv/bin/python harness/manifest.py)."""
import json
import os

VERIF = os.path.dirname(os.path.dirname(os.path.abspath(__file__)))

LEVEL_NOTE_COMMON = (
    "Trusted: Coq 8.16.1 kernel incl. vm_compute (no native_compute, no extraction); the hand-written Gallina model "
    "is tied to /repo by the correspondence run of every check (real code vs. model on the same generated inputs, "
    "model evaluated inside coqc) and, where stated, by tables regenerated from /repo/src on every run; the Python "
    "harness (drivers, canonicalisation, case writer); CPython, cryptography, cryptojwt, urllib, json. ")

# id -> (technique, level text, level note, design ref)
CHECKS = {
    "C14": (
        "Rocq proof (codec round-trip/injectivity, tree invariants) + vm_compute correspondence on real SessionManager traces",
        "Theorems (Props/C14.v, closed under the global context): every session-id plaintext resolves to exactly its "
        "(user, client, grant) path for all identifiers; key and session-id injectivity; lv round trip for all lists of all "
        "strings; Database.branch_key tied to the source by translation. Tree theorems over Model/Db.v by induction over all "
        "operation sequences (add_grant, revoke at every level, delete at every depth and of every path, flush; "
        "Proofs/Db_proofs.v): every stored node is listed by its stored parent, no subordinate dangles, one node per "
        "path (C14_reachable_from_parent, C14_no_dangling_subordinate, C14_one_node_per_path); delete removes exactly the "
        "subtree and otherwise touches only strict ancestors (C14_delete_exact); any number of operations on other users' "
        "branches leaves a node unchanged (C14_other_users_unchanged). The model is hand-written and compared with the real Database/GrantManager "
        "after every operation of generated traces (whole-database snapshots) plus an independent structural/frame/"
        "exact-removal oracle on the real database. Read-only queries (grants, branch_info, get_subordinates, get_session_info, find_token ...) are operations that leave the store unchanged (C14_query_leaves_store, C14_queries_are_frame); an issued id resolves to its own path after ANY history (C14_issued_id_resolves_after_any_history), removal / revocation through an id act on exactly its path (C14_remove_through_id, C14_revoke_through_id); the id framing lv_pack [rnd; key; ""] survives the encrypter's blank padding for every key (C14_sid_resolves_through_encrypter). Database.unpack_branch_key and lv_pack are translated from the source and proved equal to the model's.",
        LEVEL_NOTE_COMMON + "Fernet is idealised as authenticated encryption; grant ids (uuid1) assumed fresh.",
        "DESIGN.md §6 C14"),
}

CHECKS["C02"] = (
    "Rocq proof by invariant over all operation sequences (single use, binding, replay revocation) + vm_compute correspondence of the session model with the real token endpoints",
    "Theorems (Props/C02.v, closed under the global context) over Model/Session.v: for every configuration, every history before the "
    "authorization response and EVERY operation sequence after it (parse and process are separate operations, so every interleaving of "
    "any number of concurrent redemptions is covered) a code is exchanged at most once (C02_single_use); an exchange implies the issuing "
    "client, the original redirect_uri, an unexpired/unrevoked/unused code and a live grant (C02_bound); an OIDC replay revokes everything "
    "minted from the code (C02_oidc_replay_revokes); no operation ever un-uses or un-revokes a token (C02_monotone). The hand-written "
    "model is compared with the real OIDC and OAuth2 providers on every run: outcome of every operation and the whole session state "
    "(every grant and token field) of exhaustive 2- and 3-way parse/process interleavings and random histories; an independent oracle "
    "counts exchanges per code and probes derived tokens after replays. Authorizing again within one browser session (request with the provider's session cookie: same / other registered redirect_uri, narrower / wider scope, other client) is an operation of the model (AuthorizeCookie, transcribed from Authorization.setup_auth): the redirect binding of a code is fixed when it is issued and no later operation changes which redirect_uri redeems it (C02_redirect_bound_at_issue, C02_redirect_never_rebound), single use holds for codes of any authorization (C02_single_use_any_authorization); providers without any usage rule (handler lifetimes) are part of the configuration space.",
    LEVEL_NOTE_COMMON + "Token values are abstracted to minting-order identifiers (byte-level formats: C04); client authentication assumed "
    "to succeed for the authenticating client (C01); real thread pre-emption inside one API call is outside property and model.",
    "DESIGN.md §6 C02")

CHECKS["C03"] = (
    "Rocq proof (finality by monotonicity over all operation sequences, refusal at every endpoint, cascade and frame theorems) + vm_compute correspondence with the real endpoints and an independent liveness oracle",
    "Theorems (Props/C03.v, closed): dead = not Item.is_active (C03_dead_is); a dead token stays dead after ANY operation sequence "
    "(C03_final: flags never cleared, usage never drops across an operation, clock monotone); a dead token is refused by userinfo, "
    "reported inactive by introspection, refused by both token-endpoint parse steps and mints nothing in either process step; grant, "
    "client-session and recursive token revocation kill every token below; every token of another grant is left bit-identical "
    "(four isolation theorems). remove-session and user-level revocation (logout-all) are operations of the model: after RemoveGrant no token "
    "of the removed grant is honoured by any later operation and nothing else changes (C03_remove_session_final / _isolation, "
    "C03_removed_forever); RevokeUser kills every token of every grant of the user for good and leaves other users bit-identical "
    "(C03_cascade_user_session, C03_user_session_final, C03_isolation_user_session); real do_verified_logout flows. Model tied to the real OIDC and OAuth2 providers on every run (every outcome + whole session state of "
    "random and structured histories); the oracle keeps a reference liveness from the history alone and probes dead tokens out of band.",
    LEVEL_NOTE_COMMON + "Revoking the parent token cascades only through the recursive API / OIDC replay path (the revocation endpoint's "
    "default policy revokes exactly the presented token) - stated in DESIGN.md; token values abstracted (C04).",
    "DESIGN.md §6 C03")

CHECKS["C05"] = (
    "Rocq proof by invariant over all operation sequences (scope subset invariant, views) + vm_compute correspondence + scope oracle on the real endpoints (incl. JWT access tokens, client_credentials, token exchange)",
    "Theorems (Props/C05.v, closed): in EVERY reachable state of the session model every scope value of every token was requested in its "
    "grant's authorization request and is allowed for the grant's client (C05_no_escalation, from the step invariant C05_invariant_step "
    "through minting, refresh with/without scope parameter and chains of any length); a refresh response stays within the granted scope; "
    "the scope in the token response equals the scope of the returned access token (code exchange and refresh) and introspection reports "
    "that token's scope. Model tied to the real OIDC/OAuth2 providers on every run; the oracle recomputes requested ∩ allowed from the "
    "history and compares response / token / introspection / JWT-claim scopes; token exchange and client_credentials are decided by the "
    "oracle on the real endpoints only (partial: not in the Gallina model). Cookie re-authorizations are in the model: tokens minted from a later authorization are bounded by THAT request (C05_cookie_authorization_bounded; C05_no_escalation ranges over them). Scopes.get_allowed_scopes / filter_scopes are translated from the source on every run and proved equal to the model's (C05_get_allowed_scopes_is_source, C05_filter_scopes_is_source).",
    LEVEL_NOTE_COMMON + "Password grant not exercised (needs a password-checking authentication method). Token values abstracted (C04).",
    "DESIGN.md §6 C05")
CHECKS["C01"] = (
    "Rocq proof (soundness of the method loop, replay cache monotonicity by induction over histories, Dolev-Yao unforgeability) + vm_compute correspondence through Endpoint.parse_request of five real endpoints + credential oracle",
    "Theorems (Props/C01.v, 12, closed) over Model/ClientAuthn.v (verify_client method loop with its exception discipline, all 9 methods, "
    "symbolic JWT.unpack): acceptance as X implies the property's credential disjunction, a method allowed by endpoint and registration, an "
    "unexpired secret (C01_sound); a given iss:jti is accepted at most once over any history sharing the cache (C01_replay); a refusal "
    "returns nothing and can only have grown the replay cache; parse_request hands on 'authenticated' only after an authenticating method "
    "(C01_flag_sound); Dolev-Yao unforgeability (C01_unforgeable). Audience clause guarded by method <> request_param (known finding "
    "request_param-aud, with _refuted witness). Correspondence: ~3k requests (quick) through the real parse_request of token, introspection, "
    "revocation, PAR and userinfo endpoints, single-fault matrix, sampled method lists (thorough: all 511 subsets x 2 orders).",
    LEVEL_NOTE_COMMON + "Byte-level crypto idealised; bearer-token resolution is an environment function (C04); kid headers, JWE, also_known_as not modelled.",
    "DESIGN.md §6 C01")
CHECKS["C10"] = (
    "Rocq proof (per-kind round-trip lemmas + forallb over the schema table REGENERATED from /repo/src on every run) + vm_compute correspondence on every class/parameter/format cell + round-trip oracle (JSON, JWT, JWE, form)",
    "Theorems (Props/C10.v, closed): UTF-8 and query-string round trips for all strings; every parameter of every Message subclass in the "
    "regenerated Gen/Schema.v is of a modelled or pinned-opaque kind (a new class or kind re-opens the obligation); to_dict/constructor "
    "round trip for every class and valid message; form-encoding round trip up to int/bool text under the guard that list elements hold no "
    "space (C10_urlencoded_partial + C10_urlencoded_refuted: known finding F17). 11 wire-format findings on nested/dict/identity-assurance "
    "kinds are listed in known_findings.txt and replayed deterministically.",
    LEVEL_NOTE_COMMON + "json text, JWT/JWE crypto trusted and exercised; 29 opaque kinds (nested messages, identity assurance) decided by the oracle only.",
    "DESIGN.md §6 C10")
CHECKS["C11"] = (
    "Rocq proof (generic verify iff schema, chain flags over the regenerated table, typed coercion, AuthorizationRequest rule table) + vm_compute correspondence + schema oracle",
    "Theorems (Props/C11.v, closed): Message.verify accepts iff every required parameter is present and non-empty and every enumerated "
    "value is in its set (C11_generic); every verify() override in the table regenerated from /repo/src chains to the parent "
    "(C11_all_classes: deleting a chain call breaks the proof); _add_value stores the declared type or refuses, under a stated guard "
    "(C11_typed_partial/_refuted); the oidc AuthorizationRequest cross-parameter rules as an iff. 23 genuine typed-slot / signed-object "
    "findings are listed in known_findings.txt and replayed deterministically; everything else must be clean. The c_hash and at_hash rules of oidc.AuthorizationResponse are two independent rule lists; an accepted response with an ID Token satisfies both (C11_rules_AuthorizationResponse_hashes, C11_verify_id_token_iff), exercised on the full truth table code x access_token x c_hash x at_hash x 5 algorithms x 4 construction paths with real signed ID Tokens. Embedded signed objects inside encrypted wrappers: C11_embedded_only_signed / C11_embedded_refuted.",
    LEVEL_NOTE_COMMON + "Embedded signed objects and the other classes' rule tables are decided by the oracle on the real code.",
    "DESIGN.md §6 C11")
CHECKS["C08"] = (
    "Rocq proof (soundness of IdToken.verify and of the authorization / token services as an accept-implies-conjunction theorem over tables regenerated from the message schemas; Dolev-Yao unforgeability) + vm_compute correspondence on the message API and the real StandAloneClient services + mutation oracle",
    "Theorems (Props/C08.v, closed) over Model/IdToken.v, Model/RpState.v and Gen/RpTables.v (c_param tables of IdToken, "
    "AuthorizationResponse, AccessTokenResponse, OpenIDSchema, ID_TOKEN_VERIFY_ARGS, IDT2REG, NONCE_STORAGE_TIME regenerated from "
    "/repo/src on every run): an accepted token is signed by a key of the expected issuer (or the client secret for HS*) with the "
    "expected algorithm, never 'none' unless allowed, names the issuer, lists the client in aud / azp, lies inside the exp / iat / "
    "skew windows, carries the nonce that was sent, and matches c_hash / at_hash when signed (C08_sound); a verified ID token is "
    "stored or returned only after verify_id_token succeeded under the client's own settings (C08_authorization_service, "
    "C08_token_service); a refused operation stores nothing (C08_reject_stores_nothing); the effective algorithm of a static "
    "client is its configured one (C08_expected_alg). Correspondence: ~16k cases per quick run (313-fault matrix x settings x "
    "delivery path, random fault pairs, malformed tokens). One recorded finding (unsigned token from the authorization endpoint: "
    "hashes not checked; a repository test pins it).",
    LEVEL_NOTE_COMMON + "Byte-level token damage has no model (oracle only). birthdate / address / _claim_* / lang-tag keys, "
    "non-str alg and floats are Unmodelled.",
    "DESIGN.md §6 C08")
CHECKS["C09"] = (
    "Rocq proof (RP state machine: accept-implies-own-state/issuer, frame over the other sessions, lifted to all operation sequences by induction) + vm_compute correspondence on real RP instances (RPHandler, several issuers) + recombination oracle",
    "Theorems (Props/C09.v, closed) over Model/RpState.v: an accepted authorization response has its state in the database of the "
    "client it was delivered to, the stored issuer is that client's issuer and iss / client_id response parameters are its own "
    "(C09_accept_own); a refused response changes nothing (C09_reject_changes_nothing); an accepted one changes only its own state "
    "record (C09_frame_db, C09_frame_client); a pending flow's nonce binding survives every operation of every other flow "
    "(C09_nonce_binding_stable); lifted to all histories (C09_history, C09_history_frame_db, C09_history_frame_map, "
    "C09_history_states_issued). Correspondence: ~590 traces / 7k operations per quick run over 1-3 issuers with recombined "
    "genuine response parameters, unknown and mutated states. Hybrid response types (code id_token token, code token, id_token token ...) with three pending flows and the full member-by-member recombination table: an accepted response with a signed ID Token has every member from the flow its state names, and what is stored is that flow's own code and access token (C09_authz_members_hashed, C09_hybrid_members_own).",
    LEVEL_NOTE_COMMON + "Back-channel logout and clear_session are not modelled; HTTP statuses other than 200 Unmodelled.",
    "DESIGN.md §6 C09")
CHECKS["C12"] = (
    "Rocq proof (per-dimension compatibility over tables regenerated from both halves, characterisation of the completing cells of the whole configuration product, view projections) + vm_compute correspondence on real RP<->OP flows + completion/view oracle",
    "Theorems (Props/C12.v, 26, closed) over Model/Interop.v and Gen/Supports.v (both halves' _supports, authn-method and PKCE tables, "
    "signing/encryption key families, regenerated from /repo/src on every run): every value the RP can be configured with is, after "
    "negotiation, accepted by the provider's code, for all eleven dimensions (C12_dimension_compatible); for every cell of the ~4.7e9 "
    "product and every input the flow completes iff none of nine named limits applies (C12_product_char, by factoring into eight "
    "independent groups, never enumerated); each limit has a witness cell (C12_refuted_*), replayed against the real code on every "
    "run and listed in known_findings.txt (11 keys); the views of a completed flow are projections of one session record "
    "(C12_views_agree, _partial for response type id_token). Correspondence: discovery, registration, authorization via plain / "
    "request / request_uri / PAR, token, userinfo, introspection and refresh between the real client and the real provider, outcome "
    "and every view compared with the model. Requested versus granted scope: granted = filter_scopes provider allowed requested (op_scopes regenerated), every view that states a scope states the granted one (C12_scope_views_granted), unknown scopes are dropped (C12_unknown_scopes_dropped), refreshes that narrow the scope (C12_refresh_scope, C12_views_after_scoped_refresh); flows with scopes unknown to the provider / outside allowed_scopes / narrowed at refresh.",
    LEVEL_NOTE_COMMON + "Real cryptography of each algorithm pair is exercised by the flows, not proved (partial). Dynamic "
    "registration and request-object algorithms other than RS256 are not modelled.",
    "DESIGN.md §6 C12")
CHECKS["C16"] = (
    "Rocq proof (request-object authentication over three transports, PAR store machine by induction over op lists, Dolev-Yao) + vm_compute correspondence on the real authorization and PAR endpoints + generator-ground-truth oracle",
    "Theorems (Props/C16.v, 11, closed) over Model/Jar.v: an accepted request with a verified object belongs to the identified client, uses "
    "an algorithm permitted for it and verifies under its keys, on all three transports and all histories (C16_authenticated, "
    "C16_registered_alg_enforced, C16_cross_client); object claims override outer ones; a pushed request is redeemed at most once, only via "
    "its own urn and only within the announced lifetime (C16_par_once, C16_par_lifetime, C16_par_own_uri); unforgeability via sig_genuine. "
    "Correspondence: ~4k traces quick (fault x transport x flavour matrix, alg x registration matrix, PAR words to length 4). Encrypted request objects: WEnc wrapper with open_wrapper mirroring from_jwt's decrypt-then-verify-or-JSON fallback; pushing / presenting a wrapped object equals presenting its content (C16_wrapper_pushed, C16_wrapper_by_value), JSON nobody signed is accepted only where alg none is permitted, never for a client that registered an algorithm (C16_wrapped_unsigned_registered), soundness over wrapped objects (C16_wrapped_authenticated); ~4k wrapped cases (JWE to the provider's RSA / EC key around bare JSON, alg-none, foreign-key, altered, non-permitted, genuine; unopenable / truncated wrappers) on all three transports. ~10.6k traces.",
    LEVEL_NOTE_COMMON + "JWE, jti/exp/nbf of request objects, URI normalisation (C06) and PAR client authentication (C01) not modelled.",
    "DESIGN.md §6 C16")

CHECKS["C18"] = (
    "Rocq proof (subject-type theorems over an abstract collision-free hash) + vm_compute correspondence with hashlib digests + four-release-point oracle on real flows",
    "Theorems (Props/C18.v, closed): the subject is a function of (registered type, user, salt, sector) only (C18_stable); public subjects "
    "are equal across clients; pairwise subjects of one user are equal iff the sector hosts are equal (needs the hash injective); "
    "ephemeral subjects differ per grant; the type comes from the client's registration; a hexdigest cannot contain a user id that has a "
    "non-hex character (C18_opaque_partial). Consistency of the four release points (ID Token, userinfo, JWT access token, introspection) "
    "is decided on the real endpoints: every grant of generated login sequences is read at all four and compared; the observed sub must "
    "equal the model's (SHA-256 via hashlib tables). A static source tie checks that each release point still reads grant.sub. "
    "Configured subject minters (session_params.sub_func): the model carries the configured dict (load_sub_func = the loop of "
    "do_sub_func, fill_default = SessionManager's completion); every key is served by the minter its own entry names, else by the built-in "
    "one (C18_table_serves_each_type_with_its_own_minter, C18_configured_minter_serves_its_type, C18_unconfigured_type_gets_builtin), "
    "whatever the order of the dict (C18_configuration_order_irrelevant), and the type rules hold for sector-blind / sector-hashing "
    "minters under their keys; providers with one, two or three configured types in all 15 orders (PublicID / PairWiseID classes, library "
    "and plain functions, own salts) run the same login sequences, and the provider's sub_func table is probed key by key.",
    LEVEL_NOTE_COMMON + "SHA-256 idealised as injective; urlparse().hostname is an environment function; uuid4 freshness assumed. Partial: "
    "consistency is oracle-decided, opacity is proved for user ids with a non-hex character.",
    "DESIGN.md §6 C18")
CHECKS["C19"] = (
    "Rocq proof (decision table by finite enumeration + factoring lemma, rollback, uniqueness by induction over histories, read isolation) + vm_compute correspondence on the real registration/read endpoints + rule oracle",
    "Theorems (Props/C19.v, 12, closed) over Model/Registration.v + Model/RegUri.v: an accepted registration's redirect URIs obey the "
    "application-type/response-type rule (whole finite abstraction decided by vm_compute, concrete URIs factor through it); any answer other "
    "than 201 leaves cdb, registration tokens and key-jar owners unchanged; client ids are pairwise distinct and new over any history; the "
    "secret/token/id are the provider's draws; the response echoes the stored record; the read endpoint answers only for the token's own "
    "client. Correspondence: 600-cell URI matrix (exhaustive), metadata single faults, random histories with id collisions, all token x "
    "client pairings. Restricted provider lists: what is stored, echoed and read back lies within the provider's *_supported lists after any history (C19_stored_within_lists, C19_echoed_within_lists, C19_read_within_lists, C19_history_within_lists), the alg-without-enc default is stored only if listed (C19_default_enc_only_if_listed); leave-one-out / singleton enc lists for all three encryption pairs, restricted signing / response / grant / subject / auth-method lists. random_client_id is translated from the source and proved equal to pick_id (unbounded retry).",
    LEVEL_NOTE_COMMON + "sector_identifier_uri, non-ASCII URIs, jwks internals are Unmodelled (oracle only).",
    "DESIGN.md §6 C19")
CHECKS["C15"] = (
    "Rocq proof (both PKCE legs as decision functions over an arbitrary hash; tables regenerated from CC_METHOD on every run) + vm_compute correspondence through the real endpoints and the real RP add-on",
    "Theorems (Props/C15.v, closed): tokens issued for a code whose authorization request stored challenge c imply a verifier that the "
    "RECORDED method maps to c (C15_bound, C15_tokens_iff); missing/wrong verifier refused; essential flag truth table (per-client overrides "
    "global); no downgrade through the token request; RP-produced pairs are accepted for every non-empty verifier and shared method; client and "
    "provider transform tables agree (over tables regenerated from the source). Correspondence ~7k traces on 9 real provider configurations. PKCE over every request transport (front channel, request object by value / by reference, pushed request with plain body or object): the recorded challenge is the one of the protected request, a front-channel pair next to it never becomes the recorded one, the token endpoint accepts a verifier iff it transforms to the protected challenge (C15_transport_protected_challenge_recorded, C15_transport_pushed_front_irrelevant, C15_transport_tokens_iff and nine more); verify_code_challenge is translated from the source on every run (C15_verify_code_challenge_is_source). ~9k traces.",
    LEVEL_NOTE_COMMON + "The hash is an arbitrary function (injective where stated). A configured code_challenge_length of 0 is outside the RP-agree domain (DESIGN.md).",
    "DESIGN.md §6 C15")
CHECKS["C17"] = (
    "Rocq proof (round trip per protection mode with exact guards, Dolev-Yao tamper evidence over Lib/Crypto) + vm_compute correspondence on real CookieHandlers with exhaustive boundary-shift mutations",
    "Theorems (Props/C17.v, closed): make-then-parse returns (value, type, timestamp) in signed, signed+encrypted, encrypted and encrypter "
    "modes for unrestricted values (guards only on the type/timestamp, each with a _refuted witness reproduced on the real code); with the "
    "handler keys unpublished, any derivable cookie that parses has the content of a genuine cookie (four tamper-evidence theorems). "
    "client/cookie.py: round trip + partial tamper theorem with _refuted witness (known findings client-cookie-boundary-shift, "
    "client-cookie-rt-bar). Several cookies in one parse_cookie call (list model parse_cookies): the result is exactly each named cookie's own parse at its position, forged cookies contribute nothing, order only permutes (C17_list_compositional, C17_list_raises, C17_list_order, C17_list_roundtrip, four C17_list_tamper_evident_* theorems); jars of genuine and forged cookies in every order on the real handlers.",
    LEVEL_NOTE_COMMON + "HMAC, AES-GCM and Fernet idealised (symbolic); byte-level mutations are exercised, not proved.",
    "DESIGN.md §6 C17")

CHECKS["C04"] = (
    "Rocq proof (round trip, class and key separation, session binding, Dolev-Yao unforgeability over symbolic Fernet/JWS) + vm_compute correspondence on real handler plaintexts + every-token-in-every-slot and byte-mutant oracle on real endpoints",
    "Theorems (Props/C04.v, 15, closed): a minted opaque token resolves with its own handler to exactly its session id; a handler refuses "
    "a token minted for another class even when all handlers share one key (the class field inside the authenticated plaintext decides); "
    "foreign-key tokens do not decrypt; equal token values imply equal class and session; with the handler key unpublished every derivable "
    "term the handler accepts is something the provider published, of an accepted class, resolving to a session that class was minted for "
    "(C04_unforgeable); the same for JWT tokens (class separation, ID Token is no access token, expired signature refused, foreign key, "
    "unforgeability); which key verifies a JWT (Model/JwtKeys.v: keys are looked up under the issuer the token names; with algorithm and "
    "issuer pinned an accepted token names this provider and was produced with one of its own keys - C04_jwt_accepted_is_own, "
    "C04_jwt_key_of_another_owner_refused, with the refutation witness for the code before 785ab74); lv codec for all lists of all "
    "strings. Correspondence: genuine and re-signed JWTs (provider keys, client secrets, client-registered keys, fresh keys x five "
    "issuer claims) presented to the real JWT handlers vs. the key-jar model; real tokens decrypted with the handler's key vs. the model's "
    "lv_pack(rnd,class,sid,exp); info() matrix handler x class x shared/distinct keys. Oracle: genuine tokens of all classes in all slots "
    "of userinfo/introspection/token endpoint on 3 provider variants, another instance's tokens, ~15-80 byte-level mutants and ~30 key-confusion forgeries per token. Tokens as bearer_header / bearer_body CLIENT credential: slot model (SBearer resolves through the access-token handler only, SGeneric through the ordered fall-through) with C04_bearer_credential_only_access_token, C04_bearer_credential_authenticates_its_client, C04_bearer_credential_unforgeable(_jwt) and the refuted variant C04_bearer_by_generic_lookup_refuted; every token of every class, other sessions / providers, mutants, forgeries and dead access tokens offered as bearer credential at every endpoint before and after a generic lookup.",
    LEVEL_NOTE_COMMON + "Partial: byte-level integrity (bit flips, truncation, re-encoding) rests on the AE/JWS idealisation and is exercised on the real libraries, not proved.",
    "DESIGN.md §6 C04")

CHECKS["C07"] = (
    "Rocq proof (released claims bounded by the four permitted sources, value constraints, null never released) + vm_compute correspondence with the real ClaimsInterface + end-to-end bound oracle on the four release points",
    "Theorems (Props/C07.v, closed) over Model/Claims.v (get_claims_from_request, _client_claims, scopes_to_claims, get_user_claims, "
    "claims_match): every released attribute is in the restriction, is the user's own non-null value and satisfies its value/values "
    "constraint; the restriction's keys come only from base claims, always-add claims (module or per-client), claims mapped from scopes "
    "the token carries AND the client is allowed, and the claims request of that release point. Correspondence: restriction (order and "
    "specs) and released claims of ~400 (quick) generated configurations x scopes x claims requests x release points vs. the real "
    "ClaimsInterface. Oracle: attributes found in real userinfo responses, ID Tokens, introspection responses and JWT access tokens lie "
    "within the bound recomputed from the configuration; foreign-audience introspection and dead tokens release nothing; the same flow "
    "releases the same on a long-lived and a fresh provider. The token scope is an argument of its own (get_claims_tok, release_tok): what is released follows the PRESENTED token's scope, not the grant's (C07_token_scope_bound, C07_grant_scope_irrelevant), and a narrower token scope never releases more (C07_narrower_token_never_more); down-scoped tokens (refresh with narrower scope, refresh of a refresh, token exchange) are read at userinfo, introspection and as JWT / ID Token.",
    LEVEL_NOTE_COMMON + "The user database is an arbitrary function; 'nothing for an invalid token' rests on C03/C04; history independence on C20 (both probed by the oracle).",
    "DESIGN.md §6 C07")

CHECKS["C06"] = (
    "Rocq proof (URI matcher soundness/completeness over a model of urllib's parser fragment, HTML escaping, delivery round trips) + vm_compute correspondence (incl. differential validation of the urllib/html model on every generated string) + independent matcher oracle on the real endpoints",
    "Theorems (Props/C06.v, 34, closed) over Model/Uri.v, Lib/Html.v, Model/Delivery.v: anything verify_uri accepts has no fragment, no "
    "control characters, a host, a valid port, an absolute path and equals a registered URI in scheme, netloc (hostname+userinfo for native "
    "loopback, port ignored only there), path, params and query multimap (C06_match_sound*); a registered URI is accepted "
    "(C06_match_complete); a failing redirect_uri never leads to a redirect (C06_error_is_direct); escaped text contains no markup and "
    "decodes back; the form_post page parses back to exactly the action and the issued pairs; query/fragment/logout-state delivery leaves "
    "the target unchanged and the parameters exact for every accepted URI. Correspondence ~12k cases quick: single-fault URI matrix x 16 "
    "client configurations x endpoint types, response types x modes x hostile state values, end-session matrix. One recorded finding "
    "(empty-path-params-dropped) with guarded theorem + refuted witness. Completion time: the redirect URI is judged again when the response is built, against the registration in force then (Model/Flight.v complete / get_uri_at): what is delivered by redirect or page goes to a URI verified at that moment, an unverifiable URI has no redirect target whatever the error, a failed completion sends its error by redirect iff the URI verifies (C06_completion_redirect, C06_completion_page, C06_completion_unverified_direct, C06_failed_completion_error, C06_reverify and eight more); registration changes in flight, flows resumed from stored requests (create_session + authz_part2), request parameters named like the provider's own result keys (error, return_uri, ...).",
    LEVEL_NOTE_COMMON + "urllib.parse / html.escape are modelled for the ASCII fragment and validated differentially every run; non-ASCII and exotic IPv6 literals are Unmodelled (counted, ~3%).",
    "DESIGN.md §6 C06")

CHECKS["C13"] = (
    "Rocq proof (file store refines a map over all op sequences; ImpExp codec / dump idempotence; exported-field coverage over parameter tables REGENERATED from /repo/src) + vm_compute correspondence + restore-after-every-prefix oracle on real providers and RPs",
    "Theorems (Props/C13.v, closed): every sequence of set/get/del/keys/items/in/len/clear/re-open on the file store over arbitrary "
    "byte-string keys answers like a plain map and a new instance observes exactly that map (C13_filestore_refines, unguarded after fixes "
    "326d062/c8dc82a/39b33d9); key codec round trip; ImpExp attribute codec (partial + refuted witness for 'BYTES:' strings); "
    "dump . load . dump = dump; grant with issued tokens round-trips; every state field the session logic reads is in the regenerated "
    "`parameter` table of its class (C13_fields_covered: deleting 'used', 'jti_db', 'cdb', '_map' breaks the proof). Oracle: real "
    "provider histories (26-step fixed + random) dumped and restored into a fresh provider after EVERY prefix under 5 key-pinning "
    "configurations, remaining operations compared; RP likewise; two recorded findings replayed deterministically.",
    LEVEL_NOTE_COMMON + "Partial: there is no C13_equivalent theorem over the session model - equivalence after restore is decided by the "
    "all-prefix restore oracle; mtimes, file locks, KeyJar not modelled.",
    "DESIGN.md §6 C13")
CHECKS["C20"] = (
    "Rocq proof (soundness of an ownership checker for aliasing: a checked flow never writes a pre-existing object) + alias probes evaluated in coqc + deep snapshot diff and history-independence oracle on long-lived providers / RP",
    "Theorems (Props/C20.v, closed): C20_no_static_write (for every instruction list, heap and execution a flow accepted by the checker "
    "leaves every pre-existing object unchanged); the 10 request-handling flows transcribed from the CURRENT code are accepted "
    "(C20_current_flows_checked) and the 8 pre-fix variants are rejected at the predicted instruction (Examples). Tie: alias probes on "
    "the real functions with sentinel objects compared with the checker's typing; oracle: deep canonical snapshot of all Message schema "
    "tables, UPPERCASE module constants, endpoint attributes/kwargs, authz/claims/scopes configuration and client records (minus "
    "auth_method) before/after every request on long-lived OIDC and OAuth2 providers and an RP; per-client probe flows compared with a "
    "fresh provider after every batch. Regenerated alias flows: harness/py2alias.py re-reads 46 request-handling functions on every run and emits their alias IR (one flow per path, 749 paths) into Gen/AliasGen.v; C20_generated_flows_checked (vm_compute) + C20_generated_flows_no_static_write (through the soundness theorem) are re-checked against the current source, C20_generated_translation_complete says nothing was refused, the agreement theorems tie the generated flows to the hand-transcribed ones. Flows also cover verified logout, acr_values requests against two configured authentication methods; the authentication broker and every remaining context attribute are in the snapshot.",
    LEVEL_NOTE_COMMON + "Partial: the flows are hand transcriptions (not regenerated from source); any other in-place write is caught by "
    "the snapshot diff (a check, not a theorem); no noninterference theorem over the session model.",
    "DESIGN.md §6 C20")

NOT_YET = "not claimed in this snapshot: its model/theorems/driver are not built yet (DESIGN.md §9 build order); no check is registered rather than a weaker technique"


# what rounds 8-10 of the seeded-change protocol added to the models (appended to the descriptions above)
LATER = {
    "C01": " Claims inside signed assertions (sub / azp / client_id naming someone else) never decide the identity (C01_assertion_identity, "
           "C01_subject_never_identity); credential histories - re-registration under the same id, replaced / given-up keys, rotated "
           "secrets, key jars holding several symmetric keys, kid selection - with C01_current_secret_only, C01_registration_in_force, "
           "C01_rotation_sound and the refuted witness of the recorded finding request_param-superseded-secret."
           " Assertions and request objects delivered inside encrypted wrappers to providers owning decryption keys: open_assertion mirrors JWT.unpack; content that does not open to a JWS is skipped by all three JWS-based methods (C01_unsigned_content_refused), a wrapper adds no authority (C01_wrapper_no_authority, C01_wrapper_methods); model follows repair f092826.",
    "C02": " Front-channel artefacts (AuthorizeRT) and providers without / with partial per-client usage rules are in the configuration space."
           " The remove_inactive_token option is a configuration flag of the model (dropped tokens: t_gone; C02_gone_only_revoked); recorded finding replay-not-revoked:remove-inactive-token.",
    "C03": " Histories under partial per-client usage rules; verified logout with time passing between login and logout.",
    "C04": " The asker of an introspection request only gates whether an answer is given (may_ask); every statement of the answer is the "
           "minting session's for every admitted asker (C04_introspection_asker_independent, C04_introspection_answer_is_owners); "
           "third parties with enforce_audience_restriction off, audience members, client-dependent user data."
           " Handler keys given or library-generated across independently built provider instances (C04_independent_instances_refuse, C04_reencrypted_under_other_instance_refused, C04_other_instance_cannot_forge, C04_history_instances_independent; freshness of generated keys is an explicit hypothesis)."
           " Claims inside JWT-formatted access / refresh tokens are those of the session the provider resolves the string to, over every minting path including exchanges asked for by another client and chains (Model/TokenClaims.v: C04_accepted_jwt_claims_are_of_the_resolved_session, C04_exchange_session_party, C04_claims_from_carried_request_misname); lv_unpack is tied by translation (C04_lv_unpack_is_source).",
    "C05": " Tokens minted by the authorization endpoint itself (AuthorizeRT: response types with token / id_token) carry the grant's "
           "filtered scope (C05_front_channel_bounded), resource indicators never add scopes to a token "
           "(C05_resource_scopes_never_reach_tokens); two recorded findings about scope STATEMENTS of the resource-indicator feature "
           "with refuted witnesses (authz-response-states-resource-scope, token-response-scope-under-resource-policy).",
    "C06": " Redirect URI LISTS through the real registration endpoint: store_list = mapM store1 (C06_registration_is_a_map, "
           "C06_registration_neighbours_irrelevant, C06_registration_order_irrelevant), whatever is served was matched against "
           "the stored form of one URI of the list (C06_registered_served_own); Model/RegFlow.v composes C19's verify_one with the matcher."
           " split_uri is tied by translation (C06_split_uri_is_source).",
    "C07": " Release points are also judged against history-dependent liveness (tokens dead by rotation + code replay, revocation chains)."
           " ID Tokens minted by the authorization endpoint per response type as a fifth release point (C07_authz_idt_alone_bound, C07_authz_idt_other_points_irrelevant, C07_authz_idt_userinfo_config_contributes_nothing)."
           " Multi-valued user attributes under value / values restrictions, judged value by value at the unit level and at the real release points (Model/ClaimsMV.v: C07_released_value_permitted, C07_released_values_within, C07_partial_match_withheld, C07_multi_valued_withheld).",
    "C08": " ID Token SEQUENCES over several sessions: after any history with fresh begins an ID Token accepted for state s - by "
           "authorization, token or refresh response - carries the nonce sent with s (C08_nonce_history, C08_record_nonce_kept, "
           "C08_refresh_service) on the repaired RP model (the record's nonce is never replaced; token / refresh compare with it)."
           " Rounds begun under a RE-USED state through the service API: an ID Token accepted for a state carries the nonce of the LATEST request under it, without any freshness hypothesis (Model/RpReuse.v: C08_nonce_history_reused_states, C08_reuse_invariant).",
    "C09": " Back-channel responses (token, refresh, userinfo, routed) naming another session: the record updated is the one of the "
           "request's state for every response content (C09_backchannel_key, C09_backchannel_recorded, "
           "C09_backchannel_named_state_untouched, C09_refresh_idtoken_bound)."
           " Keys bound by bind_key (subject, sid) presented as states never select a record (C09_history_bound_key_never_a_state, C09_lookup_finds_record_keys_only, C09_history_lookup_unissued).",
    "C11": " Set rules (at most one of / all or none of / X comes with Y) over the FULL presence table of every such rule in the message "
           "classes: has_none_or_one_of transcribed and proved equivalent to count <= 1 for every list, permutation invariant; the CIBA "
           "hint rule's member list regenerated from the source (set_rule_calls in Gen/Schema.v)."
           " The DECLARED schema, evaluated from the class bodies' source by harness/schema_decl.py into Gen/SchemaDecl.v, equals the run-time schema (C11_declared_no_drift, C11_declared_is_runtime, C11_declared_all_evaluated, C11_all_classes_enforce_declared, C11_declared_tie_discriminates); isolation probes per module; repair c809f1f came out of it."
           " Reserved __verified_<claim> members (forged in any wire form, stale from an earlier verification, or carried as a claim of a signed request object) x raw-claim states: after verification the verified copy is what this verification established (Model/MsgVerified.v, 24 theorems); repairs 834e726, e423b54 came out of it. has_none_or_one_of / __contains__ are tied by translation (C11_has_none_or_one_of_is_source).",
    "C13": " Session look-ups through the session id after a restore, cookies across a restore, API revocations / logout on both twins, "
           "id() census of shared objects: sd_dump / sd_load model with C13_restore_loses_sharing, "
           "C13_restore_equivalent_on_branch_keys, C13_lookup_by_session_id_restored and two refuted statements kept visible."
           " Removals after a restore, the cstate state machine of the RP store (C13_rp_store_restored, C13_rp_store_restore_anywhere, C13_rp_store_index_live) and an attribute census of every exported class; recorded finding restore-drops-session-manager-config with its refuted witness."
           " Key families whose converted file names extend each other (dotted, lock-shaped, glob metacharacters, URL-shaped ids), directory contents compared with the model, provider over a file-backed client_db (Model/FileStoreFrame.v: keyed_step_touches_owned, frame_new_instance_related restated as nine C13 theorems).",
    "C15": " The interactive log-in round trip: resume = to_query -> from_query over the real query-string model, extension parameters "
           "survive (C15_resume_extension_parameter_survives), the recorded pair after resume is the request's "
           "(C15_resumed_recorded_is_request_pair), token-endpoint iff over resumed flows; refuted variant for a page written from the "
           "declared parameters only."
           " Extension parameters and the add-on's pre/post hooks never change the verdict (C15_extras_irrelevant, C15_extras_any_two_agree, C15_extras_essential, C15_extras_resumed_irrelevant)."
           " Relying-party verifier-store histories (the request built 1-3 times under one state, OAuth2 and OIDC relying parties, which code is redeemed): the token request sends the latest begin's verifier and the provider accepts the pair (Model/PkceRp.v: C15_rp_latest_begin_sent, C15_rp_latest_pair_accepted, C15_rp_latest_pair_verify_code_challenge).",
    "C16": " Algorithms registered through the real registration endpoint: after an accepted registration of an advertised algorithm the "
           "permitted set is exactly that algorithm (C16_registered_exact, C16_registered_only_requested), a non-advertised one is "
           "dropped and the registration response says so (C16_registered_dropped)."
           " request_param identity from wrapped content follows repair f092826 (C16_request_param_unsigned, C16_request_param_signed); registration steps keep other clients' permitted sets (C16_registration_frame, C16_registration_wf, C16_unregistered_no_effect)."
           " Registration HISTORIES under one id (new jwks / jwks_uri / fewer keys / no key material / refused registrations) and request objects under every generation's material on all transports: only the latest accepted registration's material verifies (Model/JarReg.v: C16_history_latest_material, C16_history_superseded_refused, C16_history_alg_in_force).",
    "C17": " Key SOURCE of a handler (given / generated from a draw supply): independently built handlers with library-generated keys "
           "refuse each other's cookies in every mode (C17_foreign_keys_refused, C17_independent_handlers_refuse under the explicit "
           "hypothesis draws_distinct, tied to the code by chk_fresh on observed key material)."
           " Handlers with a non-default MAC algorithm (sign_alg) are part of the mode space.",
    "C18": " Salt-file life cycle over three provider instances (C18_salt_file_round_trip, "
           "C18_same_configuration_same_subs_on_every_instance)."
           " The content of the authorization request never contributes to the sub (C18_request_irrelevant and its variants per subject type / minter, C18_request_members_irrelevant, C18_request_pairwise_iff_registered_sector); model follows repair c7c9b10.",
    "C19": " The real random supply (secret(), random_client_id, registration tokens) is exercised with the clock standing still; custom "
           "scheme redirect URIs are stored as base + query (model follows repair d77dc7b)."
           " split_uri is tied by translation (C19_split_uri_is_source).",
    "C10": " Histories of round trips in one process (instances edited in place between readings, the same text read again by the same / another class, id() census of shared mutable values): reading is a function of the wire text alone (Model/MsgHistory.v: C10_reading_history_independent, C10_edit_stays_in_its_instance); repair b4426c2 came out of it.",
    "C12": " Sequences of flows of differently configured clients on ONE provider instance, five expiry views per access / refresh token against the configured lifetime (Model/InteropLifetime.v: C12_lifetime_views_agree, C12_lifetime_history_independent, C12_lifetime_precedence).",
    "C14": " lv_unpack tied by translation (C14_lv_unpack_is_source, fuel never exhausted); creation through the six SessionManager entry points with identifier families of normalisation-equivalent spellings (Model/DbCreate.v: C14_make_path_is_verbatim, C14_created_sid_resolves, C14_creation_leaves_other_pairs, C14_normalising_creation_refuted).",
    "C20": " Attribute census of everything reachable from the Server around every request with an explicit, justified list of request-state containers; order experiments against a fresh provider with JWT tokens and clients of differing lifetimes; py2alias covers 63 functions including the token handlers (C20_generated_token_handlers_covered, C20_history_order_independent, C20_root_store_rejected; Model/AliasHist.v).",
}


def main():
    props = [json.loads(l)["id"] for l in open(os.path.join(VERIF, "properties.jsonl"))]
    checks = []
    for pid in props:
        if pid not in CHECKS:
            continue
        tech, text, note, ref = CHECKS[pid]
        text = text + LATER.get(pid, "")
        checks.append({
            "property_id": pid,
            "quick_cmd": "./check %s --tier quick" % pid,
            "thorough_cmd": "./check %s --tier thorough" % pid,
            "evidence_file": "evidence/%s.json" % pid,
            "replay_cmd_template": "./check %s --replay {path}" % pid,
            "engine": "rocq-model+correspondence",
            "level_claimed": {"category": "proof", "text": text, "design_ref": ref},
            "level_note": note,
            "technique": tech,
        })
    man = {
        "version": 1,
        "setup_cmd": "./check --setup",
        "hooks": {
            "guard": "IDPYOIDC_VERIF",
            "enable": "no source hooks: clock control, snapshots and canonicalisation are done from the harness process by monkey-patching; nothing in /repo is guarded",
            "baseline_off_cmd": "cd /repo && /venv/bin/python -m pytest -ra -q -p no:cacheprovider --timeout=900 --continue-on-collection-errors",
            "source_commits": [],
            "add_only": True,
        },
        "engines": [{
            "name": "rocq-model+correspondence", "path": "harness/engine.py",
            "serves_properties": [c["property_id"] for c in checks],
            "kind_free_text": "Coq 8.16.1 development under coq/ (Lib, Model, Proofs, Props) built with coq_makefile (full .vo), "
                              "Print Assumptions captured per property, hygiene scan; Python drivers run the real idpy-oidc code and "
                              "evaluate the Gallina model on the same cases with Eval vm_compute inside coqc; independent property oracle; "
                              "known_findings.txt",
        }],
        "checks": checks,
        "not_applicable": [{"property_id": p, "reason": NOT_YET} for p in props if p not in CHECKS],
        "notes": "All checks share ./check (harness/main.py). Fix commits in /repo are listed in known_findings.txt (fixed: lines).",
    }
    json.dump(man, open(os.path.join(VERIF, "MANIFEST.json"), "w"), indent=1)
    print("MANIFEST.json: %d checks, %d not claimed" % (len(checks), len(man["not_applicable"])))


if __name__ == "__main__":
    main()
