"""Shared helpers of the C10 / C11 drivers (protocol messages): class discovery by introspection,
schema-directed value generation, canonicalisation of real Message objects, Coq case terms and a
case runner that separates model/implementation mismatches from cases the model declares Unmodelled.
"""
import importlib
import json
import pkgutil
import typing
from concurrent.futures import ThreadPoolExecutor

import engine as E
from engine import coq_str, coq_list, coq_bool, coq_z, coq_opt, coq_pyval

KNOWN_UNIMPORTABLE = {"idpyoidc.client.oauth2.add_on.identity_assurance"}


# ------------------------------------------------------------------ discovery
def discover():
    """[(qualified name, class)] for every Message subclass of the package (sorted)."""
    import idpyoidc
    from idpyoidc.message import Message
    for mi in pkgutil.walk_packages(idpyoidc.__path__, "idpyoidc."):
        try:
            importlib.import_module(mi.name)
        except Exception:
            if mi.name not in KNOWN_UNIMPORTABLE:
                raise

    def subs(c, acc):
        for s in c.__subclasses__():
            if s not in acc:
                acc.append(s)
                subs(s, acc)
        return acc
    out = {}
    for c in subs(Message, []):
        if c.__module__.startswith("idpyoidc."):
            out[c.__module__ + "." + c.__qualname__] = c
    return sorted(out.items())


def fname(f):
    return None if f is None else "%s.%s" % (f.__module__, f.__qualname__)


def tname(t):
    from idpyoidc.message import Message
    if isinstance(t, list):
        return "[" + tname(t[0]) + "]" if len(t) == 1 else repr(t)
    if t is typing.Any:
        return "Any"
    if isinstance(t, type) and issubclass(t, Message):
        return "Message" if t is Message else "Message:" + t.__name__
    return getattr(t, "__name__", repr(t))


def kind_sig(ent):
    """short stable name of a parameter kind (type / serializer / deserializer), class-independent"""
    typ, _, ser, deser, null = ent
    return "%s/%s/%s%s" % (tname(typ), (fname(ser) or "-").split(".")[-1], (fname(deser) or "-").split(".")[-1],
                           "/null" if null else "")


M = "idpyoidc.message."
TIER1 = {
    ("str", None, None, False): "str",
    ("int", None, None, False): "int",
    ("bool", None, None, False): "bool",
    ("[str]", M + "list_serializer", M + "list_deserializer", False): "list",
    ("[str]", M + "sp_sep_list_serializer", M + "sp_sep_list_deserializer", False): "spsep",
}


def tier1(ent):
    typ, _, ser, deser, null = ent
    return TIER1.get((tname(typ), fname(ser), fname(deser), null))


def spec_for(cls, key):
    """the c_param entry the code resolves `key` to (exact, language tag), or None for an extra"""
    sp = cls.c_param
    if key in sp:
        return sp[key]
    b = key.split("#")[0]
    if b in sp:
        return sp[b]
    return sp.get("*")


# ------------------------------------------------------------------ canonical form of real values
class NotJson(Exception):
    pass


def canon(v):
    """deep canonical form: Message objects become {"__msg__": class, "d": {...}}; tuples -> lists"""
    from idpyoidc.message import Message
    if isinstance(v, Message):
        return {"__msg__": type(v).__module__ + "." + type(v).__qualname__, "d": {k: canon(x) for k, x in v._dict.items()}}
    if isinstance(v, dict):
        return {k: canon(x) for k, x in v.items()}
    if isinstance(v, (list, tuple)):
        return [canon(x) for x in v]
    return v


def pure_json(v):
    """True when v is in the pyval universe (None/bool/int/str/list/dict with str keys), no floats,
    no objects, all strings encodable (no lone surrogates)"""
    if v is None or isinstance(v, (bool, int)):
        return True
    if isinstance(v, str):
        return all(not (0xD800 <= ord(c) <= 0xDFFF) for c in v)
    if isinstance(v, list):
        return all(pure_json(x) for x in v)
    if isinstance(v, dict):
        return all(isinstance(k, str) and pure_json(k) and pure_json(x) for k, x in v.items())
    return False


def coq_msg(d):
    return coq_list(["(%s, %s)" % (coq_str(k), coq_pyval(v)) for k, v in d.items()], "(pystr * pyval)")


EXC = {"ValueError": "ValueError", "TypeError": "TypeError", "AttributeError": "AttributeError",
       "KeyError": "KeyError", "IndexError": "IndexError",
       "DecodeError": "EDecode", "MissingRequiredAttribute": "EMissingRequired",
       "NotAllowedValue": "ENotAllowed", "TooManyValues": "ETooMany", "FormatError": "EFormat",
       "MissingRequiredValue": "EMissingValue", "MissingAttribute": "EMissingAttribute", "UnsupportedAlgorithm": "EUnsupportedAlg", "InvalidRequest": "EInvalidRequest",
       "VerificationError": "EVerification", "SchemeError": "EScheme", "NotForMe": "ENotForMe",
       "IssuerMismatch": "EIssuerMismatch", "EXPError": "EExp", "IATError": "EIat", "MessageException": "EMessage",
       "AtHashError": "EAtHash", "CHashError": "ECHash", "ParameterError": "EParameter"}


def coq_res(outcome, okf):
    """outcome = ("ok", value) | ("exc", class name)"""
    if outcome[0] == "ok":
        return "(Ok %s)" % okf(outcome[1])
    return "(Err %s)" % EXC[outcome[1]]


def attempt(f):
    try:
        return ("ok", f())
    except Exception as e:   # noqa
        return ("exc", type(e).__name__)


# ------------------------------------------------------------------ schema-directed values
META = ["plain", "a b", "a+b", "a&b=c", "100%", "%41%zz", "x#y", "q\"uo'te", "åäö", "日本語",
        "\U0001f600x", "a/b?c=d&e", " lead", "trail ", "~._-*", "tab\tnl\n", "=", "&", "+", "a;b,c", "\\u00e5 {\"k\": 1}"]
LONG = "L" * 300 + " &=%#"


def str_values(rng, n=None):
    vals = META + [LONG]
    return vals if n is None else rng.sample(vals, min(n, len(vals)))


def int_values():
    return [0, 1, -1, 3600, 2 ** 63 + 5, -10 ** 20]


def list_values(rng, full=True):
    """lists of 0 / 1 / many; elements with and without a space"""
    a = [[], ["one"], ["x", "y", "z"], ["å", "a&b=c", "100%", "q\"'"], ["a+b", "x#y"], ["a", ""], ["", "b"],
         ["tab\tx", "nl\ny"], [LONG.replace(" ", ""), "z"]]
    spaced = [["John Doe"], ["code", "code id_token"], ["a b", "c"], ["x", " y"], [" "], [LONG, "z"]]
    return a, spaced


def plain_value(ent, depth=0):
    """a plain valid value for a parameter entry (used for the required parameters of a base message)"""
    from idpyoidc.message import Message
    typ, _, ser, deser, _ = ent
    elem = typ[0] if isinstance(typ, list) and len(typ) == 1 else typ
    sname = (fname(ser) or "").split(".")[-1]
    if sname in ("time_stamp_ser", "date_ser"):
        v = 1600000000
    elif elem is str:
        v = "v"
    elif elem is int:
        v = 7
    elif elem is bool:
        v = True
    elif elem is dict:
        v = {"k": "v"}
    elif elem is typing.Any:
        v = {"k": "v"}
    elif isinstance(elem, type) and issubclass(elem, Message):
        if deser is None:
            v = "aaa.bbb.ccc"
        elif elem is Message or depth >= 2:
            v = {"k": "v"}
        else:
            v = {k: plain_value(e, depth + 1) for k, e in elem.c_param.items() if e[1]}
            if not v:
                v = {"k": "v"}
    else:
        v = "v"
    return [v] if isinstance(typ, list) else v


def base_kwargs(cls):
    return {k: plain_value(e) for k, e in cls.c_param.items() if e[1] and k != "*"}


# ------------------------------------------------------------------ running model cases
def check_cases(ctx, imports, case_type, checker, modelfn, cases, label, shard=300, max_unmodelled=0.05, prelude=""):
    """cases: [(case term of type `case_type`, input term for `modelfn`, record)].
    `checker : case_type -> bool` compares model and implementation; `modelfn` recomputes the model's
    answer (a `res _`).  A case where they differ AND the model answers Unmodelled is counted as
    unmodelled (skipped); any other difference is a model/implementation mismatch.
    `prelude`: Gallina definitions the case terms refer to by name (a table shared by all cases), written
    in front of every shard."""
    if not cases:
        return
    shards = [cases[i:i + shard] for i in range(0, len(cases), shard)]
    jobs = []
    for sc in shards:
        ctx.shard_seq += 1
        name = "%s_%s_%03d" % (ctx.prop, label, ctx.shard_seq)
        body = ("%sDefinition cases : list (%s) := [\n%s\n].\nEval vm_compute in (bad_indices (%s) cases).\n"
                % (prelude, case_type, ";\n".join(t for t, _, _ in sc), checker))
        jobs.append((name, body, sc))

    def run(job):
        return job, ctx.coq_eval(job[0], imports, job[1])
    with ThreadPoolExecutor(max_workers=min(E.NCPU, max(1, len(jobs)))) as ex:
        results = list(ex.map(run, jobs))
    n_unm = 0
    for (name, body, sc), (rc, out, vals) in results:
        if rc != 0 or not vals:
            ctx.broken.append("correspondence shard %s does not evaluate: %s" % (name, out.strip()[-600:]))
            continue
        try:
            idx = E.parse_nat_list(vals[-1])
        except ValueError as e:
            ctx.broken.append("correspondence shard %s: %s" % (name, e))
            continue
        ctx.traces += len(sc)
        if not idx:
            continue
        # what does the model say on the differing cases?
        dbody = prelude + "".join("Eval vm_compute in (%s (%s)).\n" % (modelfn, sc[i][1]) for i in idx[:40])
        drc, dout, dv = ctx.coq_eval(name + "_diag", imports, dbody)
        answers = dict(zip(idx[:40], dv))
        for i in idx:
            ans = answers.get(i, "?")
            if ans.strip().startswith("Unmodelled"):
                n_unm += 1
                ctx.unmodelled += 1
                ctx.count("unmodelled:" + label)
            else:
                ctx.mismatch("model and implementation disagree (%s, %s[%d])" % (label, name, i), sc[i][2],
                             model=ans[:1500])
    if n_unm > max_unmodelled * len(cases) + 3:
        ctx.broken.append("%s: the model declares %d of %d cases of its own fragment Unmodelled" % (label, n_unm, len(cases)))
