"""py2alias — fail-closed Python-ast -> alias-IR translator for property C20.

Called by the engine on every run as `python py2alias.py <outdir>` with PYTHONPATH at the repository source:
it re-reads the CURRENT source of every function in TARGETS and writes coq/Gen/AliasGen.v, a list of
`gflow` records (Model/AliasTie.v): one instruction list over Model/Alias.instr per control-flow path.
Props/C20.v then re-checks `forallb check generated flows = true` (and the return contracts, and the agreement
with the hand-written flows of Model/AliasFlows.v) against what the code says NOW.

Fail closed, and only for C20: a construct outside the subset, an unknown callee that is handed a possibly
shared object, a target that has disappeared, or a crash of this script all end up as entries of
`gen_refused` in AliasGen.v (theorem C20_generated_translation_complete : gen_refused = [] stops compiling).
Nothing is printed with the engine's `BROKEN-TRANSLATION:` prefix and the exit code is 0, so that the checks of
the other properties (which regenerate coq/Gen under the same lock) are not affected.

Translation scheme (trusted):
  * one flow per path: `if`/`elif`/`else`, conditional expressions, `a or b` used as a value and `x.get(k, <reg>)`
    split the path; `for` = zero / one iteration, and a further one when the first changed what the checker knows at
    the loop head (taint flag, typing of the values the body reads first), the loop variable read out of the iterated
    object; `try` = the body may be left before any of its statements; `while` = like `for`, the test evaluated before every iteration; no with / finally.
    Paths that are implied by another one are dropped: `check` is prefix-closed and monotone in typing and taint
    (Proofs/Alias_proofs.v: check_prefix_closed, check_from_mono), see `subsumed`, `prune`, `prune_prefixes`.
  * every value is an atom (certainly immutable: literals, f-strings, comparisons, parameters declared atoms)
    or lives in a fresh register (single assignment per path).  Unknown parameters are registers that no
    instruction defines: the checker types them S and C20_no_static_write holds for every initial register file.
  * static roots (ILoadRoot): `self` of handlers / endpoints, `upstream_get(...)`, module-level mutable constants,
    mutable default arguments, class-level tables (c_param ...).  Objects created by the function: INew /
    IDeepCopy / INew+IUpdate (shallow copies).  Session state (grants, tokens, the session manager): INew, but what
    is read out of it is S unless DYN_FRESH_ATTRS says the session object owns that attribute.  **kwargs and results
    that are "new but may hold shared objects" are opaque: INew, and whatever is read out of them is S.
  * calls: METHODS / FUNCTIONS / ASSUMED_CALLEES (curated) say what a callee returns and what it writes; a translated
    callee's return contract is re-checked on its own generated flows (g_ret_fresh / g_ret_deep) and the parameters it
    writes (computed from its flows) are written at the call site.  An unknown callee that receives an S-typed
    object is refused.
"""
import ast
import builtins
import importlib
import inspect
import json
import os
import re
import sys
import textwrap
import time
import traceback
import types

WRITE_OPS = ("ISet", "ISetAtom", "IUpdate", "IDel")
MAX_PATHS = 1500          # per function; beyond that the function is refused
ATOM = ("atom",)


class Refuse(Exception):
    pass


def Rg(r):
    return ("reg", r)


def Tup(items):
    return ("tup", tuple(items))


# ------------------------------------------------------------------------------------------ tables
# attribute names that are class-level tables on whatever object they are read from
CLASS_ATTRS = {"c_param", "c_default", "c_allowed_values", "c_aliases", "_supports", "default_capabilities",
               "parameter", "special_load_dump", "_callback_path", "_callback_uris"}
# attributes that are always immutable values (str / int / bool / None / function / class)
ATOM_ATTRS = {"issuer", "token_class", "sub", "session_id", "value", "id", "name", "tag", "endpoint_name",
              "response_format", "response_placement", "response_content_type", "request_format", "expires_at",
              "issued_at", "not_before", "used", "revoked", "token_type", "based_on", "error_cls", "response_cls",
              "request_cls", "fragment", "hostname", "path", "port", "query", "scheme", "netloc", "__class__",
              "__name__", "endpoint_path", "userinfo", "expires_in", "max_usage", "login_hint_lookup",
              "token_args_methods_done"}
# reading these attributes of a static root gives a named static root
ATTR_ROOTS = {
    ("context", "cdb"): "cdb", ("context", "provider_info"): "provider_info",
    ("context", "session_manager"): "dyn:SessionManager", ("context", "claims_interface"): "claims_interface",
    ("context", "scopes_handler"): "scopes_handler", ("context", "authz"): "authz",
    ("context", "token_args_methods"): "token_args_methods", ("context", "client_authn_methods"): "client_authn_methods",
    ("authz", "grant_config"): "grant_config", ("authz", "kwargs"): "authz_kwargs",
    ("endpoint", "kwargs"): "ep_kwargs", ("endpoint", "config"): "ep_config",
    ("endpoint", "resource_indicators_config"): "ep_kwargs",
    ("endpoint", "token_revocation_kwargs"): "ep_kwargs",
    ("helper", "endpoint"): "endpoint", ("helper", "config"): "ep_config",
    ("claims_module", "kwargs"): "claims_kwargs",
    ("scopes_handler", "allowed_scopes"): "scopes_allowed", ("scopes_handler", "_scopes_to_claims"): "scopes_map",
    ("session_manager", "token_handler"): "token_handler",
}
# upstream_get(<args>) -> root
UPSTREAM = {("context",): "context", ("endpoint_context",): "context", ("attribute", "cdb"): "cdb",
            ("attribute", "keyjar"): "keyjar", ("unit",): "unit", ("attribute", "issuer"): None,
            ("endpoint", "userinfo"): "claims_module", ("endpoint", "introspection"): "claims_module"}
# attributes of session objects that the session object owns (never a static object): where that is established
DYN_FRESH_ATTRS = {
    ("SessionToken", "usage_rules"): "Grant.mint_token passes grant.usage_rules[token_class]; grant.usage_rules is the "
                                     "result of AuthzHandling.usage_rules (contract fresh+deep, re-checked)",
    ("Grant", "usage_rules"): "AuthzHandling.__call__ assigns the result of self.usage_rules(client_id) (contract re-checked)",
    ("Grant", "issued_token"): "Grant.__init__: issued_token or []",
    ("Grant", "extra"): "Grant.__init__: extra or {} (a per-grant dictionary of the session)",
    ("SessionToken.usage_rules", "supports_minting"): "created by AuthorizationCode / RefreshToken.set_defaults, or part of the "
                                                      "deep copy made by AuthzHandling.usage_rules",
}
# names of session_info fields
SESSION_INFO = {"grant": ("dyn", "Grant"), "client_id": "atom", "user_id": "atom", "grant_id": "atom",
                "branch_id": "atom", "session_id": "atom", "user": ("dyn", "Node"), "client": ("dyn", "Node"),
                "client_session_info": ("dyn", "Node"), "user_session_info": ("dyn", "Node")}


def C(ret="atom", writes=(), stores=(), updates=()):
    return {"ret": ret, "writes": tuple(writes), "stores": tuple(stores), "updates": tuple(updates)}


# container / string methods, by method name (receiver = "recv")
METHODS = {
    "get": "GET", "items": C("view:recv"), "keys": C("atomlist"), "values": C("view:recv"),
    "copy": C("shallow:recv"), "append": C(stores=[("recv", "arg0")]), "add": C(stores=[("recv", "arg0")]),
    "insert": C(stores=[("recv", "arg1")]), "extend": C(updates=[("recv", "arg0")]),
    "update": C(updates=[("recv", "arg0")]), "setdefault": "SETDEFAULT", "pop": C("part:recv", writes=["recv"]),
    "popitem": C("part:recv", writes=["recv"]), "remove": C(writes=["recv"]), "discard": C(writes=["recv"]),
    "clear": C(writes=["recv"]), "sort": C(writes=["recv"]), "reverse": C(writes=["recv"]),
    "index": C(), "count": C(), "union": C("shallow2"), "intersection": C("shallow2"), "difference": C("shallow2"),
    "issubset": C(), "issuperset": C(), "isdisjoint": C(), "symmetric_difference": C("shallow2"),
    # str
    "split": C("fresh"), "rsplit": C("fresh"), "splitlines": C("fresh"), "join": C(), "format": C(), "strip": C(),
    "lstrip": C(), "rstrip": C(), "lower": C(), "upper": C(), "startswith": C(), "endswith": C(), "encode": C(),
    "decode": C(), "replace": C(), "find": C(), "isdigit": C(), "partition": C(), "title": C(),
    # urllib ParseResult
    "_replace": C(), "geturl": C(),
    # logging
    "debug": C(), "info": C(), "warning": C(), "error": C(), "exception": C(), "critical": C(),
    # library methods that only read their receiver / arguments
    "is_active": C(), "is_usable": C(), "supports_minting": C(), "max_usage_reached": C(), "is_revoked": C(),
    "add_acr_value": C(), "to_json": C(), "to_urlencoded": C(), "to_dict": C("fresh"), "to_jwt": C(),
    "request": C(), "pack": C(), "hexdigest": C(), "digest": C(), "serialize": C(),
    "find_scope": C("unknown"), "get_token": C("dyn:SessionToken"), "find_token": C("dyn:SessionToken"),
    "last_issued_token_of_type": C("dyn:SessionToken"), "get_grant": C("dyn:Grant"),
    "get_session_info": C("session_info"), "get_session_info_by_token": C("session_info"),
    "unpack_branch_key": C("fresh"), "unpack_session_key": C("fresh"), "branch_info": C("session_info"),
    "revoke": C(writes=["recv"]), "set_expires_at": C(writes=["recv"]),
    "get_metadata_claim": C("unknown"), "get_preference": C("unknown"), "get_usage": C("unknown"),
    "get_set": C("fresh"), "get_base": C("unknown"),
    # the encrypter held by a DefaultToken handler / the session manager: bytes in, bytes out
    "encrypt": C(), "decrypt": C(),
}
# functions, by (resolved) name
FUNCTIONS = {
    "dict": "COPY", "list": "COPY", "set": "COPY", "sorted": "COPY", "frozenset": "COPY", "tuple": "COPY",
    "reversed": "COPY",
    "copy.deepcopy": "DEEPCOPY", "copy.copy": "COPY",
    "len": C(), "isinstance": C(), "issubclass": C(), "str": C(), "int": C(), "bool": C(), "float": C(), "repr": C(),
    "any": C(), "all": C(), "ord": C(), "chr": C(), "hasattr": C(), "callable": C(), "id": C(), "type": C(), "hash": C(),
    "min": C("part:arg0"), "max": C("part:arg0"), "sum": C(), "abs": C(), "print": C(), "range": C("atomlist"),
    "zip": "ZIP", "enumerate": "ENUM", "getattr": "GETATTR", "setattr": "SETATTR", "iter": C("alias:arg0"),
    "next": C("part:arg0"),
    "json.dumps": C(), "json.loads": C("fresh"),
    "urllib.parse.urlparse": C(), "urllib.parse.unquote": C(), "urllib.parse.quote": C(), "urllib.parse.quote_plus": C(),
    "urllib.parse.urlencode": C(), "urllib.parse.parse_qs": C("fresh"), "urllib.parse.urlsplit": C(),
    "urllib.parse.urlunsplit": C(), "urllib.parse.unquote_plus": C(),
    "datetime.datetime.fromtimestamp": C(), "datetime.fromtimestamp": C(), "cryptojwt.utils.importer": C(), "uuid.uuid1": C(), "uuid.uuid4": C(),
    "idpyoidc.util.importer": C(), "idpyoidc.util.rndstr": C(), "idpyoidc.time_util.utc_time_sans_frac": C(), "cryptojwt.jwt.utc_time_sans_frac": C(),
    "idpyoidc.time_util.time_sans_frac": C(), "cryptojwt.utils.as_bytes": C(), "cryptojwt.utils.as_unicode": C(),
    "idpyoidc.server.oauth2.authorization.join_query": C(), "idpyoidc.server.oauth2.authorization.is_http_uri": C(),
    "idpyoidc.server.oauth2.authorization.is_localhost_uri": C(),
    "idpyoidc.server.oauth2.authorization.remove_port_from_uri": C(),
    "idpyoidc.server.oauth2.authorization.fragment_encoding": C(), "idpyoidc.server.endpoint.fragment_encoding": C(),
    "idpyoidc.server.session.claims.claims_match": C(),
    "idpyoidc.server.client_authn.valid_client_secret": C(),
    "idpyoidc.server.util.allow_refresh_token": C(),
    "idpyoidc.util.split_uri": C("fresh"),
    "idpyoidc.server.token.is_expired": C(), "idpyoidc.server.util.lv_pack": C(), "idpyoidc.server.util.lv_unpack": C("fresh"),
    "base64.b64encode": C(), "base64.b64decode": C(), "cryptojwt.jws.utils.left_hash": C(),
    "cryptojwt.jws.jws.factory": C("fresh"),
}

# ------------------------------------------------------------------------------------------ targets
# provenance of parameters: "atom" | "fresh" | "fresh_atoms" (a new container of immutable values) | "atoms"
# (a possibly shared container of immutable values) | "dyn:<Class>" (session state) | "root:<name>" | "unknown"
# | "kwargs" (the new **kwargs dict; contents unknown) | "kwargs_fresh" (the new dict; contents made by this request)
# contract = what the function promises about its result: None | "fresh" | "deep" | ("tuple", c0, c1)
def T(name, spec, params=None, contract=None, self_root=None, self_dyn=None, local_callees=None, exempt=(),
      iterations=2):
    return {"name": name, "spec": spec, "params": params or {}, "contract": contract, "self_root": self_root,
            "self_dyn": self_dyn, "local_callees": local_callees or {}, "exempt": tuple(exempt), "iterations": iterations}


POLICY_FN = C("unknown", writes=["arg0"])      # policy callables: may change the (new) request, read the rest
TARGETS = [
    # -- the functions the hand-written flows of Model/AliasFlows.v transcribe
    T("find_token", "idpyoidc.client.client_auth:find_token", {"request": "fresh", "token_type": "atom", "service": "root:service", "kwargs": "kwargs"}),
    T("find_token_info", "idpyoidc.client.client_auth:find_token_info", {"request": "fresh", "token_type": "atom", "service": "root:service", "kwargs": "kwargs"}),
    T("AuthzHandling.usage_rules", "idpyoidc.server.authz:AuthzHandling.usage_rules", {"client_id": "atom"},
      contract="deep", self_root="authz"),
    T("AuthzHandling.usage_rules_for", "idpyoidc.server.authz:AuthzHandling.usage_rules_for",
      {"client_id": "atom", "token_type": "atom"}, contract="deep", self_root="authz"),
    T("AuthzHandling.__call__", "idpyoidc.server.authz:AuthzHandling.__call__",
      {"session_id": "atom", "request": "fresh", "resources": "fresh_atoms"}, self_root="authz"),
    T("AuthorizationCode.set_defaults", "idpyoidc.server.session.token:AuthorizationCode.set_defaults", self_dyn="SessionToken"),
    T("RefreshToken.set_defaults", "idpyoidc.server.session.token:RefreshToken.set_defaults", self_dyn="SessionToken"),
    T("Grant.__init__", "idpyoidc.server.session.grant:Grant.__init__",
      {"sub": "atom", "issued_at": "atom", "expires_in": "atom", "expires_at": "atom", "revoked": "atom",
       "remember_token": "atom", "remove_inactive_token": "atom"}, self_dyn="Grant"),
    T("Authorization._enforce_resource_indicators_policy",
      "idpyoidc.server.oauth2.authorization:Authorization._enforce_resource_indicators_policy",
      {"request": "fresh"}, self_root="endpoint", local_callees={"fn": POLICY_FN}),
    T("AccessTokenHelper._enforce_resource_indicators_policy",
      "idpyoidc.server.oauth2.token_helper.access_token:AccessTokenHelper._enforce_resource_indicators_policy",
      {"request": "fresh"}, self_root="helper", local_callees={"fn": POLICY_FN}),
    T("authorization.validate_resource_indicators_policy",
      "idpyoidc.server.oauth2.authorization:validate_resource_indicators_policy",
      {"request": "fresh", "context": "root:context", "kwargs": "kwargs"}),
    T("token_helper.validate_resource_indicators_policy",
      "idpyoidc.server.oauth2.token_helper:validate_resource_indicators_policy",
      {"request": "fresh", "context": "root:context", "kwargs": "kwargs"}),
    T("ClaimsInterface._client_claims", "idpyoidc.server.session.claims:ClaimsInterface._client_claims",
      {"client_id": "atom", "module": "root:claims_module", "claims_release_point": "atom", "secondary_identifier": "atom"},
      contract=("tuple", None, "fresh"), self_root="claims_interface"),
    T("ClaimsInterface.get_claims_from_request", "idpyoidc.server.session.claims:ClaimsInterface.get_claims_from_request",
      {"claims_release_point": "atom", "client_id": "atom", "secondary_identifier": "atom", "scopes": "atoms"},
      contract="fresh", self_root="claims_interface"),
    T("ClaimsInterface.get_claims", "idpyoidc.server.session.claims:ClaimsInterface.get_claims",
      {"session_id": "atom", "claims_release_point": "atom", "secondary_identifier": "atom", "scopes": "atoms"},
      contract="fresh", self_root="claims_interface"),
    T("ClaimsInterface.authorization_request_claims", "idpyoidc.server.session.claims:ClaimsInterface.authorization_request_claims",
      {"claims_release_point": "atom"}, self_root="claims_interface"),
    T("ClaimsInterface._get_module", "idpyoidc.server.session.claims:ClaimsInterface._get_module",
      {"usage": "atom", "context": "root:context"}, self_root="claims_interface"),
    T("ClaimsInterface.get_user_claims", "idpyoidc.server.session.claims:ClaimsInterface.get_user_claims",
      {"user_id": "atom", "client_id": "atom"}, contract="fresh", self_root="claims_interface",
      local_callees={"meth": C("unknown")}),
    T("UserInfo.process_request", "idpyoidc.server.oidc.userinfo:UserInfo.process_request",
      {"request": "fresh", "kwargs": "kwargs"}, self_root="endpoint"),
    T("UserInfo._enforce_policy", "idpyoidc.server.oidc.userinfo:UserInfo._enforce_policy",
      {"request": "fresh", "response_info": "fresh", "token": "dyn:SessionToken"}, self_root="endpoint",
      local_callees={"fn": C("unknown", writes=["arg2"])}),
    T("TokenRevocation.process_request", "idpyoidc.server.oauth2.token_revocation:TokenRevocation.process_request",
      {"request": "fresh", "kwargs": "kwargs"}, self_root="endpoint"),
    T("TokenRevocation._revoke", "idpyoidc.server.oauth2.token_revocation:TokenRevocation._revoke",
      {"request": "fresh", "session_info": "session_info"}, self_root="endpoint",
      local_callees={"fn": C("unknown", writes=["arg0"])}),
    T("Endpoint.do_response", "idpyoidc.server.endpoint:Endpoint.do_response",
      {"response_args": "fresh", "request": "fresh", "error": "atom", "kwargs": "kwargs_fresh"}, self_root="endpoint"),
    T("set_content_type", "idpyoidc.server.endpoint:set_content_type", {"content_type": "atom"},
      contract="param_or_fresh:headers"),
    # -- further functions that take a stored client record, provider_info, endpoint kwargs or a class table
    T("Session.do_back_channel_logout", "idpyoidc.server.oidc.session:Session.do_back_channel_logout",
      {"cinfo": "root:client_record", "sid": "atom"}, self_root="endpoint"),
    T("do_front_channel_logout_iframe", "idpyoidc.server.oidc.session:do_front_channel_logout_iframe",
      {"cinfo": "root:client_record", "iss": "atom", "sid": "atom"}),
    T("Scopes.get_allowed_scopes", "idpyoidc.server.scopes:Scopes.get_allowed_scopes", {"client_id": "atom"}, self_root="scopes_handler"),
    T("Scopes.filter_scopes", "idpyoidc.server.scopes:Scopes.filter_scopes", {"client_id": "atom", "scopes": "atoms"},
      contract="deep", self_root="scopes_handler"),
    T("Scopes.get_scopes_mapping", "idpyoidc.server.scopes:Scopes.get_scopes_mapping", {"client_id": "atom"}, self_root="scopes_handler"),
    T("Scopes.scopes_to_claims", "idpyoidc.server.scopes:Scopes.scopes_to_claims", {"client_id": "atom", "scopes": "atoms"},
      contract="fresh", self_root="scopes_handler"),
    T("convert_scopes2claims", "idpyoidc.server.scopes:convert_scopes2claims", {"scopes": "atoms"}, contract="fresh"),
    T("verify_client", "idpyoidc.server.client_authn:verify_client",
      {"request": "fresh", "http_info": "fresh", "get_client_id_from_token": "atom", "endpoint": "root:endpoint",
       "also_known_as": "atoms", "kwargs": "kwargs"},
      local_callees={"_get_client_info": C("unknown")}, exempt=("['auth_method']", "_auto_reg.set("), iterations=1),
    T("Authorization.verify_response_type", "idpyoidc.server.oauth2.authorization:Authorization.verify_response_type",
      {"request": "fresh", "cinfo": "root:client_record"}, self_root="endpoint"),
    T("get_uri", "idpyoidc.server.oauth2.authorization:get_uri",
      {"context": "root:context", "request": "fresh", "uri_type": "atom", "endpoint_type": "atom"}),
    T("verify_uri", "idpyoidc.server.oauth2.authorization:verify_uri",
      {"context": "root:context", "request": "fresh", "uri_type": "atom", "client_id": "atom", "endpoint_type": "atom"}),
    T("Introspection._introspect", "idpyoidc.server.oauth2.introspection:Introspection._introspect",
      {"token": "dyn:SessionToken", "client_id": "atom", "grant": "dyn:Grant"}, contract="fresh", self_root="endpoint",
      local_callees={"meth": C("unknown")}),
    T("Introspection.process_request", "idpyoidc.server.oauth2.introspection:Introspection.process_request",
      {"request": "fresh", "release": "atoms", "kwargs": "kwargs"}, self_root="endpoint"),
    T("oidc.AccessTokenHelper.process_request", "idpyoidc.server.oidc.token_helper.access_token:AccessTokenHelper.process_request",
      {"req": "fresh", "kwargs": "kwargs"}, self_root="helper"),
    T("TokenEndpointHelper._mint_token", "idpyoidc.server.oauth2.token_helper:TokenEndpointHelper._mint_token",
      {"token_class": "atom", "grant": "dyn:Grant", "session_id": "atom", "client_id": "atom", "based_on": "dyn:SessionToken",
       "scope": "atoms", "token_args": "fresh", "token_type": "atom"}, self_root="helper", local_callees={"meth": C("unknown")}),
    T("Grant.mint_token", "idpyoidc.server.session.grant:Grant.mint_token",
      {"session_id": "atom", "context": "root:context", "token_class": "atom", "token_handler": "atom", "based_on": "dyn:SessionToken",
       "scope": "atoms", "token_type": "atom", "expires_in": "atom", "not_before": "atom", "claims": "atoms", "kwargs": "kwargs"},
      self_dyn="Grant", local_callees={"_class": C("dyn:SessionToken"), "token_handler": C()}, iterations=1),
    T("Registration.match_claim", "idpyoidc.server.oidc.registration:Registration.match_claim", {"claim": "atom"}, self_root="endpoint"),
    T("Registration.filter_client_request", "idpyoidc.server.oidc.registration:Registration.filter_client_request",
      {"request": "fresh"}, contract="fresh", self_root="endpoint"),
    T("Session.logout_all_clients", "idpyoidc.server.oidc.session:Session.logout_all_clients", {"sid": "atom"}, self_root="endpoint"),
    T("oauth2.AccessTokenHelper.process_request", "idpyoidc.server.oauth2.token_helper.access_token:AccessTokenHelper.process_request",
      {"req": "fresh", "kwargs": "kwargs"}, self_root="helper"),
    T("RefreshTokenHelper.process_request", "idpyoidc.server.oauth2.token_helper.refresh_token:RefreshTokenHelper.process_request",
      {"req": "fresh", "kwargs": "kwargs"}, self_root="helper"),
    T("ProviderConfiguration.process_request", "idpyoidc.server.oidc.provider_config:ProviderConfiguration.process_request",
      {"request": "fresh", "kwargs": "kwargs"}, self_root="endpoint"),
    # -- the long-lived token handlers (session_manager.token_handler.handler[...]): what minting / reading a token does to
    #    the handler object itself (`self` is a static root: an attribute stored on it outlives the request)
    T("JWTToken.load_custom_claims", "idpyoidc.server.token.jwt_token:JWTToken.load_custom_claims", {"payload": "fresh"},
      contract="param_or_fresh:payload", self_root="token_handler_obj"),
    T("JWTToken.__call__", "idpyoidc.server.token.jwt_token:JWTToken.__call__",
      {"session_id": "atom", "token_class": "atom", "usage_rules": "unknown", "profile": "atom", "with_jti": "atom",
       "payload": "kwargs"}, self_root="token_handler_obj", local_callees={"profile": C("holds")}),
    T("JWTToken.get_payload", "idpyoidc.server.token.jwt_token:JWTToken.get_payload", {"token": "atom"},
      contract="fresh", self_root="token_handler_obj"),
    T("JWTToken.info", "idpyoidc.server.token.jwt_token:JWTToken.info", {"token": "atom"},
      contract="fresh", self_root="token_handler_obj"),
    T("JWTToken.is_expired", "idpyoidc.server.token.jwt_token:JWTToken.is_expired", {"token": "atom", "when": "atom"},
      self_root="token_handler_obj"),
    T("DefaultToken.__call__", "idpyoidc.server.token:DefaultToken.__call__",
      {"session_id": "atom", "token_class": "atom", "payload": "kwargs"}, self_root="token_handler_obj"),
    T("DefaultToken.split_token", "idpyoidc.server.token:DefaultToken.split_token", {"token": "atom"},
      contract="fresh", self_root="token_handler_obj"),
    T("DefaultToken.info", "idpyoidc.server.token:DefaultToken.info", {"token": "atom"},
      contract="fresh", self_root="token_handler_obj"),
    T("DefaultToken.is_expired", "idpyoidc.server.token:DefaultToken.is_expired", {"token": "atom", "when": "atom"},
      self_root="token_handler_obj"),
    T("IDToken.__call__", "idpyoidc.server.token.id_token:IDToken.__call__",
      {"session_id": "atom", "ttype": "atom", "encrypt": "atom", "code": "atom", "access_token": "atom", "usage_rules": "unknown",
       "kwargs": "kwargs"}, self_root="token_handler_obj"),
    T("IDToken.sign_encrypt", "idpyoidc.server.token.id_token:IDToken.sign_encrypt",
      {"session_id": "atom", "client_id": "atom", "code": "atom", "access_token": "atom", "sign": "atom", "encrypt": "atom",
       "lifetime": "atom", "extra_claims": "fresh", "user_info": "fresh"}, self_root="token_handler_obj"),
    T("IDToken.payload", "idpyoidc.server.token.id_token:IDToken.payload",
      {"session_id": "atom", "alg": "atom", "code": "atom", "access_token": "atom", "extra_claims": "fresh", "user_info": "fresh"},
      contract="fresh", self_root="token_handler_obj"),
    T("IDToken.info", "idpyoidc.server.token.id_token:IDToken.info", {"token": "atom"}, contract="fresh",
      self_root="token_handler_obj"),
    T("get_sign_and_encrypt_algorithms", "idpyoidc.server.token.id_token:get_sign_and_encrypt_algorithms",
      {"context": "root:context", "client_info": "root:client_record", "payload_type": "atom", "sign": "atom", "encrypt": "atom"},
      contract="fresh"),
    T("include_session_id", "idpyoidc.server.token.id_token:include_session_id",
      {"context": "root:context", "client_id": "atom", "where": "atom"}),
    T("TokenHandler.get_handler", "idpyoidc.server.token.handler:TokenHandler.get_handler", {"token": "atom", "order": "atoms"},
      self_root="token_handler"),
    T("TokenHandler.info", "idpyoidc.server.token.handler:TokenHandler.info", {"item": "atom", "order": "atoms"},
      self_root="token_handler"),
]
# translated functions as callees of other translated functions (method / function name -> target name):
# what the caller assumes about the result is the target's contract, which is re-checked on the target's flows
TRANSLATED_CALLEES = {
    "usage_rules": "AuthzHandling.usage_rules", "_client_claims": "ClaimsInterface._client_claims",
    "get_claims_from_request": "ClaimsInterface.get_claims_from_request", "get_claims": "ClaimsInterface.get_claims",
    "authorization_request_claims": "ClaimsInterface.authorization_request_claims",
    "_get_module": "ClaimsInterface._get_module", "get_user_claims": "ClaimsInterface.get_user_claims",
    "get_allowed_scopes": "Scopes.get_allowed_scopes", "filter_scopes": "Scopes.filter_scopes",
    "get_scopes_mapping": "Scopes.get_scopes_mapping", "scopes_to_claims": "Scopes.scopes_to_claims",
    "convert_scopes2claims": "convert_scopes2claims", "set_content_type": "set_content_type",
    "verify_uri": "verify_uri", "_enforce_policy": "UserInfo._enforce_policy", "_revoke": "TokenRevocation._revoke",
    "do_back_channel_logout": "Session.do_back_channel_logout",
    "do_front_channel_logout_iframe": "do_front_channel_logout_iframe",
    "match_claim": "Registration.match_claim", "_introspect": "Introspection._introspect",
    "_enforce_resource_indicators_policy": "Authorization._enforce_resource_indicators_policy",
    "load_custom_claims": "JWTToken.load_custom_claims", "get_payload": "JWTToken.get_payload",
    "split_token": "DefaultToken.split_token", "sign_encrypt": "IDToken.sign_encrypt",
    "get_sign_and_encrypt_algorithms": "get_sign_and_encrypt_algorithms", "include_session_id": "include_session_id",
    "get_handler": "TokenHandler.get_handler",
    # (by method name: cryptojwt's JWS.payload() is treated like IDToken.payload - a new object of unknown contents)
    "payload": "IDToken.payload",
}
# candidates that were tried and are NOT translated (reported in the evidence)
NOT_TRANSLATED = [
    ("Authorization._post_parse_request", "refused: it calls further endpoint methods that are not in the callee table with the "
     "(shared) context (filter_request, authentication_error_response, allowed_request_algorithms, ...); the resource-indicator "
     "helper it ends in is translated"),
    ("Authorization.pick_authn_method", "refused: authn_broker.pick(acr) is not in the callee table"),
    ("Registration.do_client_registration / client_registration_setup", "refused: verify_redirect_uris, _verify_sector_identifier, "
     "add_registration_api ... are not in the callee table; these functions CREATE the client record (writing cdb is their purpose); "
     "Registration.match_claim and filter_client_request, which read provider_info, are translated"),
]
# library methods that are not translated; each entry is an assumption listed in the evidence
ASSUMED_CALLEES = {
    "get_claims_all_usage": C("fresh"), "get_claims_all_usage_from_request": C("fresh"),
    "response_info": C("unknown"), "construct": C("unknown"),
    "verify": C("fresh"), "set": C(writes=["recv"]),
    "clean_sessions": C(), "payload_arguments": C("fresh"),
    "_get_session_info": C("tuple:session_info,atom"), "mint_token": C("dyn:SessionToken", writes=["recv"]),
    "_mint_token": C("dyn:SessionToken", writes=["kw:grant"]), "register_usage": C(writes=["recv"]), "weed": C(writes=["recv"]),
    "allowed_request_algorithms": C(),
    # token handlers: the handler's `profile` attribute is a Message class (a new message holding the keyword arguments);
    # cryptojwt's JWT.unpack returns a new message per call; decrypt_session_id returns a new list of strings
    "profile": C("holds"), "unpack": C("fresh"), "decrypt_session_id": C("fresh"),
}


# ------------------------------------------------------------------------------------------ numbering
class Names:
    """keys and roots numbered by name, stable within one run (sorted at emission)."""

    def __init__(self):
        self.keys, self.roots = {}, {}

    def key(self, name):
        name = re.sub(r"[^A-Za-z0-9_]", "_", name)[:40] or "empty"
        return self.keys.setdefault(name, len(self.keys))

    def root(self, name):
        name = re.sub(r"[^A-Za-z0-9_]", "_", name)[:50]
        return self.roots.setdefault(name, len(self.roots))


# ------------------------------------------------------------------------------------------ path state
class St:
    __slots__ = ("ins", "env", "ty", "taint", "n", "attrs", "root", "dyn", "fields", "atoms", "ret", "done", "notes", "h", "hs", "opaque")

    def __init__(self):
        self.ins = []        # (op, a, b, c, lineno)
        self.env = {}        # local name -> abstract value
        self.ty = {}         # register -> "F" | "S"   (mirror of Model/Alias.check; diagnostics and call policy only)
        self.taint = False
        self.n = 0
        self.attrs = {}      # (register, attribute) -> abstract value last assigned on this path
        self.root = {}       # register -> name of the static root it holds
        self.dyn = {}        # register -> class of the session object it holds
        self.fields = {}     # register -> "session_info"
        self.atoms = set()   # registers holding containers of immutable values
        self.opaque = set()  # new objects whose contents are unknown: what is read out of them is typed S
        self.ret = None
        self.done = None     # None | "return" | "raise" | "break" | "continue"
        self.notes = []
        self.h = 0           # running hash of ins (signatures are confirmed by comparing ins)
        self.hs = []         # the running hash after every instruction

    def clone(self):
        s = St()
        s.h = self.h
        s.hs = list(self.hs)
        s.ins = list(self.ins)
        s.env = dict(self.env)
        s.ty = dict(self.ty)
        s.taint, s.n = self.taint, self.n
        s.attrs = dict(self.attrs)
        s.root = dict(self.root)
        s.dyn = dict(self.dyn)
        s.fields = dict(self.fields)
        s.atoms = set(self.atoms)
        s.opaque = set(self.opaque)
        s.ret, s.done = self.ret, self.done
        s.notes = list(self.notes)
        return s

    def sig(self):
        return (self.h, len(self.ins), tuple(sorted(self.env.items(), key=lambda kv: kv[0])), self.done,
                self.ret, tuple(sorted(self.attrs.items())))

    def fresh(self):
        self.n += 1
        return self.n

    def tyof(self, av):
        if av[0] == "reg":
            return self.ty.get(av[1], "S")
        return "F"


OPS = {"ILoadRoot": 1, "IGet": 2, "INew": 3, "IDeepCopy": 4, "ISet": 5, "ISetAtom": 6, "IUpdate": 7, "IDel": 8}


def same_ins(a, b):
    return len(a) == len(b) and all(x[:4] == y[:4] for x, y in zip(a, b))


def subsumed(b, a):
    """state b is implied by state a: a has executed b's instructions and then some more, and everything b's
    continuation can name is bound to the same registers in a.  (Registers are single-assignment per path, `check`
    is prefix-closed and monotone in the taint flag: if a's path is accepted, so is b's.)"""
    n = len(b.ins)
    if n > len(a.ins) or b.done != a.done or b.ret != a.ret:
        return False
    if n and a.hs[n - 1] != b.h:
        return False
    for k, v in b.env.items():
        if a.env.get(k) != v:
            return False
    for k, v in b.attrs.items():
        if a.attrs.get(k) != v:
            return False
    return all(x[:4] == y[:4] for x, y in zip(b.ins, a.ins))


def dedupe(states):
    if len(states) < 2:
        return states
    order = sorted(range(len(states)), key=lambda i: (-len(states[i].ins), -len(states[i].env), i))
    lengths = sorted({len(s.ins) for s in states})
    index = {}
    kept = []
    for i in order:
        s = states[i]
        n = len(s.ins)
        cands = index.get((n, s.h if n else 0), ())
        if any(subsumed(s, a) for a in cands):
            continue
        kept.append(i)
        for L in lengths:
            if L > n:
                break
            index.setdefault((L, s.hs[L - 1] if L else 0), []).append(s)
    return [states[i] for i in sorted(kept)]


# ------------------------------------------------------------------------------------------ the translator
class Tr:
    def __init__(self, target, func, names, contracts):
        self.t, self.func, self.names, self.contracts = target, func, names, contracts
        self.globals = getattr(func, "__globals__", {})
        self.cls = None
        self.finished = []
        self.used_callees = set()
        self.lineno = 0
        self.src_lines = []
        self.nsplit = 0

    # ---- emission (mirrors check_from's typing)
    def emit(self, st, op, a, b=0, c=0):
        st.ins.append((op, a, b, c, self.lineno))
        st.h = hash((st.h, OPS[op], a, b, c))
        st.hs.append(st.h)
        src = c if op == "ISet" else b if op == "IUpdate" else None
        if src in st.opaque and a not in st.opaque:
            # an object of unknown contents becomes reachable from another object: that one may now hold shared references
            self.emit(st, "ISet", a, self.names.key("contents"), st.fresh())
        if op == "ILoadRoot":
            st.ty[a] = "S"
        elif op == "IGet":
            st.ty[a] = "F" if st.ty.get(b, "S") == "F" and not st.taint else "S"
        elif op in ("INew", "IDeepCopy"):
            st.ty[a] = "F"
        elif op == "ISet":
            if st.ty.get(c, "S") != "F":
                st.taint = True
        elif op == "IUpdate":
            if st.ty.get(b, "S") != "F":
                st.taint = True

    def new(self, st):
        r = st.fresh()
        self.emit(st, "INew", r)
        return Rg(r)

    def load_root(self, st, name):
        r = st.fresh()
        self.emit(st, "ILoadRoot", r, self.names.root(name))
        st.root[r] = name
        return Rg(r)

    def unknown(self, st):
        """a register no instruction defines: typed S by the checker, arbitrary in the semantics"""
        return Rg(st.fresh())

    def refs(self, av):
        if av[0] == "reg":
            return [av[1]]
        if av[0] == "tup":
            return [r for x in av[1] for r in self.refs(x)]
        return []

    def store(self, st, target, keyname, av):
        """target[key] = av"""
        k = self.names.key(keyname)
        rs = self.refs(av)
        if not rs:
            self.emit(st, "ISetAtom", target, k, 0)
        for r in rs:
            self.emit(st, "ISet", target, k, r)

    def get(self, st, base, keyname):
        """base[key] / base.key as a new register"""
        if base[0] != "reg":
            return ATOM
        b = base[1]
        if b in st.atoms:
            return ATOM
        if b in st.opaque:
            return self.unknown(st)      # anything may be in there: a register no instruction defines is typed S
        r = st.fresh()
        self.emit(st, "IGet", r, b, self.names.key(keyname))
        return Rg(r)

    def shallow(self, st, srcs):
        out = self.new(st)
        for s in srcs:
            for r in self.refs(s):
                if r in st.atoms:
                    continue
                self.emit(st, "IUpdate", out[1], r)
        if srcs and all(s[0] == "reg" and s[1] in st.atoms for s in srcs):
            st.atoms.add(out[1])
        return out

    # ---- provenance of a parameter
    def bind_param(self, st, name, prov, default_mutable):
        if default_mutable:
            # a mutable default argument is one object shared by every call
            st.env[name] = self.load_root(st, "default_%s_%s" % (self.t["name"], name))
            return
        if prov == "atom":
            st.env[name] = ATOM
        elif prov == "fresh":
            st.env[name] = self.new(st)
        elif prov == "fresh_atoms":
            v = self.new(st)
            st.atoms.add(v[1])
            st.env[name] = v
        elif prov == "atoms":
            v = self.unknown(st)
            st.atoms.add(v[1])
            st.env[name] = v
        elif prov == "kwargs_fresh":
            st.env[name] = self.new(st)
        elif prov == "kwargs":
            v = self.new(st)             # the ** dict itself is new; what the caller put in it is unknown
            st.opaque.add(v[1])
            st.env[name] = v
        elif prov == "session_info":
            v = self.new(st)
            st.fields[v[1]] = "session_info"
            st.env[name] = v
        elif prov.startswith("dyn:"):
            v = self.new(st)
            st.dyn[v[1]] = prov[4:]
            st.env[name] = v
        elif prov.startswith("root:"):
            st.env[name] = self.load_root(st, prov[5:])
        elif prov == "unknown":
            st.env[name] = self.unknown(st)
        else:
            raise Refuse("unknown provenance %r for parameter %s" % (prov, name))

    # ---- resolution of global names
    def resolve(self, node):
        """a Name / dotted Attribute that denotes a module-level object -> (True, object) else (False, None)"""
        if isinstance(node, ast.Name):
            if node.id in self.globals:
                return True, self.globals[node.id]
            if hasattr(builtins, node.id):
                return True, getattr(builtins, node.id)
            return False, None
        if isinstance(node, ast.Attribute):
            ok, base = self.resolve(node.value)
            if ok and isinstance(base, (types.ModuleType, type)) and hasattr(base, node.attr):
                return True, getattr(base, node.attr)
        return False, None

    @staticmethod
    def qualname(obj):
        mod = getattr(obj, "__module__", None)
        qn = getattr(obj, "__qualname__", getattr(obj, "__name__", None))
        if isinstance(obj, types.ModuleType):
            return obj.__name__
        if mod in (None, "builtins"):
            return qn
        return "%s.%s" % (mod, qn)

    def global_value(self, st, name, obj):
        if isinstance(obj, (list, dict, set, bytearray)):
            return self.load_root(st, "const_" + name)
        return ATOM          # str, int, tuple, frozenset, None, function, class, module, logger ...

    # ---- expressions: every evaluation returns a list of (state, abstract value)
    def ev(self, st, e):
        self.lineno = getattr(e, "lineno", self.lineno)
        m = getattr(self, "ev_" + type(e).__name__, None)
        if m is None:
            raise Refuse("expression %s (line %d)" % (type(e).__name__, self.lineno))
        return m(st, e)

    def ev_list(self, st, exprs):
        """evaluate several expressions left to right -> list of (state, [values])"""
        outs = [(st, [])]
        for e in exprs:
            nxt = []
            for s, vs in outs:
                for s2, v in self.ev(s, e):
                    nxt.append((s2, vs + [v]))
            outs = nxt
        return outs

    def ev_Constant(self, st, e):
        return [(st, ATOM)]

    def ev_JoinedStr(self, st, e):
        outs = self.ev_list(st, [v.value for v in e.values if isinstance(v, ast.FormattedValue)])
        return [(s, ATOM) for s, _ in outs]

    def ev_Name(self, st, e):
        if e.id in st.env:
            return [(st, st.env[e.id])]
        ok, obj = self.resolve(e)
        if ok:
            return [(st, self.global_value(st, e.id, obj))]
        raise Refuse("free name %s (line %d)" % (e.id, e.lineno))

    def ev_Attribute(self, st, e):
        ok, obj = self.resolve(e)
        if ok:
            return [(st, self.global_value(st, self.qualname(obj) or e.attr, obj))]
        res = []
        for s, base in self.ev(st, e.value):
            res.append((s, self.attr_of(s, base, e.attr)))
        return res

    def attr_of(self, s, base, attr):
        if base[0] != "reg":
            return ATOM
        b = base[1]
        if (b, attr) in s.attrs:
            return s.attrs[(b, attr)]
        if attr in ATOM_ATTRS:
            return ATOM
        if attr in CLASS_ATTRS:
            return self.load_root(s, "class_" + attr)
        if b in s.root and (s.root[b], attr) in ATTR_ROOTS:
            name = ATTR_ROOTS[(s.root[b], attr)]
            if name.startswith("dyn:"):          # the session manager / database: session state, not configuration
                d = self.new(s)
                s.dyn[d[1]] = name[4:]
                return d
            return self.load_root(s, name)
        if b in s.dyn:
            return self.dyn_part(s, b, attr)
        return self.get(s, base, attr)

    def dyn_part(self, s, b, key):
        """an attribute / item of a session object: a session object itself when DYN_FRESH_ATTRS says the session
        object owns it, otherwise possibly a static object (grant.scope may BE grant_config['scope'])"""
        if (s.dyn[b], key) in DYN_FRESH_ATTRS:
            d = self.new(s)
            s.dyn[d[1]] = "%s.%s" % (s.dyn[b], key)
            s.attrs[(b, key)] = d
            return d
        return self.load_root(s, "session_state")

    def keyname(self, k):
        if isinstance(k, ast.Constant):
            return str(k.value)
        try:
            return "dyn_" + ast.unparse(k)
        except Exception:
            return "dyn"

    def ev_Subscript(self, st, e):
        res = []
        for s, base in self.ev(st, e.value):
            if isinstance(e.slice, ast.Slice):
                for part in (e.slice.lower, e.slice.upper, e.slice.step):
                    if part is not None and not isinstance(part, (ast.Constant, ast.Name, ast.UnaryOp)):
                        raise Refuse("slice bound (line %d)" % e.lineno)
                res.append((s, self.shallow(s, [base]) if base[0] == "reg" else ATOM))
                continue
            for s2, _ in self.ev(s, e.slice):
                res.append((s2, self.item_of(s2, base, e.slice)))
        return res

    def item_of(self, s, base, knode):
        if base[0] == "tup" and isinstance(knode, ast.Constant) and isinstance(knode.value, int) and knode.value < len(base[1]):
            return base[1][knode.value]
        if base[0] != "reg":
            return ATOM
        b = base[1]
        if s.fields.get(b) == "session_info" and isinstance(knode, ast.Constant):
            spec = SESSION_INFO.get(knode.value)
            if spec == "atom":
                return ATOM
            if spec:
                if (b, str(knode.value)) in s.attrs:
                    return s.attrs[(b, str(knode.value))]
                v = self.new(s)                       # the grant / node of the session database: a session object
                s.dyn[v[1]] = spec[1]
                s.attrs[(b, str(knode.value))] = v
                return v
        if b in s.dyn:
            if isinstance(knode, ast.Constant) and (b, str(knode.value)) in s.attrs:
                return s.attrs[(b, str(knode.value))]
            return self.dyn_part(s, b, str(knode.value) if isinstance(knode, ast.Constant) else self.keyname(knode))
        return self.get(s, base, self.keyname(knode))

    def ev_Compare(self, st, e):
        return [(s, ATOM) for s, _ in self.ev_list(st, [e.left] + list(e.comparators))]

    def ev_UnaryOp(self, st, e):
        return [(s, ATOM) for s, _ in self.ev(st, e.operand)]

    def ev_BinOp(self, st, e):
        res = []
        for s, (l, r) in self.ev_list(st, [e.left, e.right]):
            if l[0] == "atom" and r[0] == "atom":
                res.append((s, ATOM))
            elif isinstance(e.op, (ast.Add, ast.BitOr, ast.BitAnd, ast.Sub)):
                res.append((s, self.shallow(s, [l, r])))     # list + list, set | set, dict | dict: a new container
            elif isinstance(e.op, ast.Mod):
                res.append((s, ATOM))                        # "..." % args
            else:
                raise Refuse("binary operator %s on containers (line %d)" % (type(e.op).__name__, e.lineno))
        return res

    def ev_BoolOp(self, st, e):
        # value of `a or b` / `a and b`: any operand can be the result; one outcome per operand
        res, cur, n = [], [st], len(e.values)
        for i, v in enumerate(e.values):
            nxt = []
            for s in cur:
                for s2, av in self.ev(s, v):
                    if i < n - 1:
                        res.append((s2.clone(), av))
                        nxt.append(s2)
                    else:
                        res.append((s2, av))
            cur = nxt
        return self.prune(res)

    def prune(self, res):
        """outcomes of a value-level split (a or b, a if c else b, x.get(k, d)).  The checker is monotone in the
        typing (F below S) and in the taint flag, and the outcomes continue with the same statements: when one of
        them is a possibly shared object, the outcomes that are new objects or immutable values are accepted
        whenever that one is, so they are dropped."""
        shared = [(s, av) for s, av in res if av[0] == "reg" and s.ty.get(av[1], "S") != "F" and av[1] not in s.atoms]
        if shared:
            res = shared
        out, seen = [], set()
        for s, av in res:
            k = (s.sig(), av)
            if k not in seen:
                seen.add(k)
                out.append((s, av))
        return out

    def test(self, st, e):
        """a condition: evaluated for its effects only -> list of states"""
        if isinstance(e, ast.BoolOp):
            cur = [st]
            for v in e.values:
                cur = [s2 for s in cur for s2 in self.test(s, v)]
            return dedupe(cur)
        if isinstance(e, ast.UnaryOp) and isinstance(e.op, ast.Not):
            return self.test(st, e.operand)
        return dedupe([s for s, _ in self.ev(st, e)])

    def ev_IfExp(self, st, e):
        res = []
        for s, _ in self.ev(st, e.test):
            res.extend(self.ev(s.clone(), e.body))
            res.extend(self.ev(s, e.orelse))
        return self.prune(res)

    def ev_Dict(self, st, e):
        res = []
        vals = [v for v in e.values]
        keys = [k for k in e.keys if k is not None]
        for s, _ in self.ev_list(st, keys):
            for s2, vs in self.ev_list(s, vals):
                d = self.new(s2)
                for k, v in zip(e.keys, vs):
                    if k is None:                          # {**x}
                        for r in self.refs(v):
                            self.emit(s2, "IUpdate", d[1], r)
                    elif self.refs(v):
                        self.store(s2, d[1], self.keyname(k), v)
                res.append((s2, d))
        return res

    def seq(self, st, elts):
        res = []
        plain = [x.value if isinstance(x, ast.Starred) else x for x in elts]
        for s, vs in self.ev_list(st, plain):
            d = self.new(s)
            allatoms = True
            for x, v in zip(elts, vs):
                if isinstance(x, ast.Starred):
                    for r in self.refs(v):
                        if r not in s.atoms:
                            allatoms = False
                            self.emit(s, "IUpdate", d[1], r)
                elif self.refs(v):
                    allatoms = False
                    self.store(s, d[1], "elem", v)
            if allatoms:
                s.atoms.add(d[1])
            res.append((s, d))
        return res

    def ev_List(self, st, e):
        return self.seq(st, e.elts)

    def ev_Set(self, st, e):
        return self.seq(st, e.elts)

    def ev_Tuple(self, st, e):
        if any(isinstance(x, ast.Starred) for x in e.elts):
            return self.seq(st, e.elts)
        return [(s, Tup(vs) if any(self.refs(v) for v in vs) else ATOM) for s, vs in self.ev_list(st, e.elts)]

    def ev_Starred(self, st, e):
        return self.ev(st, e.value)

    def ev_Lambda(self, st, e):
        raise Refuse("lambda (line %d)" % e.lineno)

    # ---- iteration: what one element of an iterable is
    def elem_of(self, st, it):
        """-> list of (state, value of the loop target)"""
        if isinstance(it, ast.Call):
            f = it.func
            if isinstance(f, ast.Attribute) and f.attr in ("items", "values", "keys") and not it.args:
                res = []
                for s, base in self.ev(st, f.value):
                    if f.attr == "keys":
                        res.append((s, ATOM))
                    else:
                        v = self.get(s, base, "item") if base[0] == "reg" else ATOM
                        res.append((s, Tup([ATOM, v]) if f.attr == "items" else v))
                return res
            if isinstance(f, ast.Name) and f.id not in st.env:
                if f.id == "enumerate" and it.args:
                    return [(s, Tup([ATOM, v])) for s, v in self.elem_of(st, it.args[0])]
                if f.id == "range":
                    return [(s, ATOM) for s, _ in self.ev_list(st, it.args)]
                if f.id in ("sorted", "list", "set", "reversed", "tuple", "iter", "frozenset") and len(it.args) >= 1:
                    return self.elem_of(st, it.args[0])
                if f.id == "zip":
                    outs = [(st, [])]
                    for a in it.args:
                        outs = [(s2, vs + [v]) for s, vs in outs for s2, v in self.elem_of(s, a)]
                    return [(s, Tup(vs)) for s, vs in outs]
        if isinstance(it, (ast.List, ast.Tuple)) and all(isinstance(x, ast.Constant) for x in it.elts):
            return [(st, ATOM)]
        if isinstance(it, (ast.GeneratorExp, ast.ListComp)) and len(it.generators) == 1 and not it.generators[0].is_async:
            # for x in (f(y) for y in ys): one element is f(one element of ys)
            g = it.generators[0]
            res = []
            for s, v in self.elem_of(st, g.iter):
                saved = dict(s.env)
                for s2 in self.bind(s, g.target, v):
                    cur = [s2]
                    for c in g.ifs:
                        cur = [s4 for s3 in cur for s4 in self.test(s3, c)]
                    for s3 in cur:
                        for s4, ev in self.ev(s3, it.elt):
                            for n in {n.id for n in ast.walk(g.target) if isinstance(n, ast.Name)}:
                                if n in saved:
                                    s4.env[n] = saved[n]
                                else:
                                    s4.env.pop(n, None)
                            res.append((s4, ev))
            return res
        if isinstance(it, (ast.List, ast.Tuple)) and len(it.elts) == 1:
            return self.ev(st, it.elts[0])
        res = []
        for s, base in self.ev(st, it):
            if base[0] == "tup":
                for x in base[1]:
                    res.append((s.clone(), x))
            else:
                res.append((s, self.get(s, base, "elem")))
        return res

    def bind(self, s, target, av):
        """assignment of an abstract value to a Name / Tuple / Subscript / Attribute target -> list of states"""
        self.lineno = getattr(target, "lineno", self.lineno)
        if isinstance(target, ast.Name):
            s.env[target.id] = av
            return [s]
        if isinstance(target, (ast.Tuple, ast.List)):
            if av[0] == "tup" and len(av[1]) == len(target.elts):
                parts = list(av[1])
            elif av[0] == "atom":
                parts = [ATOM] * len(target.elts)
            else:
                parts = [self.get(s, av, "elem") for _ in target.elts]
            outs = [s]
            for t, p in zip(target.elts, parts):
                outs = [s3 for s2 in outs for s3 in self.bind(s2, t, p)]
            return outs
        if isinstance(target, ast.Subscript):
            outs = []
            for s2, base in self.ev(s, target.value):
                for s3, _ in self.ev(s2, target.slice) if not isinstance(target.slice, ast.Slice) else [(s2, None)]:
                    self.write_item(s3, base, self.keyname(target.slice), av, target)
                    outs.append(s3)
            return outs
        if isinstance(target, ast.Attribute):
            outs = []
            for s2, base in self.ev(s, target.value):
                self.write_item(s2, base, target.attr, av, target)
                if base[0] == "reg":
                    s2.attrs[(base[1], target.attr)] = av
                outs.append(s2)
            return outs
        raise Refuse("assignment target %s (line %d)" % (type(target).__name__, self.lineno))

    def exempted(self, node):
        if not self.t["exempt"]:
            return False
        txt = ast.unparse(node)
        return any(k in txt for k in self.t["exempt"])

    def write_item(self, s, base, keyname, av, node):
        if base[0] != "reg":
            raise PathDead()         # a store into None / a string / a number: Python raises TypeError here
        if self.exempted(node):
            s.notes.append("exempted write (line %d): %s" % (self.first_line + self.lineno - 1, ast.unparse(node)))
            return
        self.store(s, base[1], keyname, av)

    # ---- comprehensions: a new container, one abstract iteration
    def comp(self, st, e, elts):
        saved = None
        outs = [st]
        for g in e.generators:
            if g.is_async:
                raise Refuse("async comprehension")
            nxt = []
            for s in outs:
                if saved is None:
                    saved = dict(s.env)
                for s2, v in self.elem_of(s, g.iter):
                    for s3 in self.bind(s2, g.target, v):
                        s4s = [s3]
                        for c in g.ifs:
                            s4s = [s5 for s4 in s4s for s5, _ in self.ev(s4, c)]
                        nxt.extend(s4s)
            outs = nxt
        res = []
        for s in outs:
            for s2, vs in self.ev_list(s, elts):
                d = self.new(s2)
                stored = False
                for v in vs[-1:] if len(elts) == 2 else vs:      # dict comprehension: only the value is stored
                    if self.refs(v):
                        stored = True
                        self.store(s2, d[1], "elem", v)
                if not stored:
                    s2.atoms.add(d[1])
                bound = set()
                for g in e.generators:
                    bound |= {n.id for n in ast.walk(g.target) if isinstance(n, ast.Name)}
                for n in bound:
                    if saved is not None and n in saved:
                        s2.env[n] = saved[n]
                    else:
                        s2.env.pop(n, None)
                res.append((s2, d))
        return res

    def ev_ListComp(self, st, e):
        return self.comp(st, e, [e.elt])

    ev_SetComp = ev_ListComp
    ev_GeneratorExp = ev_ListComp

    def ev_DictComp(self, st, e):
        return self.comp(st, e, [e.key, e.value])

    # ---- calls
    FRESH_LITERAL = (ast.Dict, ast.List, ast.Set, ast.ListComp, ast.DictComp, ast.SetComp)

    def is_fresh_literal(self, node):
        if isinstance(node, self.FRESH_LITERAL):
            return True
        return (isinstance(node, ast.Call) and isinstance(node.func, ast.Name) and node.func.id in ("dict", "list", "set")
                and not node.args and not node.keywords)

    def ev_Call(self, st, e):
        self.lineno = e.lineno
        f = e.func
        # -- special forms that must look at the argument syntax
        if isinstance(f, ast.Attribute) and f.attr == "upstream_get":
            consts = tuple(a.value for a in e.args if isinstance(a, ast.Constant))
            if len(consts) != len(e.args) or e.keywords:
                raise Refuse("upstream_get with computed arguments (line %d)" % e.lineno)
            outs = []
            for s, _ in self.ev(st, f.value):
                name = UPSTREAM.get(consts, "upstream_" + "_".join(map(str, consts)))
                outs.append((s, ATOM if name is None else self.load_root(s, name)))
            return outs
        if isinstance(f, ast.Attribute) and f.attr == "get" and 1 <= len(e.args) <= 2 and not e.keywords:
            ok, _ = self.resolve(f)
            if not ok:
                return self.call_get(st, f.value, e.args)
        if isinstance(f, ast.Name) and f.id == "getattr" and f.id not in st.env and 2 <= len(e.args) <= 3:
            return self.call_getattr(st, e)
        # -- who is called
        recv_node, spec, label = None, None, None
        if isinstance(f, ast.Name) and f.id in self.t["local_callees"]:
            spec, label = self.t["local_callees"][f.id], "local callable " + f.id
        else:
            ok, obj = self.resolve(f)
            if ok and not (isinstance(f, ast.Name) and f.id in st.env):
                label = self.qualname(obj) or ast.unparse(f)
                short = getattr(obj, "__name__", "")
                if label in FUNCTIONS:
                    spec = FUNCTIONS[label]
                elif short in TRANSLATED_CALLEES and inspect.isfunction(obj):
                    spec = self.contract_spec(TRANSLATED_CALLEES[short])
                elif isinstance(obj, type):
                    spec = C("holds")
                elif inspect.isfunction(obj) and short == "__init__":
                    spec = C(stores=[("arg0", "rest")])
                elif short in FUNCTIONS and getattr(builtins, short, None) is obj:
                    spec = FUNCTIONS[short]
            elif isinstance(f, ast.Attribute):
                recv_node, m = f.value, f.attr
                label = "method ." + m
                if m.endswith("_cls"):
                    spec, recv_node = C("holds"), f.value
                elif m in TRANSLATED_CALLEES:
                    spec = self.contract_spec(TRANSLATED_CALLEES[m])
                elif m in METHODS:
                    spec = METHODS[m]
                elif m in ASSUMED_CALLEES:
                    spec = ASSUMED_CALLEES[m]
            else:
                label = "callable " + ast.unparse(f)
        # -- evaluate receiver and arguments
        nodes = ([recv_node] if recv_node is not None else []) + [a.value if isinstance(a, ast.Starred) else a for a in e.args] \
            + [k.value for k in e.keywords]
        if recv_node is None and not (isinstance(f, ast.Name) or self.resolve(f)[0]):
            nodes = [f] + nodes          # a computed callee, e.g. x[k](...)
            drop = 1
        else:
            drop = 0
        outs = []
        for s, vs in self.ev_list(st, nodes):
            vs = vs[drop:]
            recv = vs[0] if recv_node is not None else None
            rest = vs[1:] if recv_node is not None else vs
            args = rest[:len(e.args)]
            kw = {(k.arg or "**%d" % i): v for i, (k, v) in enumerate(zip(e.keywords, rest[len(e.args):]))}
            outs.extend(self.apply(s, spec, label, recv, args, kw, e))
        return outs

    def contract_spec(self, tname):
        self.used_callees.add(tname)
        t = self.contracts[tname]
        return {"ret": ("contract", t["contract"]), "writes": (), "stores": (), "updates": (), "callee": t}

    def call_get(self, st, recv_node, args):
        outs = []
        for s, recv in self.ev(st, recv_node):
            for s1, _ in self.ev(s, args[0]):
                if len(args) == 1 or self.is_fresh_literal(args[1]):
                    outs.append((s1, self.item_of(s1, recv, args[0])))
                    continue
                for s2, d in self.ev(s1, args[1]):
                    if d[0] == "atom":
                        outs.append((s2, self.item_of(s2, recv, args[0])))
                    else:
                        outs.append((s2.clone(), d))
                        outs.append((s2, self.item_of(s2, recv, args[0])))
        return self.prune(outs)

    def call_getattr(self, st, e):
        outs = []
        name = e.args[1]
        for s, base in self.ev(st, e.args[0]):
            def one(s1):
                if isinstance(name, ast.Constant) and isinstance(name.value, str):
                    return self.attr_of(s1, base, name.value)
                return self.get(s1, base, "dyn_attr")
            if len(e.args) == 2 or self.is_fresh_literal(e.args[2]):
                outs.append((s, one(s)))
                continue
            for s2, d in self.ev(s, e.args[2]):
                if d[0] != "atom":
                    outs.append((s2.clone(), d))
                outs.append((s2, one(s2)))
        return self.prune(outs)

    def apply(self, s, spec, label, recv, args, kw, node):
        self.lineno = node.lineno            # the effects of a call are reported at the line of the call
        allv = ([recv] if recv is not None else []) + list(args) + list(kw.values())

        def src(name):
            if name == "recv":
                return [recv] if recv is not None else []
            if name == "args":
                return list(args) + list(kw.values())
            if name == "rest":
                return list(args[1:]) + list(kw.values())
            if name.startswith("arg"):
                i = int(name[3:])
                return [args[i]] if i < len(args) else []
            if name.startswith("kw:"):
                return [kw[name[3:]]] if name[3:] in kw else []
            raise Refuse("bad callee table source %r" % name)

        if spec is None:
            # unknown callee: refused when it is handed a possibly shared object
            shared = [r for v in allv for r in self.refs(v) if s.ty.get(r, "S") != "F" and r not in s.atoms]
            if shared:
                raise Refuse("call of %s, which is not in the callee table, with a possibly shared argument: %s (line %d)"
                             % (label, ast.unparse(node)[:90], self.lineno))
            unk = self.unknown(s)
            for v in allv:
                for r in self.refs(v):
                    if r not in s.atoms:
                        self.emit(s, "ISet", r, self.names.key("unknown_call"), unk[1])   # it may store anything in them
            s.notes.append("unknown callee %s on new objects only (line %d)" % (label, self.first_line + self.lineno - 1))
            return [(s, self.unknown(s))]
        if spec == "COPY":
            if not args:
                d = self.new(s)
                for v in kw.values():
                    if self.refs(v):
                        self.store(s, d[1], "kw", v)
                if not any(self.refs(v) for v in kw.values()):
                    s.atoms.add(d[1])
                return [(s, d)]
            if args[0][0] == "atom":
                d = self.new(s)
                s.atoms.add(d[1])
                return [(s, d)]
            d = self.shallow(s, [args[0]])
            for v in kw.values():
                if self.refs(v):
                    self.store(s, d[1], "kw", v)
            return [(s, d)]
        if spec == "DEEPCOPY":
            if not args or args[0][0] != "reg":
                return [(s, ATOM)] if args and args[0][0] == "atom" else [(s, self.shallow(s, []))]
            r = s.fresh()
            self.emit(s, "IDeepCopy", r, args[0][1])
            return [(s, Rg(r))]
        if spec in ("ZIP", "ENUM"):
            return [(s, self.shallow(s, list(args)))]
        if spec == "SETATTR":
            if len(args) != 3:
                raise Refuse("setattr arity (line %d)" % self.lineno)
            self.write_item(s, args[0], self.keyname(node.args[1]), args[2], node)
            return [(s, ATOM)]
        if spec == "SETDEFAULT":
            if recv is None or recv[0] != "reg" or not args:
                raise Refuse("setdefault on a non-object (line %d)" % self.lineno)
            v = args[1] if len(args) > 1 else ATOM
            self.write_item(s, recv, self.keyname(node.args[0]), v, node)      # x.setdefault(k, v) writes x ...
            return [(s, self.get(s, recv, self.keyname(node.args[0])))]        # ... and reads it
        if spec in ("GET", "GETATTR"):
            raise Refuse("%s with unusual arguments (line %d)" % (label, self.lineno))
        # generic specification
        for w in spec["writes"]:
            for v in src(w):
                if v[0] == "reg":
                    self.write_item(s, v, "written_by_" + label.split(".")[-1], ATOM, node)
                elif v[0] == "atom" and w == "recv":
                    pass
        for dst, sr in spec["stores"]:
            for d in src(dst):
                for v in src(sr):
                    if d[0] == "reg":
                        self.write_item(s, d, "elem", v, node)
                    elif self.refs(v):
                        raise Refuse("store into a non-object (line %d)" % self.lineno)
        for dst, sr in spec["updates"]:
            for d in src(dst):
                if d[0] != "reg":
                    continue
                if self.exempted(node):
                    continue
                did = False
                for v in src(sr):
                    for r in self.refs(v):
                        if r in s.atoms:
                            continue
                        did = True
                        self.emit(s, "IUpdate", d[1], r)
                if not did:
                    self.emit(s, "ISetAtom", d[1], self.names.key("elem"), 0)
        callee = spec.get("callee")
        if callee:
            # what a translated callee may write must be a new object here
            pnames = callee["pnames"]
            bound = dict(zip(pnames, args))
            bound.update({k: v for k, v in kw.items() if not k.startswith("**")})
            for p in callee["writes"]:
                v = bound.get(p)
                if v is not None and v[0] == "reg":
                    self.write_item(s, v, "written_by_" + callee["name"].split(".")[-1], ATOM, node)
        ret = spec["ret"]
        if isinstance(ret, tuple) and ret[0] == "contract" and isinstance(ret[1], str) and ret[1].startswith("param_or_fresh:"):
            # the callee hands back the object it was given, or a new one that may share its entries
            v = bound.get(ret[1].split(":")[1])
            if v is None or v[0] != "reg":
                return [(s, self.shallow(s, []))]
            s2 = s.clone()
            return [(s, v), (s2, self.shallow(s2, [v]))]
        return [(s, self.ret_value(s, ret, recv, args, kw, src))]

    def ret_value(self, s, ret, recv, args, kw, src):
        if isinstance(ret, tuple) and ret[0] == "contract":
            return self.contract_value(s, ret[1])
        if ret == "atom":
            return ATOM
        if ret == "fresh":
            return self.new(s)
        if ret == "atomlist":
            d = self.new(s)
            s.atoms.add(d[1])
            return d
        if ret == "holds":
            d = self.new(s)
            for k, v in list(enumerate(args)) + list(kw.items()):
                if isinstance(k, str) and k.startswith("**"):
                    for r in self.refs(v):
                        self.emit(s, "IUpdate", d[1], r)
                elif self.refs(v):
                    self.store(s, d[1], str(k), v)
            return d
        if ret == "unknown":
            return self.unknown(s)
        if ret == "session_info":
            d = self.new(s)
            s.fields[d[1]] = "session_info"
            return d
        if isinstance(ret, str) and ret.startswith("tuple:"):
            return Tup([self.ret_value(s, x, recv, args, kw, src) for x in ret[6:].split(",")])
        if ret == "shallow2":
            return self.shallow(s, ([recv] if recv is not None else []) + list(args))
        kind, _, arg = ret.partition(":")
        if kind == "dyn":
            d = self.new(s)
            s.dyn[d[1]] = arg
            return d
        if kind == "root":
            return self.load_root(s, arg)
        vs = src(arg)
        v = vs[0] if vs else ATOM
        if kind in ("alias", "view"):
            return v
        if kind == "part":
            return self.get(s, v, "part") if v[0] == "reg" else ATOM
        if kind == "shallow":
            return self.shallow(s, [v]) if v[0] == "reg" else self.shallow(s, [])
        raise Refuse("bad callee table result %r" % (ret,))

    def contract_value(self, s, c):
        if c is None:
            return self.unknown(s)
        if c == "deep":
            return self.new(s)
        if c == "fresh" or (isinstance(c, str) and c.startswith("param_or_fresh:")):
            d = self.new(s)            # a new object that may hold shared ones
            s.opaque.add(d[1])
            return d
        if isinstance(c, tuple) and c[0] == "tuple":
            return Tup([self.contract_value(s, x) for x in c[1:]])
        raise Refuse("bad contract %r" % (c,))

    # ---- statements
    def block(self, states, stmts, sink):
        for stmt in stmts:
            nxt = []
            for s in states:
                if s.done:
                    nxt.append(s)
                    continue
                nxt.extend(self.stmt(s, stmt, sink))
            live = []
            for x in dedupe(nxt):
                if x.done == "return" or (x.done == "raise" and sink is None):
                    self.finished.append(x)        # nothing after it runs (no try/finally in the subset)
                else:
                    live.append(x)
            states = live
            if len(states) + len(self.finished) > MAX_PATHS:
                raise Refuse("more than %d paths (line %d)" % (MAX_PATHS, getattr(stmt, "lineno", 0)))
        return states

    def stmt(self, s, node, sink):
        self.lineno = getattr(node, "lineno", self.lineno)
        simple = isinstance(node, (ast.Assign, ast.AnnAssign, ast.AugAssign, ast.Expr, ast.Return, ast.Delete, ast.Raise,
                                   ast.Assert))
        if simple and sink is not None:
            sink.append(s.clone())            # the statement may raise before it has any effect
        m = getattr(self, "st_" + type(node).__name__, None)
        if m is None:
            raise Refuse("statement %s (line %d)" % (type(node).__name__, self.lineno))
        try:
            return m(s, node, sink)
        except PathDead:
            s.done = "raise"
            return [s]

    def st_Pass(self, s, node, sink):
        return [s]

    def st_Expr(self, s, node, sink):
        if isinstance(node.value, ast.Constant):
            return [s]
        return [s2 for s2, _ in self.ev(s, node.value)]

    def st_Assert(self, s, node, sink):
        return self.test(s, node.test)

    def st_Import(self, s, node, sink):
        raise Refuse("import inside a function (line %d)" % node.lineno)

    st_ImportFrom = st_Import

    def st_Assign(self, s, node, sink):
        outs = []
        for s2, av in self.ev(s, node.value):
            cur = [s2]
            for t in node.targets:
                cur = [s4 for s3 in cur for s4 in self.bind(s3, t, av)]
            outs.extend(cur)
        return outs

    def st_AnnAssign(self, s, node, sink):
        if node.value is None:
            return [s]
        return [s3 for s2, av in self.ev(s, node.value) for s3 in self.bind(s2, node.target, av)]

    def st_AugAssign(self, s, node, sink):
        outs = []
        for s2, av in self.ev(s, node.value):
            if isinstance(node.target, ast.Name):
                cur = s2.env.get(node.target.id)
                if cur is None:
                    raise PathDead()
                if cur[0] == "reg" and cur[1] not in s2.atoms or self.refs(av):
                    if cur[0] != "reg":
                        raise Refuse("augmented assignment mixing values and containers (line %d)" % node.lineno)
                    # list += ... / set |= ... work in place
                    did = False
                    for r in self.refs(av):
                        if r not in s2.atoms:
                            did = True
                            self.emit(s2, "IUpdate", cur[1], r)
                    if not did:
                        self.emit(s2, "ISetAtom", cur[1], self.names.key("elem"), 0)
                outs.append(s2)
            else:
                # x[k] += v / x.a += v : a read and a write of x
                outs.extend(self.bind(s2, node.target, av))
        return outs

    def st_Delete(self, s, node, sink):
        outs = [s]
        for t in node.targets:
            nxt = []
            for s1 in outs:
                if isinstance(t, ast.Name):
                    s1.env.pop(t.id, None)
                    nxt.append(s1)
                elif isinstance(t, (ast.Subscript, ast.Attribute)):
                    for s2, base in self.ev(s1, t.value):
                        if base[0] != "reg":
                            raise PathDead()     # del None[k] / del "..."[k]: Python raises TypeError here
                        if self.exempted(t):
                            s2.notes.append("exempted del (line %d)" % (self.first_line + node.lineno - 1))
                        else:
                            kn = self.keyname(t.slice) if isinstance(t, ast.Subscript) else t.attr
                            self.emit(s2, "IDel", base[1], self.names.key(kn))
                        nxt.append(s2)
                else:
                    raise Refuse("del target (line %d)" % node.lineno)
            outs = nxt
        return outs

    def st_Return(self, s, node, sink):
        if node.value is None:
            s.ret, s.done = ATOM, "return"
            return [s]
        outs = []
        for s2, av in self.ev(s, node.value):
            s2.ret, s2.done = av, "return"
            outs.append(s2)
        return outs

    def st_Raise(self, s, node, sink):
        outs = [s]
        if isinstance(node.exc, ast.Call):
            # the exception object itself is not modelled, only the evaluation of its arguments
            outs = [s2 for s2, _ in self.ev_list(s, [a.value if isinstance(a, ast.Starred) else a for a in node.exc.args]
                                                 + [k.value for k in node.exc.keywords])]
        elif node.exc is not None:
            outs = [s2 for s2, _ in self.ev(s, node.exc)]
        for s2 in outs:
            s2.done = "raise"
        return outs

    def st_Break(self, s, node, sink):
        s.done = "break"
        return [s]

    def st_Continue(self, s, node, sink):
        s.done = "continue"
        return [s]

    def st_If(self, s, node, sink):
        outs = []
        for s2 in self.test(s, node.test):
            outs.extend(self.block([s2.clone()], node.body, sink))
            outs.extend(self.block([s2], node.orelse, sink))
        return outs

    def summary(self, s, names):
        """what the checker knows at a loop head: the taint flag and the typing of the visible values"""
        out = [s.taint]
        for n in sorted(names):
            v = s.env.get(n)
            if v is None:
                out.append(None)
            elif v[0] == "reg":
                out.append(("reg", s.ty.get(v[1], "S"), v[1] in s.atoms, s.dyn.get(v[1]), s.root.get(v[1]), s.fields.get(v[1])))
            elif v[0] == "tup":
                out.append(("tup", tuple(s.ty.get(r, "S") for r in self.refs(v))))
            else:
                out.append(v)
        return tuple(out)

    @staticmethod
    def carried(node):
        """names the loop body may read before it assigns them: their binding at the end of one iteration matters
        to the next"""
        first_store, first_load = {}, {}
        for st in node.body:
            for n in ast.walk(st):
                if isinstance(n, ast.Name):
                    d = first_load if isinstance(n.ctx, ast.Load) else first_store
                    d[n.id] = min(d.get(n.id, 10 ** 9), n.lineno)
        return {n for n in first_load if n not in first_store or first_load[n] <= first_store[n]}

    def st_For(self, s, node, sink):
        if sink is not None:
            sink.append(s.clone())
        fallthrough = [s.clone()]               # zero iterations
        broken, ended = [], []
        cur = [s]
        carried = self.carried(node)
        for it in range(self.t.get("iterations", 2)):
            nxt, again = [], []
            for s1 in cur:
                before = self.summary(s1, carried)
                for s2, v in self.elem_of(s1, node.iter):
                    for s3 in self.bind(s2, node.target, v):
                        for s4 in self.block([s3], node.body, sink):
                            if s4.done == "break":
                                s4.done = None
                                broken.append(s4)          # leaves the loop, skips its else
                                continue
                            if s4.done == "continue":
                                s4.done = None
                            elif s4.done:
                                ended.append(s4)           # raise inside a try inside the loop
                                continue
                            nxt.append(s4)
                            # the next iteration starts from what the checker already saw at the head of this one
                            # (same taint, same typing of every value it can read first): it adds nothing
                            if self.summary(s4, carried) != before:
                                again.append(s4)
            fallthrough.extend(x.clone() for x in dedupe(nxt))
            cur = dedupe(again)
            if not cur:
                break
        outs = ended + broken
        fallthrough = dedupe(fallthrough)
        outs.extend(self.block(fallthrough, node.orelse, sink) if node.orelse else fallthrough)
        return dedupe(outs)

    def st_While(self, s, node, sink):
        """like `for` without a loop variable: the test is evaluated before every iteration and once more at the end"""
        if sink is not None:
            sink.append(s.clone())
        fallthrough, broken, ended = [], [], []
        cur = [s]
        carried = self.carried(node) | {n.id for n in ast.walk(node.test) if isinstance(n, ast.Name)}
        for it in range(self.t.get("iterations", 2) + 1):
            nxt, again = [], []
            for s0 in cur:
                for s1 in self.test(s0, node.test):
                    fallthrough.append(s1.clone())          # the test fails: the loop is left here
                    if it == self.t.get("iterations", 2):
                        continue
                    before = self.summary(s1, carried)
                    for s4 in self.block([s1], node.body, sink):
                        if s4.done == "break":
                            s4.done = None
                            broken.append(s4)
                            continue
                        if s4.done == "continue":
                            s4.done = None
                        elif s4.done:
                            ended.append(s4)
                            continue
                        nxt.append(s4)
                        if self.summary(s4, carried) != before:
                            again.append(s4)
            # an iteration that changed nothing the checker knows is followed by the failing test only
            for s4 in nxt:
                if s4 not in again:
                    fallthrough.extend(x.clone() for x in self.test(s4.clone(), node.test))
            cur = dedupe(again)
            if not cur:
                break
        outs = ended + broken
        fallthrough = dedupe(fallthrough)
        outs.extend(self.block(fallthrough, node.orelse, sink) if node.orelse else fallthrough)
        return dedupe(outs)

    def st_With(self, s, node, sink):
        raise Refuse("with statement (line %d)" % node.lineno)

    def st_FunctionDef(self, s, node, sink):
        raise Refuse("nested function (line %d)" % node.lineno)

    def st_Try(self, s, node, sink):
        if node.finalbody:
            raise Refuse("try/finally (line %d)" % node.lineno)
        inner = []
        outs = self.block([s], node.body, inner)
        normal = [x for x in outs if not x.done]
        raised = [x for x in outs if x.done == "raise"]
        passing = [x for x in outs if x.done and x.done != "raise"]
        res = list(passing)
        res.extend(self.block(normal, node.orelse, sink))
        for x in raised:
            x.done = None
        pre = dedupe(inner + raised)
        catch_all = any(h.type is None or (isinstance(h.type, ast.Name) and h.type.id in ("Exception", "BaseException"))
                        for h in node.handlers)
        for h in node.handlers:
            for x in pre:
                y = x.clone()
                if h.name:
                    y.env[h.name] = ATOM
                res.extend(self.block([y], h.body, sink))
        if not catch_all and sink is not None:
            sink.extend(x.clone() for x in pre)      # an exception no handler takes reaches the enclosing try
        return res

    # ---- a whole function
    def run(self):
        self.first_line = self.func.__code__.co_firstlineno
        src = textwrap.dedent(inspect.getsource(self.func))
        tree = ast.parse(src)
        fd = tree.body[0]
        if not isinstance(fd, ast.FunctionDef):
            raise Refuse("not a plain function")
        for n in ast.walk(fd):
            if isinstance(n, (ast.Yield, ast.YieldFrom, ast.Await, ast.Global, ast.Nonlocal, ast.NamedExpr)):
                raise Refuse("%s (line %d)" % (type(n).__name__, getattr(n, "lineno", 0)))
        s = St()
        a = fd.args
        names = [x.arg for x in a.posonlyargs + a.args]
        defaults = dict(zip(names[len(names) - len(a.defaults):], a.defaults))
        for x, d in zip(a.kwonlyargs, a.kw_defaults):
            names.append(x.arg)
            if d is not None:
                defaults[x.arg] = d
        self.locals = {n.id for n in ast.walk(fd) if isinstance(n, ast.Name) and isinstance(n.ctx, (ast.Store, ast.Del))}
        self.pnames = list(names)
        provs = dict(self.t["params"])
        for nm in names:
            mutable_default = nm in defaults and isinstance(defaults[nm], (ast.List, ast.Dict, ast.Set, ast.ListComp,
                                                                          ast.DictComp, ast.SetComp, ast.Call))
            if nm == "self" and nm == names[0]:
                if self.t["self_dyn"]:
                    self.bind_param(s, nm, "dyn:" + self.t["self_dyn"], False)
                else:
                    self.bind_param(s, nm, "root:" + (self.t["self_root"] or "self_" + self.t["name"].split(".")[0]), False)
                continue
            self.bind_param(s, nm, provs.pop(nm, "unknown"), mutable_default)
        if a.vararg:
            self.bind_param(s, a.vararg.arg, provs.pop(a.vararg.arg, "unknown"), False)
        if a.kwarg:
            self.bind_param(s, a.kwarg.arg, provs.pop(a.kwarg.arg, "kwargs"), False)
        if provs:
            raise Refuse("provenance table names parameters the function no longer has: %s" % sorted(provs))
        self.param_regs = {nm: s.env[nm][1] for nm in s.env if s.env[nm][0] == "reg"}
        self.param_values = dict(s.env)
        self.prologue = len(s.ins)
        outs = self.block([s], fd.body, None)
        for x in outs:
            if x.done is None:
                x.ret, x.done = ATOM, "return"
        return prune_prefixes(dedupe(self.finished + outs), self.t["contract"])


def prune_prefixes(paths, contract):
    """`check` is prefix-closed and only write instructions can fail: a path that carries no return contract and
    whose instruction list, up to its last write, is a prefix of another path's is implied by that one"""
    def stripped(k):
        n = len(k)
        while n and k[n - 1][0] not in WRITE_OPS:
            n -= 1
        return k[:n]
    keys = [tuple(i[:4] for i in p.ins) for p in paths]
    order = sorted(range(len(paths)), key=lambda i: (-len(keys[i]), i))
    prefixes, kept = set(), []
    for i in order:
        p, k = paths[i], keys[i]
        obligation = contract is not None and p.done == "return"
        if not obligation and stripped(k) in prefixes:
            continue
        kept.append(i)
        for n in range(len(k) + 1):
            prefixes.add(k[:n])
    return [paths[i] for i in sorted(kept)]


class PathDead(Exception):
    """the path cannot continue (an unbound local is read): Python raises here"""


_orig_ev_Name = Tr.ev_Name


def _ev_Name(self, st, e):
    if e.id not in st.env and e.id in getattr(self, "locals", ()):
        raise PathDead()
    return _orig_ev_Name(self, st, e)


Tr.ev_Name = _ev_Name


# ------------------------------------------------------------------------------------------ driver of the translation
def resolve_target(spec):
    mod, qual = spec.split(":")
    obj = importlib.import_module(mod)
    for part in qual.split("."):
        obj = getattr(obj, part)
    if isinstance(obj, (staticmethod, classmethod)):
        obj = obj.__func__
    return inspect.unwrap(obj)




def written_params(tr, path):
    """parameters whose object (or something read out of it) is the target of a write on this path"""
    origin = {r: n for n, r in tr.param_regs.items()}
    out = set()
    for op, a, b, c, _ in path.ins[tr.prologue:]:
        if op == "IGet" and b in origin:
            origin[a] = origin[b]
        elif op in WRITE_OPS and a in origin:
            out.add(origin[a])
    return out


def translate_all():
    """-> (names, results, refused) where results = [(target, translator, paths)]"""
    names = Names()
    contracts = {t["name"]: dict(t, writes=(), pnames=[]) for t in TARGETS}
    funcs, refused = {}, []
    for t in TARGETS:
        try:
            funcs[t["name"]] = resolve_target(t["spec"])
            fd_args = inspect.getfullargspec(funcs[t["name"]])
            pn = list(fd_args.args)
            contracts[t["name"]]["pnames"] = pn[1:] if pn[:1] == ["self"] else pn
        except Exception as e:
            refused.append("%s (%s): the function cannot be found: %s: %s" % (t["name"], t["spec"], type(e).__name__, e))
    done, ref_by, changed_prev = {}, {}, None
    for rnd in range(5):
        changed = set()
        for t in TARGETS:
            nm = t["name"]
            if nm not in funcs:
                continue
            if changed_prev is not None and nm in done and not (done[nm][1].used_callees & changed_prev):
                continue                    # nothing it relies on has changed since it was translated
            tr = Tr(t, funcs[nm], names, contracts)
            ref_by.pop(nm, None)
            done.pop(nm, None)
            try:
                paths = tr.run()
            except Refuse as e:
                ref_by[nm] = "%s (%s, def at line %d; line numbers relative to it): construct outside the translated subset: %s" % (
                    nm, t["spec"], getattr(tr, "first_line", 0), e)
                continue
            except RecursionError:
                ref_by[nm] = "%s (%s): expression too deep" % (nm, t["spec"])
                continue
            w = set()
            for p in paths:
                w |= written_params(tr, p)
            w = tuple(sorted(w))
            if w != tuple(contracts[nm]["writes"]):
                contracts[nm]["writes"] = w
                changed.add(nm)
            done[nm] = (t, tr, paths)
        changed_prev = changed
        if not changed:
            break
    else:
        ref_by["*"] = "the write sets of the translated callees did not stabilise"
    results = [done[t["name"]] for t in TARGETS if t["name"] in done]
    ref2 = [ref_by[k] for k in sorted(ref_by)]
    return names, results, refused + ref2, contracts


def coq_string(s):
    s = s.replace('"', "'").replace("\n", " ")
    s = "".join(c if 32 <= ord(c) < 127 else "?" for c in s)
    return '"%s"' % s


def comment(s):
    # no comment delimiters and no string delimiters (Coq lexes strings inside comments)
    return s.replace("(*", "( *").replace("*)", "* )").replace('"', "'")


def contract_flags(contract, ret, tr):
    """-> (registers that must be F, must the flow end untainted)"""
    if contract is None:
        return [], False
    if isinstance(contract, str) and contract.startswith("param_or_fresh:"):
        if ret == tr.param_values.get(contract.split(":")[1]):
            return [], False
        return ([ret[1]] if ret[0] == "reg" else None if ret[0] == "tup" else []), False
    if contract in ("fresh", "deep"):
        return ([ret[1]] if ret[0] == "reg" else None if ret[0] == "tup" else []), contract == "deep" and ret[0] == "reg"
    if isinstance(contract, tuple) and contract[0] == "tuple":
        if ret[0] != "tup" or len(ret[1]) != len(contract) - 1:
            return ([], False) if ret[0] == "atom" else (None, False)
        regs, deep = [], False
        for c, r in zip(contract[1:], ret[1]):
            rs, d = contract_flags(c, r, tr)
            if rs is None:
                return None, False
            regs += rs
            deep = deep or d
        return regs, deep
    return None, False


def render(names, results, refused, contracts):
    lines = []
    w = lines.append
    w("(* GENERATED by harness/py2alias.py from the current repository source on every run - do not edit.")
    w("   One gflow per control-flow path of each translated function; see the header of py2alias.py for the scheme. *)")
    w("From Coq Require Import List String.")
    w("From Verif Require Import Lib.Heap Model.Alias Model.AliasTie.")
    w("Import ListNotations.")
    w("Open Scope string_scope.")
    w("")
    for n, i in sorted(names.roots.items(), key=lambda kv: kv[1]):
        w("Definition GR_%s : loc := %d." % (n, i))
    for n, i in sorted(names.keys.items(), key=lambda kv: kv[1]):
        w("Definition gk_%s : key := %d." % (n, i))
    w("")
    flows, stats = [], []
    src_map = {}
    interned = {}
    keyname_of = {k: n for n, k in names.keys.items()}
    maxreg = max([1] + [max(i[1], i[2] if i[0] in ("IGet", "IDeepCopy", "IUpdate") else 0, i[3] if i[0] == "ISet" else 0)
                        for _t, _tr, ps in results for p in ps for i in p.ins])
    for k in range(maxreg + 1):
        w("Definition r%d : var := %d." % (k, k))       # unary literals are slow to elaborate: registers by name
    w("")

    def num(k):
        return "r%d" % k

    def istr(x):
        """string literals are slow to elaborate: every distinct one is a Definition, used by name"""
        if x not in interned:
            interned[x] = "gs_%d" % len(interned)
        return interned[x]
    for t, tr, paths in results:
        fn_lines = inspect.getsource(tr.func).splitlines()
        first = tr.first_line
        nm = re.sub(r"[^A-Za-z0-9_]", "_", t["name"])
        per = {"function": t["name"], "spec": t["spec"], "paths": len(paths), "instructions": 0, "writes": 0,
               "written_params": list(contracts[t["name"]]["writes"]), "notes": sorted({n for p in paths for n in p.notes})}
        for i, p in enumerate(paths):
            dn = "gf_%s_%d" % (nm, i)
            regs, deep = contract_flags(t["contract"], p.ret if p.done == "return" else ATOM, tr) if p.done == "return" else ([], False)
            if regs is None:
                refused.append("%s: path %d returns a value whose shape does not fit the contract %r" % (t["name"], i, t["contract"]))
                regs, deep = [], False
            w("Definition %s : list instr := [" % dn)
            body = []
            for j, (op, a, b, c, ln) in enumerate(p.ins):
                if op == "ILoadRoot":
                    txt = "ILoadRoot %s GR_%s" % (num(a), [n for n, k in names.roots.items() if k == b][0])
                elif op == "IGet":
                    txt = "IGet %s %s gk_%s" % (num(a), num(b), keyname_of[c])
                elif op in ("INew",):
                    txt = "INew %s" % num(a)
                elif op == "IDeepCopy":
                    txt = "IDeepCopy %s %s" % (num(a), num(b))
                elif op == "ISet":
                    txt = "ISet %s gk_%s %s" % (num(a), keyname_of[b], num(c))
                elif op == "ISetAtom":
                    txt = "ISetAtom %s gk_%s %d" % (num(a), keyname_of[b], c)
                elif op == "IUpdate":
                    txt = "IUpdate %s %s" % (num(a), num(b))
                elif op == "IDel":
                    txt = "IDel %s gk_%s" % (num(a), keyname_of[b])
                srcl = fn_lines[ln - 1].strip() if 0 < ln <= len(fn_lines) else ""
                body.append("  %s%s  (* %d: %s *)" % (txt, ";" if j < len(p.ins) - 1 else " ", first + ln - 1, comment(srcl[:100])))
                per["instructions"] += 1
                per["writes"] += op in WRITE_OPS
            lines.extend(body)
            w("]." if body else "].")
            locs = sorted((n, v[1]) for n, v in p.env.items() if v[0] == "reg")
            rv = p.ret if p.done == "return" and p.ret is not None else ATOM
            slots = list(rv[1]) if rv[0] == "tup" else [rv]
            flows.append("  mk_gflow %s %s %s [%s] [%s] %s %s [%s]" % (
                istr(t["name"]), "%d" % i, dn,
                "; ".join("Some %s" % num(x[1]) if x[0] == "reg" else "None" for x in slots), "; ".join(num(r) for r in regs),
                "true" if deep else "false", "true" if p.done == "return" else "false",
                "; ".join("(%s, %s)" % (istr(n), num(r)) for n, r in locs)))
            src_map[dn] = {"function": t["name"], "path": i, "lines": [first + ln - 1 for *_x, ln in p.ins],
                           "ends": p.done, "file": inspect.getsourcefile(tr.func)}
        stats.append(per)
    w("")
    for x, nm in interned.items():
        w("Definition %s : string := %s." % (nm, coq_string(x)))
    w("")
    w("Definition generated_flows : list gflow := [")
    w(";\n".join(flows))
    w("].")
    w("")
    w("(* what could not be translated (fail closed: C20_generated_translation_complete states that this list is empty) *)")
    w("Definition gen_refused : list string := [")
    w(";\n".join("  " + coq_string("BROKEN-TRANSLATION: " + r) for r in refused))
    w("].")
    w("Definition gen_functions : nat := %d." % len(results))
    return "\n".join(lines) + "\n", stats, src_map


def names_key(names, i):
    for n, k in names.keys.items():
        if k == i:
            return n
    raise KeyError(i)


def generate():
    """-> (text of AliasGen.v, summary dict)"""
    t0 = time.time()
    try:
        names, results, refused, contracts = translate_all()
        text, stats, src_map = render(names, results, list(refused), contracts)
        refused = re.findall(r'"BROKEN-TRANSLATION: ([^"]*)"', text)
    except Exception:
        tb = traceback.format_exc()
        msg = "py2alias crashed: " + tb.strip().splitlines()[-1] + " @ " + " / ".join(
            l.strip() for l in tb.strip().splitlines()[-3:-1])
        text = ("(* GENERATED by harness/py2alias.py - the translator crashed. *)\nFrom Coq Require Import List String.\n"
                "From Verif Require Import Lib.Heap Model.Alias Model.AliasTie.\nImport ListNotations.\nOpen Scope string_scope.\n"
                "Definition generated_flows : list gflow := [].\nDefinition gen_refused : list string := [%s].\n"
                "Definition gen_functions : nat := 0.\n" % coq_string("BROKEN-TRANSLATION: " + msg))
        stats, src_map, refused = [], {}, [msg]
    summary = {"functions": len(stats), "targets": len(TARGETS), "paths": sum(s["paths"] for s in stats),
               "instructions": sum(s["instructions"] for s in stats), "write_instructions": sum(s["writes"] for s in stats),
               "refused": refused, "per_function": stats, "flows": src_map,
               "assumed_callees": sorted(ASSUMED_CALLEES), "dyn_fresh_attrs": {"%s.%s" % k: v for k, v in DYN_FRESH_ATTRS.items()},
               "seconds": round(time.time() - t0, 3)}
    return text, summary


def write_if_changed(path, text):
    old = None
    if os.path.exists(path):
        with open(path) as f:
            old = f.read()
    if old != text:
        tmp = path + ".tmp%d" % os.getpid()
        with open(tmp, "w") as f:
            f.write(text)
        os.replace(tmp, path)
        return True
    return False


def main(outdir):
    os.makedirs(outdir, exist_ok=True)
    text, summary = generate()
    changed = write_if_changed(os.path.join(outdir, "AliasGen.v"), text)
    write_if_changed(os.path.join(outdir, "AliasGen.json"),
                     json.dumps({k: v for k, v in summary.items() if k != "seconds"}, indent=1, sort_keys=True))
    print("py2alias: %d/%d functions, %d paths, %d instructions (%d writes), %d refused, %.2fs%s" % (
        summary["functions"], summary["targets"], summary["paths"], summary["instructions"], summary["write_instructions"],
        len(summary["refused"]), summary["seconds"], ", AliasGen.v rewritten" if changed else ""))
    for r in summary["refused"]:
        print("C20-BROKEN-TRANSLATION: " + r)       # not the engine's prefix: only C20's build sees the refusal


if __name__ == "__main__":
    try:
        main(sys.argv[1])
    except Exception:
        # fail closed for C20 only: leave a file whose refusal list is not empty; if even that is impossible the
        # non-zero exit code makes the engine remove Gen/AliasGen.v
        traceback.print_exc()
        try:
            write_if_changed(os.path.join(sys.argv[1], "AliasGen.v"),
                             "From Coq Require Import List String.\nFrom Verif Require Import Lib.Heap Model.Alias Model.AliasTie.\n"
                             "Import ListNotations.\nOpen Scope string_scope.\nDefinition generated_flows : list gflow := [].\n"
                             "Definition gen_refused : list string := [\"BROKEN-TRANSLATION: py2alias.py could not write its output\"].\n"
                             "Definition gen_functions : nat := 0.\n")
        except Exception:
            sys.exit(1)
    sys.exit(0)
