"""py2v — fail-closed Python-ast -> Gallina translator for the small decision functions on which several
properties hinge.  Called by the engine on every run as `python py2v.py <outdir>` with PYTHONPATH at the repository
source: it re-reads the CURRENT source of each listed function and writes coq/Gen/Src_<group>.v.  The refinement
lemmas in coq/Proofs/Src_refine.v (X_src (inject args) = Ok (inject (model args))) are then re-checked by coqc
against what the code says now.  A construct outside the supported subset, or a function that has disappeared,
prints `BROKEN-TRANSLATION: <what>` (a broken obligation for the check), never a silently different translation.

Supported subset: constants (str/int/bool/None), names, module-level str/int constants, attribute reads,
subscripts (dict[str], seq[int], seq[:n]), comparisons (< > <= >= == != in, not in, is None, is not None),
and/or/not, calls: the clock functions, self.<translated method>(), <dict>.get(k[,d]), <str>.endswith(s),
<str>.join(x), "{}{}".format(...), hashlib.<alg>(X.encode(..)).hexdigest() (an abstract hash H), len() is not
needed; statements: docstring, return, assignment to a name, if/elif/else (join points as continuations), raise,
pass, and the loop shape `for x in e: if test: raise E`.
"""
import ast
import importlib
import inspect
import os
import sys
import textwrap


class Unsupported(Exception):
    pass


def coqstr(s):
    if all(32 <= ord(c) < 127 and c != '"' for c in s):
        return '(PS "%s")' % s
    return "[" + "; ".join(str(ord(c)) for c in s) + "]%N" if s else "(@nil N)"


EXC = {"ValueError": "ValueError", "KeyError": "KeyError", "TypeError": "TypeError", "AttributeError": "AttributeError",
       "IndexError": "IndexError"}


class T:
    def __init__(self, func, methods, clock_calls=("utc_time_sans_frac", "time_sans_frac")):
        self.func = func
        self.methods = methods          # python method name -> coq name of its translation
        self.clock_calls = clock_calls
        self.globals = getattr(func, "__globals__", {})
        self.n = 0
        self.bound = set()

    def fresh(self):
        self.n += 1
        return "t%d" % self.n

    def bind2(self, l, r, fmt):
        a, b = self.fresh(), self.fresh()
        return "(%s <- %s ;; %s <- %s ;; %s)" % (a, l, b, r, fmt % (a, b))

    def expr(self, e):
        if isinstance(e, ast.Constant):
            v = e.value
            if v is True or v is False:
                return "Ok (VBool %s)" % str(v).lower()
            if v is None:
                return "Ok VNone"
            if isinstance(v, int):
                return "Ok (VInt (%d))" % v
            if isinstance(v, str):
                return "Ok (VStr %s)" % coqstr(v)
            raise Unsupported("constant %r" % (v,))
        if isinstance(e, ast.Name):
            if e.id in self.bound:
                return "Ok %s" % e.id
            if e.id in self.globals and isinstance(self.globals[e.id], (str, int)) and not isinstance(self.globals[e.id], bool):
                g = self.globals[e.id]
                return "Ok (VStr %s)" % coqstr(g) if isinstance(g, str) else "Ok (VInt (%d))" % g
            raise Unsupported("free name %s" % e.id)
        if isinstance(e, ast.Attribute):
            a = self.fresh()
            return "(%s <- %s ;; py_getattr %s %s)" % (a, self.expr(e.value), a, coqstr(e.attr))
        if isinstance(e, ast.Subscript):
            if isinstance(e.slice, ast.Slice):
                sl = e.slice
                if sl.lower is None and sl.upper is not None and sl.step is None:
                    return self.bind2(self.expr(e.value), self.expr(sl.upper), "py_slice_to %s %s")
                raise Unsupported("slice " + ast.dump(sl)[:60])
            return self.bind2(self.expr(e.value), self.expr(e.slice), "py_getitem %s %s")
        if isinstance(e, ast.UnaryOp) and isinstance(e.op, ast.Not):
            a = self.fresh()
            return "(%s <- %s ;; py_not %s)" % (a, self.expr(e.operand), a)
        if isinstance(e, ast.UnaryOp) and isinstance(e.op, ast.USub) and isinstance(e.operand, ast.Constant) and isinstance(e.operand.value, int):
            return "Ok (VInt (-%d))" % e.operand.value
        if isinstance(e, ast.Compare) and len(e.ops) == 1:
            op, l, rnode = e.ops[0], self.expr(e.left), e.comparators[0]
            if isinstance(op, (ast.Is, ast.IsNot)):
                if not (isinstance(rnode, ast.Constant) and rnode.value is None):
                    raise Unsupported("is <non-None>")
                a = self.fresh()
                if isinstance(op, ast.Is):
                    return "(%s <- %s ;; py_is_none %s)" % (a, l, a)
                b = self.fresh()
                return "(%s <- %s ;; %s <- py_is_none %s ;; py_not %s)" % (a, l, b, a, b)
            r = self.expr(rnode)
            tbl = {ast.Lt: "py_cmp Z.ltb %s %s", ast.Gt: "py_cmp Z.gtb %s %s", ast.GtE: "py_cmp Z.geb %s %s",
                   ast.LtE: "py_cmp Z.leb %s %s", ast.Eq: "py_eq %s %s", ast.NotEq: "py_ne %s %s", ast.In: "py_in %s %s"}
            if type(op) is ast.NotIn:
                a, b, c = self.fresh(), self.fresh(), self.fresh()
                return "(%s <- %s ;; %s <- %s ;; %s <- py_in %s %s ;; py_not %s)" % (a, l, b, r, c, a, b, c)
            if type(op) not in tbl:
                raise Unsupported("comparison " + type(op).__name__)
            return self.bind2(l, r, tbl[type(op)])
        if isinstance(e, ast.BoolOp):
            vals = list(e.values)
            acc = self.expr(vals[-1])
            for v in reversed(vals[:-1]):
                a = self.fresh()
                if isinstance(e.op, ast.And):
                    acc = "(%s <- %s ;; if py_truthy %s then %s else Ok %s)" % (a, self.expr(v), a, acc, a)
                else:
                    acc = "(%s <- %s ;; if py_truthy %s then Ok %s else %s)" % (a, self.expr(v), a, a, acc)
            return acc
        if isinstance(e, ast.Call):
            return self.call(e)
        raise Unsupported(ast.dump(e)[:80])

    def call(self, e):
        f = e.func
        if isinstance(f, ast.Name) and f.id in self.clock_calls and not e.args:
            return "Ok clock"
        if isinstance(f, ast.Attribute):
            # self.method()
            if isinstance(f.value, ast.Name) and f.value.id == "self" and f.attr in self.methods and not e.args:
                return "%s self clock" % self.methods[f.attr]
            if f.attr == "get" and len(e.args) in (1, 2) and not e.keywords:
                a, b, c = self.fresh(), self.fresh(), self.fresh()
                d = self.expr(e.args[1]) if len(e.args) == 2 else "Ok VNone"
                return "(%s <- %s ;; %s <- %s ;; %s <- %s ;; py_dict_get %s %s %s)" % (a, self.expr(f.value), b, self.expr(e.args[0]), c, d, a, b, c)
            if f.attr == "endswith" and len(e.args) == 1:
                return self.bind2(self.expr(f.value), self.expr(e.args[0]), "py_endswith %s %s")
            if f.attr == "join" and len(e.args) == 1:
                return self.bind2(self.expr(f.value), self.expr(e.args[0]), "py_join %s %s")
            if f.attr == "format" and isinstance(f.value, ast.Constant) and isinstance(f.value.value, str) \
                    and f.value.value == "{}" * len(e.args) and e.args and not e.keywords:
                names, binds = [], ""
                for x in e.args:
                    a = self.fresh()
                    binds += "%s <- %s ;; " % (a, self.expr(x))
                    names.append(a)
                s = self.fresh()
                return "(%s%s <- py_format_concat [%s] ;; Ok (VStr %s))" % (binds, s, "; ".join(names), s)
            # hashlib.<alg>(X.encode(...)).hexdigest()  ->  the abstract hash H applied to X
            if f.attr == "hexdigest" and not e.args and isinstance(f.value, ast.Call):
                h = f.value
                if isinstance(h.func, ast.Attribute) and isinstance(h.func.value, ast.Name) and h.func.value.id == "hashlib" and len(h.args) == 1:
                    x = h.args[0]
                    if isinstance(x, ast.Call) and isinstance(x.func, ast.Attribute) and x.func.attr == "encode":
                        inner = x.func.value
                        if isinstance(inner, ast.Tuple) or isinstance(inner, ast.BinOp):
                            raise Unsupported("hash argument shape")
                        a, s = self.fresh(), self.fresh()
                        return "(%s <- %s ;; %s <- py_str %s ;; Ok (VStr (H %s %s)))" % (a, self.expr(inner), s, a, coqstr(h.func.attr), s)
        raise Unsupported("call " + ast.dump(e)[:90])

    # statement list -> coq term (res pyval); falling off the end returns None
    def block(self, stmts, k="Ok VNone"):
        if not stmts:
            return k
        s, rest = stmts[0], stmts[1:]
        if isinstance(s, ast.Expr) and isinstance(s.value, ast.Constant):
            return self.block(rest, k)      # docstring
        if isinstance(s, ast.Pass):
            return self.block(rest, k)
        if isinstance(s, ast.Return):
            return self.expr(s.value) if s.value is not None else "Ok VNone"
        if isinstance(s, ast.Raise):
            exc = s.exc
            name = exc.func.id if isinstance(exc, ast.Call) and isinstance(exc.func, ast.Name) else (exc.id if isinstance(exc, ast.Name) else None)
            if name not in EXC:
                raise Unsupported("raise %s" % name)
            return "Err %s" % EXC[name]
        if isinstance(s, ast.Assign) and len(s.targets) == 1 and isinstance(s.targets[0], ast.Name):
            rhs = self.expr(s.value)
            self.bound.add(s.targets[0].id)
            return "(%s <- %s ;;\n %s)" % (s.targets[0].id, rhs, self.block(rest, k))
        if isinstance(s, ast.For):
            # for x in e: if test: raise E
            if (isinstance(s.target, ast.Name) and not s.orelse and len(s.body) == 1 and isinstance(s.body[0], ast.If)
                    and not s.body[0].orelse and len(s.body[0].body) == 1 and isinstance(s.body[0].body[0], ast.Raise)):
                x = s.target.id
                it = self.fresh()
                saved = set(self.bound)
                self.bound.add(x)
                test = self.expr(s.body[0].test)
                exc = self.block([s.body[0].body[0]])
                self.bound = saved
                xs = self.fresh()
                return "(%s <- %s ;; %s <- py_iter %s ;; _ <- py_for_raise %s (fun %s => %s) %s ;;\n %s)" % (
                    it, self.expr(s.iter), xs, it, xs, x, test, exc[len("Err "):], self.block(rest, k))
            raise Unsupported("for loop shape")
        if isinstance(s, ast.If):
            c = self.fresh()
            test = self.expr(s.test)
            assigned = {t.id for n in ast.walk(s) if isinstance(n, ast.Assign) for t in n.targets if isinstance(t, ast.Name)}
            later = {n.id for st in rest for n in ast.walk(st) if isinstance(n, ast.Name)}
            join = sorted(v for v in assigned if v in later or v in self.bound)
            join = [v for v in join if v in self.bound]      # only re-assignments of already bound names flow through
            new_needed = [v for v in assigned if v not in self.bound and v in later]
            if new_needed:
                raise Unsupported("name %s first bound inside a branch and used after it" % new_needed)
            if len(join) > 1:
                raise Unsupported("several names re-assigned in one if")
            saved = set(self.bound)
            self.n += 1
            kn = "k%d" % self.n
            if join:
                v = join[0]
                body = self.block(s.body, "%s %s" % (kn, v))
                self.bound = set(saved)
                orelse = self.block(s.orelse, "%s %s" % (kn, v))
                self.bound = set(saved)
                cont = self.block(rest, k)
                return "(let %s := (fun %s => %s) in\n %s <- %s ;;\n if py_truthy %s then %s else %s)" % (kn, v, cont, c, test, c, body, orelse)
            body = self.block(s.body, "%s tt" % kn)
            self.bound = set(saved)
            orelse = self.block(s.orelse, "%s tt" % kn)
            self.bound = set(saved)
            cont = self.block(rest, k)
            return "(let %s := (fun _ : unit => %s) in\n %s <- %s ;;\n if py_truthy %s then %s else %s)" % (kn, cont, c, test, c, body, orelse)
        raise Unsupported(ast.dump(s)[:80])


def translate(func, coqname, methods, varargs_as_list=True):
    src = textwrap.dedent(inspect.getsource(func))
    fd = ast.parse(src).body[0]
    while not isinstance(fd, ast.FunctionDef):
        fd = fd.body[0]
    if any(isinstance(d, ast.Name) and d.id == "staticmethod" for d in fd.decorator_list):
        pass
    t = T(func, methods)
    params = [a.arg for a in fd.args.args]
    if fd.args.vararg is not None:
        params.append(fd.args.vararg.arg)
    # keyword-only / **kwargs parameters must not be read by the body
    ignored = set(a.arg for a in fd.args.kwonlyargs) | ({fd.args.kwarg.arg} if fd.args.kwarg else set())
    for n in ast.walk(fd):
        if isinstance(n, ast.Name) and n.id in ignored:
            raise Unsupported("reads **%s" % n.id)
    t.bound = set(params)
    body = t.block(fd.body)
    uses_h = "(H " in body
    args = " ".join("(%s : pyval)" % p for p in params)
    hdr = "Definition %s %s%s (clock : pyval) : res pyval :=\n %s.\n" % (
        coqname, "(H : pystr -> pystr -> pystr) " if uses_h else "", args, body)
    return hdr


# (group file, coq name, "module:qualname", methods map)
TARGETS = [
    ("Src_token", "Item_max_usage_reached_src", "idpyoidc.server.session.token:Item.max_usage_reached", {}),
    ("Src_token", "Item_is_active_src", "idpyoidc.server.session.token:Item.is_active", {"max_usage_reached": "Item_max_usage_reached_src"}),
    ("Src_token", "SessionToken_supports_minting_src", "idpyoidc.server.session.token:SessionToken.supports_minting", {}),
    ("Src_token", "is_expired_src", "idpyoidc.server.token:is_expired", {}),
    ("Src_token", "valid_client_secret_src", "idpyoidc.server.client_authn:valid_client_secret", {}),
    ("Src_db", "branch_key_src", "idpyoidc.server.session.database:Database.branch_key", {}),
    ("Src_sub", "public_id_src", "idpyoidc.server.session.manager:public_id", {}),
    ("Src_sub", "pairwise_id_src", "idpyoidc.server.session.manager:pairwise_id", {}),
]


def resolve(spec):
    mod, qual = spec.split(":")
    obj = importlib.import_module(mod)
    for part in qual.split("."):
        obj = getattr(obj, part)
    return inspect.unwrap(obj) if callable(obj) else obj


def main(outdir):
    groups = {}
    for group, coqname, spec, methods in TARGETS:
        try:
            func = resolve(spec)
            if isinstance(func, staticmethod):
                func = func.__func__
            groups.setdefault(group, []).append(translate(func, coqname, methods))
        except Unsupported as e:
            print("BROKEN-TRANSLATION: %s (%s): construct outside the translated subset: %s" % (coqname, spec, e))
        except Exception as e:
            print("BROKEN-TRANSLATION: %s (%s): %s: %s" % (coqname, spec, type(e).__name__, e))
    for group, defs in groups.items():
        hdr = ("(* GENERATED by harness/py2v.py from the current /repo/src on every run — do not edit. *)\n"
               "From Coq Require Import String ZArith List.\nFrom Verif Require Import Lib.Base Lib.PyStr Lib.PyOps.\n"
               "Import ListNotations.\nOpen Scope string_scope.\nOpen Scope Z_scope.\n\n")
        path = os.path.join(outdir, group + ".v")
        text = hdr + "\n".join(defs)
        old = open(path).read() if os.path.exists(path) else None
        if old != text:         # unchanged source: leave the file (and make's timestamps) alone
            tmp = path + ".tmp%d" % os.getpid()
            with open(tmp, "w") as f:
                f.write(text)
            os.replace(tmp, path)
    print("py2v: %d functions translated into %d files" % (sum(len(v) for v in groups.values()), len(groups)))


if __name__ == "__main__":
    main(sys.argv[1])
