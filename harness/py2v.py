"""py2v — fail-closed Python-ast -> Gallina translator for the small decision functions on which several
properties hinge.  Called by the engine on every run as `python py2v.py <outdir>` with PYTHONPATH at the repository
source: it re-reads the CURRENT source of each listed function and writes coq/Gen/Src_<group>.v.  The refinement
lemmas in coq/Proofs/Src_refine.v (X_src (inject args) = Ok (inject (model args))) are then re-checked by coqc
against what the code says now.  A construct outside the supported subset, or a function that has disappeared,
prints `BROKEN-TRANSLATION: <what>` (a broken obligation for the check), never a silently different translation.

Supported subset: constants (str/int/bool/None), names, module-level str/int constants, attribute reads,
subscripts (dict[str], seq[int], seq[:n]), comparisons (< > <= >= == != in, not in, is None, is not None),
and/or/not, calls: the clock functions, self.<translated method>(), <dict>.get(k[,d]), <str>.endswith(s),
<str>.join(x), "{}{}".format(...), hashlib.<alg>(X.encode(..)).hexdigest() (an abstract hash H), len() is not
needed; statements: docstring, return, assignment to a name, if/elif/else (join points as continuations), raise,
pass, and the loop shape `for x in e: if test: raise E`.

Added for the per-property refinement files Proofs/Src_refine_<group>.v:
  <module-level dict of callables>[k](x)  -> environment parameter G_<name> (what the entries compute: Gen/PkceTables.v);
  <module-level Logger>.debug/info/warning/error(constants | names) as a statement -> skipped;
  self.<translated method>(a1..an) with exactly the callee's positional parameters;
  <obj>.upstream_get("c1", .., "cn") -> PyOps.py_call_env (environment function carried by the injected object);
  [elt for x in e if test..] -> py_listcomp; list literals; list(x), len(x), d.items(), d.keys(), s.split(sep);
  `x is True/False`; "..{}..{}..".format(..) with bare placeholders and literal text;
  general `for x in e:` / `for a, b in e:` with continue / break / return and at most ONE carried variable -> py_for;
  `x.append(e)` on a list created by `x = [..]` in the function and never aliased (x = x + [e]);
  random draws: `x = rndstr(..)` -> py_draw on the supply parameter `draws`; `while test: x = rndstr(..)` (no bound in
  the source) -> py_redraw, recursion on the supply; a draw inside a conditional must be the last one.
  `x in self` / `x not in self` -> the class's own __contains__ (a translated method; refused without one);
  urlsplit / urlunsplit / parse_qs (the global must BE the urllib.parse function) -> environment parameters E_<name>;
  <namedtuple>._replace(field=v) -> py_nt_replace;
  int(x) -> py_int_of; x[n:] -> py_slice_from; s.split(sep, n) -> py_split_max; `a, b = e` -> py_unpack;
  general `while test: body` (continue / break / return, any number of carried variables, no else, not nested, one per
  function) -> py_while: recursion on the explicit parameter `fuel : nat` of the translated function (the source has no
  bound: running out of fuel is the distinct error OutOfFuel, and the refinement lemma says for which fuel it cannot
  happen).
Source identifiers that would capture a name of the emitted Gallina: a parameter / local that spells a reserved word
is renamed <name>_py (refused if that name occurs too); names of the forms t<n>, k<n>, draws<n>, py_*, G_* are refused.
"""
import ast
import importlib
import re
import inspect
import os
import sys
import textwrap


class Unsupported(Exception):
    pass


def coqstr(s):
    if all(32 <= ord(c) < 127 and c != '"' for c in s):
        return '(PS "%s")' % s
    return "[" + "; ".join(str(ord(c)) for c in s) + "]%N" if s else "(@nil N)"


EXC = {"ValueError": "ValueError", "KeyError": "KeyError", "TypeError": "TypeError", "AttributeError": "AttributeError",
       "IndexError": "IndexError"}


COQ_RESERVED = {"fst", "snd", "nth", "bind", "Ok", "Err", "Unmodelled", "clock", "draws", "H", "PS", "tt", "unit", "true", "false",
                "inl", "inr", "match", "end", "fun", "let", "then", "fix", "forall", "exists", "Type", "Prop", "Set", "at",
                "VNone", "VBool", "VInt", "VStr", "VList", "VDict", "VObj", "LNext", "LBreak", "LReturn", "st_", "Z", "N",
                "ValueError", "KeyError", "TypeError", "AttributeError", "IndexError", "pyval", "res", "list", "using"}
# module-level functions whose every call is a fresh random draw: successive results are the list parameter `draws`
DRAW_CALLS = {"rndstr"}
# attribute names that denote an environment function of the object (never a method of a built-in type)
ENV_CALLS = {"upstream_get"}
# functions of the standard library whose result is not defined by the translated code: a call f(x) of the global name
# bound to exactly this library function becomes the environment parameter E_<name> : pyval -> res pyval (the refinement
# lemma instantiates it with the hand-written, differentially validated model of the library function)
LIB_CALLS = {"urlsplit": "urllib.parse", "urlunsplit": "urllib.parse", "parse_qs": "urllib.parse"}


class T:
    def __init__(self, func, methods, clock_calls=("utc_time_sans_frac", "time_sans_frac")):
        self.func = func
        self.methods = methods          # python method name -> coq name of its translation
        self.clock_calls = clock_calls
        self.globals = getattr(func, "__globals__", {})
        self.n = 0
        self.bound = set()
        self.extra = {}                 # environment parameters of the translation: coq name -> coq type
        self.fresh_lists = set()        # names bound by `x = [..]` in this function and never aliased: x.append(e) is x = x + [e]
        self.cursor = 0                 # random draws consumed so far (the supply is the parameter `draws`)
        self.cursor_dead = False        # a draw happened inside a conditional: no draw may follow it
        self.loop = None                # inside the body of a general loop: the carried state (a name / a list of names)
        self.loop_ctor = "L"            # constructors of the loop's control type: LNext.. (py_for) / WNext.. (py_while)

    def fresh(self):
        self.n += 1
        return "t%d" % self.n

    def sibling(self, name):
        """FunctionDef of another method of the class this method is defined in"""
        cls = self.globals.get(self.func.__qualname__.split(".")[0])
        m = inspect.unwrap(getattr(cls, name)) if cls is not None and hasattr(cls, name) else None
        if m is None or not inspect.isfunction(m):
            raise Unsupported("self.%s is not a plain method of %s" % (name, self.func.__qualname__.split(".")[0]))
        fd = ast.parse(textwrap.dedent(inspect.getsource(m))).body[0]
        if not isinstance(fd, ast.FunctionDef) or fd.decorator_list:
            raise Unsupported("self.%s is decorated" % name)
        return fd

    def bind2(self, l, r, fmt):
        a, b = self.fresh(), self.fresh()
        return "(%s <- %s ;; %s <- %s ;; %s)" % (a, l, b, r, fmt % (a, b))

    def expr(self, e):
        if isinstance(e, ast.Constant):
            v = e.value
            if v is True or v is False:
                return "Ok (VBool %s)" % str(v).lower()
            if v is None:
                return "Ok VNone"
            if isinstance(v, int):
                return "Ok (VInt (%d))" % v
            if isinstance(v, str):
                return "Ok (VStr %s)" % coqstr(v)
            raise Unsupported("constant %r" % (v,))
        if isinstance(e, ast.Name):
            if e.id in self.bound:
                return "Ok %s" % e.id
            if e.id in self.globals and isinstance(self.globals[e.id], (str, int)) and not isinstance(self.globals[e.id], bool):
                g = self.globals[e.id]
                return "Ok (VStr %s)" % coqstr(g) if isinstance(g, str) else "Ok (VInt (%d))" % g
            raise Unsupported("free name %s" % e.id)
        if isinstance(e, ast.Attribute):
            a = self.fresh()
            return "(%s <- %s ;; py_getattr %s %s)" % (a, self.expr(e.value), a, coqstr(e.attr))
        if isinstance(e, ast.Subscript):
            if isinstance(e.slice, ast.Slice):
                sl = e.slice
                if sl.lower is None and sl.upper is not None and sl.step is None:
                    return self.bind2(self.expr(e.value), self.expr(sl.upper), "py_slice_to %s %s")
                if sl.lower is not None and sl.upper is None and sl.step is None:
                    return self.bind2(self.expr(e.value), self.expr(sl.lower), "py_slice_from %s %s")
                raise Unsupported("slice " + ast.dump(sl)[:60])
            return self.bind2(self.expr(e.value), self.expr(e.slice), "py_getitem %s %s")
        if isinstance(e, ast.UnaryOp) and isinstance(e.op, ast.Not):
            a = self.fresh()
            return "(%s <- %s ;; py_not %s)" % (a, self.expr(e.operand), a)
        if isinstance(e, ast.UnaryOp) and isinstance(e.op, ast.USub) and isinstance(e.operand, ast.Constant) and isinstance(e.operand.value, int):
            return "Ok (VInt (-%d))" % e.operand.value
        if isinstance(e, ast.Compare) and len(e.ops) == 1:
            op, l, rnode = e.ops[0], self.expr(e.left), e.comparators[0]
            if isinstance(op, (ast.Is, ast.IsNot)) and isinstance(rnode, ast.Constant) and (rnode.value is True or rnode.value is False):
                a, b = self.fresh(), self.fresh()
                tst = "py_is_bool %s %s" % (a, str(rnode.value).lower())
                if isinstance(op, ast.Is):
                    return "(%s <- %s ;; %s)" % (a, l, tst)
                return "(%s <- %s ;; %s <- %s ;; py_not %s)" % (a, l, b, tst, b)
            if isinstance(op, (ast.Is, ast.IsNot)):
                if not (isinstance(rnode, ast.Constant) and rnode.value is None):
                    raise Unsupported("is <non-None>")
                a = self.fresh()
                if isinstance(op, ast.Is):
                    return "(%s <- %s ;; py_is_none %s)" % (a, l, a)
                b = self.fresh()
                return "(%s <- %s ;; %s <- py_is_none %s ;; py_not %s)" % (a, l, b, a, b)
            if isinstance(op, (ast.In, ast.NotIn)) and isinstance(rnode, ast.Name) and rnode.id == "self":
                # x in self: the class's own __contains__, translated from the source like any other method
                if "__contains__" not in self.methods:
                    raise Unsupported("`in self` without a translated __contains__")
                callee = self.sibling("__contains__")
                if len(callee.args.args) != 2 or callee.args.vararg or callee.args.kwonlyargs or callee.args.kwarg:
                    raise Unsupported("__contains__ signature")
                a, b = self.fresh(), self.fresh()
                if isinstance(op, ast.In):
                    return "(%s <- %s ;; %s self %s clock)" % (a, l, self.methods["__contains__"], a)
                return "(%s <- %s ;; %s <- %s self %s clock ;; py_not %s)" % (a, l, b, self.methods["__contains__"], a, b)
            r = self.expr(rnode)
            tbl = {ast.Lt: "py_cmp Z.ltb %s %s", ast.Gt: "py_cmp Z.gtb %s %s", ast.GtE: "py_cmp Z.geb %s %s",
                   ast.LtE: "py_cmp Z.leb %s %s", ast.Eq: "py_eq %s %s", ast.NotEq: "py_ne %s %s", ast.In: "py_in %s %s"}
            if type(op) is ast.NotIn:
                a, b, c = self.fresh(), self.fresh(), self.fresh()
                return "(%s <- %s ;; %s <- %s ;; %s <- py_in %s %s ;; py_not %s)" % (a, l, b, r, c, a, b, c)
            if type(op) not in tbl:
                raise Unsupported("comparison " + type(op).__name__)
            return self.bind2(l, r, tbl[type(op)])
        if isinstance(e, ast.BoolOp):
            vals = list(e.values)
            acc = self.expr(vals[-1])
            for v in reversed(vals[:-1]):
                a = self.fresh()
                if isinstance(e.op, ast.And):
                    acc = "(%s <- %s ;; if py_truthy %s then %s else Ok %s)" % (a, self.expr(v), a, acc, a)
                else:
                    acc = "(%s <- %s ;; if py_truthy %s then Ok %s else %s)" % (a, self.expr(v), a, a, acc)
            return acc
        if isinstance(e, ast.Call):
            return self.call(e)
        if isinstance(e, ast.List) and not any(isinstance(x, ast.Starred) for x in e.elts):
            names, binds = [], ""
            for x in e.elts:
                a = self.fresh()
                binds += "%s <- %s ;; " % (a, self.expr(x))
                names.append(a)
            return "(%sOk (VList [%s]))" % (binds, "; ".join(names))
        if isinstance(e, ast.ListComp):
            # [elt for x in e (if test)*]
            if len(e.generators) != 1:
                raise Unsupported("nested comprehension")
            g = e.generators[0]
            if not isinstance(g.target, ast.Name) or g.is_async:
                raise Unsupported("comprehension target")
            it, xs, r = self.fresh(), self.fresh(), self.fresh()
            src = self.expr(g.iter)
            x = g.target.id
            saved = set(self.bound)
            self.bound.add(x)
            test = self.expr(ast.BoolOp(op=ast.And(), values=list(g.ifs))) if len(g.ifs) > 1 else (
                self.expr(g.ifs[0]) if g.ifs else "Ok (VBool true)")
            elt = self.expr(e.elt)
            self.bound = saved
            return "(%s <- %s ;; %s <- py_iter %s ;; %s <- py_listcomp %s (fun %s => %s) (fun %s => %s) ;; Ok (VList %s))" % (
                it, src, xs, it, r, xs, x, test, x, elt, r)
        raise Unsupported(ast.dump(e)[:80])

    def call(self, e):
        f = e.func
        if isinstance(f, ast.Name) and f.id in self.clock_calls and not e.args:
            return "Ok clock"
        # <module-level dict of callables>[k](x): the table is an environment parameter G_<name> k x (what each entry
        # computes is not read here: for CC_METHOD it is classified behaviourally by gen_tables.py -> Gen/PkceTables.v)
        if isinstance(f, ast.Subscript) and isinstance(f.value, ast.Name) and f.value.id not in self.bound \
                and len(e.args) == 1 and not e.keywords and not isinstance(f.slice, ast.Slice):
            g = self.globals.get(f.value.id)
            if isinstance(g, dict) and g and all(isinstance(k, str) and callable(v) for k, v in g.items()):
                nm = "G_" + f.value.id
                self.extra[nm] = "pyval -> pyval -> res pyval"
                return self.bind2(self.expr(f.slice), self.expr(e.args[0]), nm + " %s %s")
            raise Unsupported("call through %s, which is not a module-level dict of callables" % f.value.id)
        if isinstance(f, ast.Name) and f.id in LIB_CALLS and f.id not in self.bound and len(e.args) == 1 and not e.keywords \
                and not isinstance(e.args[0], ast.Starred):
            g = self.globals.get(f.id)
            lib = getattr(importlib.import_module(LIB_CALLS[f.id]), f.id)
            if g is not lib:
                raise Unsupported("%s is not %s.%s here" % (f.id, LIB_CALLS[f.id], f.id))
            a = self.fresh()
            self.extra["E_" + f.id] = "pyval -> res pyval"
            return "(%s <- %s ;; E_%s %s)" % (a, self.expr(e.args[0]), f.id, a)
        # <namedtuple>._replace(field=value): a copy with that one field changed (PyOps.py_nt_replace)
        if isinstance(f, ast.Attribute) and f.attr == "_replace" and not e.args and len(e.keywords) == 1 \
                and e.keywords[0].arg is not None:
            return self.bind2(self.expr(f.value), self.expr(e.keywords[0].value),
                              "py_nt_replace %%s %s %%s" % coqstr(e.keywords[0].arg))
        if isinstance(f, ast.Name) and f.id == "list" and "list" not in self.bound and "list" not in self.globals \
                and len(e.args) == 1 and not e.keywords:
            a = self.fresh()
            return "(%s <- %s ;; py_list %s)" % (a, self.expr(e.args[0]), a)
        if isinstance(f, ast.Name) and f.id == "len" and "len" not in self.bound and "len" not in self.globals \
                and len(e.args) == 1 and not e.keywords:
            a = self.fresh()
            return "(%s <- %s ;; py_len %s)" % (a, self.expr(e.args[0]), a)
        if isinstance(f, ast.Name) and f.id == "int" and "int" not in self.bound and "int" not in self.globals \
                and len(e.args) == 1 and not e.keywords and not isinstance(e.args[0], ast.Starred):
            a = self.fresh()
            return "(%s <- %s ;; py_int_of %s)" % (a, self.expr(e.args[0]), a)
        if isinstance(f, ast.Attribute) and f.attr == "split" and len(e.args) == 2 and not e.keywords \
                and not any(isinstance(x, ast.Starred) for x in e.args):
            a, b, c = self.fresh(), self.fresh(), self.fresh()
            return "(%s <- %s ;; %s <- %s ;; %s <- %s ;; py_split_max %s %s %s)" % (
                a, self.expr(f.value), b, self.expr(e.args[0]), c, self.expr(e.args[1]), a, b, c)
        if isinstance(f, ast.Attribute) and f.attr == "split" and len(e.args) == 1 and not e.keywords:
            return self.bind2(self.expr(f.value), self.expr(e.args[0]), "py_split %s %s")
        if isinstance(f, ast.Attribute) and f.attr in ("items", "keys") and not e.args and not e.keywords:
            a = self.fresh()
            return "(%s <- %s ;; py_%s %s)" % (a, self.expr(f.value), f.attr, a)
        if isinstance(f, ast.Attribute):
            # self.method()
            if isinstance(f.value, ast.Name) and f.value.id == "self" and f.attr in self.methods and not e.args and not e.keywords:
                return "%s self clock" % self.methods[f.attr]
            # self.<translated method>(a1, .., an): positional arguments only, exactly the callee's parameters
            if isinstance(f.value, ast.Name) and f.value.id == "self" and f.attr in self.methods and not e.keywords:
                callee = self.sibling(f.attr)
                cargs = callee.args
                if cargs.vararg or cargs.kwonlyargs or cargs.kwarg or len(cargs.args) - 1 != len(e.args) \
                        or any(isinstance(a, ast.Starred) for a in e.args):
                    raise Unsupported("call of self.%s with other than exactly its positional parameters" % f.attr)
                names, binds = [], ""
                for x in e.args:
                    a = self.fresh()
                    binds += "%s <- %s ;; " % (a, self.expr(x))
                    names.append(a)
                return "(%s%s self %s clock)" % (binds, self.methods[f.attr], " ".join(names))
            # <obj>.<environment function>("c1", .., "cn"): the injected object carries the function's graph on the
            # constant arguments the code passes (PyOps.py_call_env)
            if f.attr in ENV_CALLS and e.args and not e.keywords \
                    and all(isinstance(a, ast.Constant) and isinstance(a.value, str) for a in e.args):
                a = self.fresh()
                return "(%s <- %s ;; py_call_env %s %s [%s])" % (a, self.expr(f.value), a, coqstr(f.attr),
                                                                 "; ".join(coqstr(x.value) for x in e.args))
            if f.attr == "get" and len(e.args) in (1, 2) and not e.keywords:
                a, b, c = self.fresh(), self.fresh(), self.fresh()
                d = self.expr(e.args[1]) if len(e.args) == 2 else "Ok VNone"
                return "(%s <- %s ;; %s <- %s ;; %s <- %s ;; py_dict_get %s %s %s)" % (a, self.expr(f.value), b, self.expr(e.args[0]), c, d, a, b, c)
            if f.attr == "endswith" and len(e.args) == 1:
                return self.bind2(self.expr(f.value), self.expr(e.args[0]), "py_endswith %s %s")
            if f.attr == "join" and len(e.args) == 1:
                return self.bind2(self.expr(f.value), self.expr(e.args[0]), "py_join %s %s")
            if f.attr == "format" and isinstance(f.value, ast.Constant) and isinstance(f.value.value, str) \
                    and e.args and not e.keywords and not any(isinstance(x, ast.Starred) for x in e.args):
                # only bare `{}` placeholders, as many as arguments; literal text between them is kept
                import string
                try:
                    segs = list(string.Formatter().parse(f.value.value))
                except ValueError as ex:
                    raise Unsupported("format string: %s" % ex)
                fields = [sg for sg in segs if sg[1] is not None]
                if len(fields) != len(e.args) or any(sg[1] != "" or sg[2] != "" or sg[3] is not None for sg in fields):
                    raise Unsupported("format string %r" % f.value.value)
                names, binds = [], ""
                for x in e.args:
                    a = self.fresh()
                    binds += "%s <- %s ;; " % (a, self.expr(x))
                    names.append(a)
                parts, i = [], 0
                for lit, fld, _, _ in segs:
                    if lit:
                        parts.append("VStr %s" % coqstr(lit))
                    if fld is not None:
                        parts.append(names[i])
                        i += 1
                s = self.fresh()
                return "(%s%s <- py_format_concat [%s] ;; Ok (VStr %s))" % (binds, s, "; ".join(parts), s)
            # hashlib.<alg>(X.encode(...)).hexdigest()  ->  the abstract hash H applied to X
            if f.attr == "hexdigest" and not e.args and isinstance(f.value, ast.Call):
                h = f.value
                if isinstance(h.func, ast.Attribute) and isinstance(h.func.value, ast.Name) and h.func.value.id == "hashlib" and len(h.args) == 1:
                    x = h.args[0]
                    if isinstance(x, ast.Call) and isinstance(x.func, ast.Attribute) and x.func.attr == "encode":
                        inner = x.func.value
                        if isinstance(inner, ast.Tuple) or isinstance(inner, ast.BinOp):
                            raise Unsupported("hash argument shape")
                        a, s = self.fresh(), self.fresh()
                        self.extra["H"] = "pystr -> pystr -> pystr"
                        return "(%s <- %s ;; %s <- py_str %s ;; Ok (VStr (H %s %s)))" % (a, self.expr(inner), s, a, coqstr(h.func.attr), s)
        raise Unsupported("call " + ast.dump(e)[:90])

    def is_draw(self, e):
        return (isinstance(e, ast.Call) and isinstance(e.func, ast.Name) and e.func.id in DRAW_CALLS
                and e.func.id not in self.bound and callable(self.globals.get(e.func.id)) and not e.keywords
                and all(isinstance(a, ast.Constant) or (isinstance(a, ast.Name) and a.id in self.bound) for a in e.args))

    def draws_now(self, advance=True):
        if self.cursor_dead or self.loop is not None:
            raise Unsupported("random draw after a conditional draw or inside a loop body")
        self.extra["draws"] = "list pyval"
        cur = "draws" if self.cursor == 0 else "draws%d" % self.cursor
        self.cursor += 1
        return cur, "draws%d" % self.cursor

    def assigned_names(self, stmts):
        """every name a statement list may (re)bind: plain and tuple assignment targets, and lists changed by append"""
        out = set()
        for st in stmts:
            for n in ast.walk(st):
                if isinstance(n, ast.Assign):
                    for t in n.targets:
                        if isinstance(t, ast.Name):
                            out.add(t.id)
                        elif isinstance(t, ast.Tuple):
                            out |= {x.id for x in t.elts if isinstance(x, ast.Name)}
                if self.is_append(n):
                    out.add(n.func.value.id)
        return out

    def while_general(self, s, rest, k):
        """while test: <body>   with continue, break, return, raise in the body; the variables carried from one iteration
        to the next (assigned in the body, bound before the loop) are the loop state, a list in sorted order.
        -> PyOps.py_while on the parameter `fuel`."""
        if s.orelse:
            raise Unsupported("while ... else")
        if self.loop is not None:
            raise Unsupported("nested loop")
        for n in ast.walk(s):
            if n is not s and isinstance(n, (ast.For, ast.While, ast.AsyncFor)):
                raise Unsupported("nested loop")
        if "fuel" in self.extra:
            raise Unsupported("a second while loop (one fuel parameter per function)")
        assigned = self.assigned_names(s.body)
        later = {n.id for st in rest for n in ast.walk(st) if isinstance(n, ast.Name)}
        leaked = sorted(v for v in assigned if v not in self.bound and v in later)
        if leaked:
            raise Unsupported("name %s first bound inside a loop and used after it" % leaked)
        carried = sorted(v for v in assigned if v in self.bound)
        self.extra["fuel"] = "nat"
        st, r, v = self.fresh(), self.fresh(), self.fresh()
        lets = "".join("let %s := nth %d %s VNone in " % (nm, i, st) for i, nm in enumerate(carried))
        state = "[%s]" % "; ".join(carried)
        saved, saved_fresh = set(self.bound), set(self.fresh_lists)
        test = self.expr(s.test)
        self.loop, self.loop_ctor = state, "W"
        body = self.block(s.body, "Ok (WNext %s)" % state)
        self.loop, self.loop_ctor = None, "L"
        self.bound = saved
        self.fresh_lists = saved_fresh & self.fresh_lists
        cont = self.block(rest, k)
        return ("(%s <- py_while fuel (fun %s => %s%s)\n (fun %s => %s%s) %s ;;\n match %s with inl %s => %s%s | inr %s => Ok %s end)"
                % (r, st, lets, test, st, lets, body, state, r, st, lets, cont, v, v))

    def for_general(self, s, rest, k):
        """for x in e: <body> / for a, b in e: <body>   with continue, break, return, raise in the body and at most ONE
        variable carried from one iteration to the next (assigned in the body, bound before the loop).
        -> PyOps.py_for: the body maps (element, carried value) to LNext / LBreak / LReturn."""
        if s.orelse:
            raise Unsupported("for ... else")
        if self.loop is not None:
            raise Unsupported("nested loop")
        for n in ast.walk(s):
            if n is not s and isinstance(n, (ast.For, ast.While, ast.AsyncFor)):
                raise Unsupported("nested loop")
        if isinstance(s.target, ast.Name):
            names = [s.target.id]
        elif isinstance(s.target, ast.Tuple) and all(isinstance(t, ast.Name) for t in s.target.elts):
            names = [t.id for t in s.target.elts]
        else:
            raise Unsupported("loop target")
        if len(set(names)) != len(names) or set(names) & self.bound:
            raise Unsupported("loop target re-uses a bound name")
        assigned = self.assigned_names(s.body)
        if assigned & set(names):
            raise Unsupported("loop target assigned in the body")
        later = {n.id for st in rest for n in ast.walk(st) if isinstance(n, ast.Name)}
        leaked = sorted(v for v in (assigned | set(names)) if v not in self.bound and v in later)
        if leaked:
            raise Unsupported("name %s first bound inside a loop and used after it" % leaked)
        carried = sorted(v for v in assigned if v in self.bound)
        if len(carried) > 1:
            raise Unsupported("several variables carried through a loop")
        st = carried[0] if carried else "st_"
        it, xs, x, r, l, v = self.fresh(), self.fresh(), self.fresh(), self.fresh(), self.fresh(), self.fresh()
        iter_expr = self.expr(s.iter)
        saved = set(self.bound)
        self.bound |= set(names)
        self.loop = st
        body = self.block(s.body, "Ok (LNext %s)" % st)
        self.loop = None
        self.bound = saved
        if len(names) == 1 and isinstance(s.target, ast.Name):
            fn = "fun %s %s => %s" % (names[0], st, body)
        else:
            lets = "".join("let %s := nth %d %s VNone in " % (nm, i, l) for i, nm in enumerate(names))
            fn = "fun %s %s => (%s <- py_unpack %s %d ;; %s%s)" % (x, st, l, x, len(names), lets, body)
        cont = self.block(rest, k)
        return "(%s <- %s ;; %s <- py_iter %s ;; %s <- py_for %s (%s) %s ;;\n match %s with inl %s => %s | inr %s => Ok %s end)" % (
            it, iter_expr, xs, it, r, xs, fn, st if carried else "VNone", r, st, cont, v, v)

    def is_append(self, e):
        return (isinstance(e, ast.Call) and isinstance(e.func, ast.Attribute) and e.func.attr == "append"
                and isinstance(e.func.value, ast.Name) and e.func.value.id in self.fresh_lists
                and e.func.value.id in self.bound and len(e.args) == 1 and not e.keywords
                and not isinstance(e.args[0], ast.Starred))

    def is_log_call(self, e):
        """<module-level logging.Logger>.debug/info/warning/error(<constants or bound names>): no effect on the result
        (the logging module swallows formatting errors); anything else in statement position is unsupported"""
        import logging
        return (isinstance(e, ast.Call) and isinstance(e.func, ast.Attribute) and isinstance(e.func.value, ast.Name)
                and e.func.value.id not in self.bound and isinstance(self.globals.get(e.func.value.id), logging.Logger)
                and e.func.attr in ("debug", "info", "warning", "error") and not e.keywords
                and all(isinstance(a, ast.Constant) or (isinstance(a, ast.Name) and a.id in self.bound) for a in e.args))

    # statement list -> coq term (res pyval); falling off the end returns None
    def block(self, stmts, k="Ok VNone"):
        if not stmts:
            return k
        s, rest = stmts[0], stmts[1:]
        if isinstance(s, ast.Expr) and isinstance(s.value, ast.Constant):
            return self.block(rest, k)      # docstring
        if isinstance(s, ast.Pass):
            return self.block(rest, k)
        if isinstance(s, ast.Expr) and self.is_log_call(s.value):
            return self.block(rest, k)
        if isinstance(s, ast.Return):
            val = self.expr(s.value) if s.value is not None else "Ok VNone"
            if self.loop is not None:
                a = self.fresh()
                return "(%s <- %s ;; Ok (%sReturn %s))" % (a, val, self.loop_ctor, a)
            return val
        if isinstance(s, (ast.Continue, ast.Break)):
            if self.loop is None:
                raise Unsupported("continue/break outside a translated loop")
            return "Ok (%s%s %s)" % (self.loop_ctor, "Next" if isinstance(s, ast.Continue) else "Break", self.loop)
        if isinstance(s, ast.Raise):
            exc = s.exc
            name = exc.func.id if isinstance(exc, ast.Call) and isinstance(exc.func, ast.Name) else (exc.id if isinstance(exc, ast.Name) else None)
            if name not in EXC:
                raise Unsupported("raise %s" % name)
            return "Err %s" % EXC[name]
        if isinstance(s, ast.Expr) and self.is_append(s.value):
            # x.append(e) on a list created in this function and never aliased:  x = x + [e]
            x = s.value.func.value.id
            a = self.fresh()
            return "(%s <- %s ;; %s <- py_append %s %s ;;\n %s)" % (a, self.expr(s.value.args[0]), x, x, a, self.block(rest, k))
        if isinstance(s, ast.Assign) and len(s.targets) == 1 and isinstance(s.targets[0], ast.Name) and self.is_draw(s.value):
            # x = rndstr(..): the next element of the supply
            cur, nxt = self.draws_now()
            x, p = s.targets[0].id, self.fresh()
            self.bound.add(x)
            self.fresh_lists.discard(x)
            return "(%s <- py_draw %s ;; let %s := fst %s in let %s := snd %s in\n %s)" % (p, cur, x, p, nxt, p, self.block(rest, k))
        if isinstance(s, ast.While):
            # while test(x): x = rndstr(..)   — no bound in the source; the translation recurses on the supply
            if (not s.orelse and len(s.body) == 1 and isinstance(s.body[0], ast.Assign) and len(s.body[0].targets) == 1
                    and isinstance(s.body[0].targets[0], ast.Name) and s.body[0].targets[0].id in self.bound
                    and self.is_draw(s.body[0].value)):
                x, p = s.body[0].targets[0].id, self.fresh()
                test = self.expr(s.test)
                cur, nxt = self.draws_now()
                return "(%s <- py_redraw (fun %s => %s) %s %s ;; let %s := fst %s in let %s := snd %s in\n %s)" % (
                    p, x, test, x, cur, x, p, nxt, p, self.block(rest, k))
            return self.while_general(s, rest, k)
        if isinstance(s, ast.Assign) and len(s.targets) == 1 and isinstance(s.targets[0], ast.Tuple) \
                and all(isinstance(t, ast.Name) for t in s.targets[0].elts) and not self.is_draw(s.value):
            # a, b = e : e must be a sequence of exactly that many elements (ValueError otherwise)
            names = [t.id for t in s.targets[0].elts]
            if len(set(names)) != len(names):
                raise Unsupported("tuple target repeats a name")
            rhs = self.expr(s.value)
            for nm in names:
                self.fresh_lists.discard(nm)
            if isinstance(s.value, ast.Name):
                self.fresh_lists.discard(s.value.id)
            x, l = self.fresh(), self.fresh()
            self.bound |= set(names)
            lets = "".join("let %s := nth %d %s VNone in " % (nm, i, l) for i, nm in enumerate(names))
            return "(%s <- %s ;; %s <- py_unpack %s %d ;; %s\n %s)" % (x, rhs, l, x, len(names), lets, self.block(rest, k))
        if isinstance(s, ast.Assign) and len(s.targets) == 1 and isinstance(s.targets[0], ast.Name):
            rhs = self.expr(s.value)
            if isinstance(s.value, ast.Name):
                self.fresh_lists.discard(s.value.id)          # alias
            if isinstance(s.value, ast.List) and self.loop is None:
                self.fresh_lists.add(s.targets[0].id)
            else:
                self.fresh_lists.discard(s.targets[0].id)
            self.bound.add(s.targets[0].id)
            return "(%s <- %s ;;\n %s)" % (s.targets[0].id, rhs, self.block(rest, k))
        if isinstance(s, ast.For):
            # for x in e: if test: raise E
            if (isinstance(s.target, ast.Name) and not s.orelse and len(s.body) == 1 and isinstance(s.body[0], ast.If)
                    and not s.body[0].orelse and len(s.body[0].body) == 1 and isinstance(s.body[0].body[0], ast.Raise)):
                x = s.target.id
                it = self.fresh()
                saved = set(self.bound)
                self.bound.add(x)
                test = self.expr(s.body[0].test)
                exc = self.block([s.body[0].body[0]])
                self.bound = saved
                xs = self.fresh()
                return "(%s <- %s ;; %s <- py_iter %s ;; _ <- py_for_raise %s (fun %s => %s) %s ;;\n %s)" % (
                    it, self.expr(s.iter), xs, it, xs, x, test, exc[len("Err "):], self.block(rest, k))
            return self.for_general(s, rest, k)
        if isinstance(s, ast.If):
            c = self.fresh()
            test = self.expr(s.test)
            assigned = self.assigned_names([s])
            later = {n.id for st in rest for n in ast.walk(st) if isinstance(n, ast.Name)}
            join = sorted(v for v in assigned if v in later or v in self.bound)
            join = [v for v in join if v in self.bound]      # only re-assignments of already bound names flow through
            new_needed = [v for v in assigned if v not in self.bound and v in later]
            if new_needed:
                raise Unsupported("name %s first bound inside a branch and used after it" % new_needed)
            if len(join) > 1:
                raise Unsupported("several names re-assigned in one if")
            saved = set(self.bound)
            self.n += 1
            kn = "k%d" % self.n
            cur0 = self.cursor
            if join:
                v = join[0]
                body = self.block(s.body, "%s %s" % (kn, v))
                self.bound = set(saved)
                cur1, self.cursor = self.cursor, cur0
                orelse = self.block(s.orelse, "%s %s" % (kn, v))
                self.bound = set(saved)
                if cur1 != cur0 or self.cursor != cur0:
                    self.cursor_dead = True
                cont = self.block(rest, k)
                return "(let %s := (fun %s => %s) in\n %s <- %s ;;\n if py_truthy %s then %s else %s)" % (kn, v, cont, c, test, c, body, orelse)
            body = self.block(s.body, "%s tt" % kn)
            self.bound = set(saved)
            cur1, self.cursor = self.cursor, cur0
            orelse = self.block(s.orelse, "%s tt" % kn)
            self.bound = set(saved)
            if cur1 != cur0 or self.cursor != cur0:
                self.cursor_dead = True
            cont = self.block(rest, k)
            return "(let %s := (fun _ : unit => %s) in\n %s <- %s ;;\n if py_truthy %s then %s else %s)" % (kn, cont, c, test, c, body, orelse)
        raise Unsupported(ast.dump(s)[:80])


def translate(func, coqname, methods, varargs_as_list=True):
    src = textwrap.dedent(inspect.getsource(func))
    fd = ast.parse(src).body[0]
    while not isinstance(fd, ast.FunctionDef):
        fd = fd.body[0]
    if any(isinstance(d, ast.Name) and d.id == "staticmethod" for d in fd.decorator_list):
        pass
    t = T(func, methods)
    params = [a.arg for a in fd.args.args]
    if fd.args.vararg is not None:
        params.append(fd.args.vararg.arg)
    # keyword-only / **kwargs parameters must not be read by the body
    ignored = set(a.arg for a in fd.args.kwonlyargs) | ({fd.args.kwarg.arg} if fd.args.kwarg else set())
    for n in ast.walk(fd):
        if isinstance(n, ast.Name) and n.id in ignored:
            raise Unsupported("reads **%s" % n.id)
    t.bound = set(params)
    # identifiers of the source become Gallina binders: none may capture a name the emitted code itself uses.
    # A parameter / local that spells a reserved word is renamed <name>_py everywhere in the function (it is local, so
    # it never denotes a global); every other collision is refused.
    every = {n.id for n in ast.walk(fd) if isinstance(n, ast.Name)} | {a.arg for a in ast.walk(fd) if isinstance(a, ast.arg)}
    local = set(params) | {n.id for n in ast.walk(fd) if isinstance(n, ast.Name) and isinstance(n.ctx, ast.Store)}
    for n in ast.walk(fd):
        if isinstance(n, (ast.Global, ast.Nonlocal, ast.Lambda, ast.FunctionDef, ast.ClassDef, ast.NamedExpr)) and n is not fd:
            raise Unsupported("global / nonlocal / nested scope / walrus")
    renamed = {}
    for ident in sorted(local):
        if re.match(r"^(t|k|draws)\d+$|^(py_|G_|E_)", ident) or ident == "fuel":
            raise Unsupported("identifier %s collides with a name of the emitted Gallina" % ident)
        if ident in COQ_RESERVED:
            new = ident + "_py"
            if new in every or new in COQ_RESERVED:
                raise Unsupported("identifier %s collides with a name of the emitted Gallina (and %s is taken)" % (ident, new))
            renamed[ident] = new
    if renamed:
        for n in ast.walk(fd):
            if isinstance(n, ast.Name) and n.id in renamed:
                n.id = renamed[n.id]
            if isinstance(n, ast.arg) and n.arg in renamed:
                n.arg = renamed[n.arg]
        params = [renamed.get(x, x) for x in params]
        t.bound = set(params)
    body = t.block(fd.body)
    args = " ".join("(%s : pyval)" % p for p in params)
    extra = "".join("(%s : %s) " % (n, t.extra[n]) for n in sorted(t.extra))
    hdr = "Definition %s %s%s (clock : pyval) : res pyval :=\n %s.\n" % (coqname, extra, args, body)
    return hdr


# (group file, coq name, "module:qualname", methods map)
TARGETS = [
    ("Src_token", "Item_max_usage_reached_src", "idpyoidc.server.session.token:Item.max_usage_reached", {}),
    ("Src_token", "Item_is_active_src", "idpyoidc.server.session.token:Item.is_active", {"max_usage_reached": "Item_max_usage_reached_src"}),
    ("Src_token", "SessionToken_supports_minting_src", "idpyoidc.server.session.token:SessionToken.supports_minting", {}),
    ("Src_token", "is_expired_src", "idpyoidc.server.token:is_expired", {}),
    ("Src_token", "valid_client_secret_src", "idpyoidc.server.client_authn:valid_client_secret", {}),
    ("Src_db", "branch_key_src", "idpyoidc.server.session.database:Database.branch_key", {}),
    ("Src_db", "unpack_branch_key_src", "idpyoidc.server.session.database:Database.unpack_branch_key", {}),
    ("Src_db", "lv_pack_src", "idpyoidc.server.util:lv_pack", {}),
    ("Src_lv", "lv_unpack_src", "idpyoidc.server.util:lv_unpack", {}),
    ("Src_sub", "public_id_src", "idpyoidc.server.session.manager:public_id", {}),
    ("Src_sub", "pairwise_id_src", "idpyoidc.server.session.manager:pairwise_id", {}),
    ("Src_scopes", "Scopes_get_allowed_scopes_src", "idpyoidc.server.scopes:Scopes.get_allowed_scopes", {}),
    ("Src_scopes", "Scopes_filter_scopes_src", "idpyoidc.server.scopes:Scopes.filter_scopes", {"get_allowed_scopes": "Scopes_get_allowed_scopes_src"}),
    ("Src_msg", "Message_contains_src", "idpyoidc.message:Message.__contains__", {}),
    ("Src_msg", "Message_has_none_or_one_of_src", "idpyoidc.message:Message.has_none_or_one_of",
     {"__contains__": "Message_contains_src"}),
    ("Src_claims", "claims_match_src", "idpyoidc.server.session.claims:claims_match", {}),
    ("Src_uri", "split_uri_src", "idpyoidc.util:split_uri", {}),
    ("Src_reg", "random_client_id_src", "idpyoidc.server.oidc.registration:random_client_id", {}),
    ("Src_pkce", "verify_code_challenge_src", "idpyoidc.server.oauth2.add_on.pkce:verify_code_challenge", {}),
    # twelfth round: small decision helpers the hand-written models restate
    ("Src_authz", "is_localhost_uri_src", "idpyoidc.server.oauth2.authorization:is_localhost_uri", {}),
    ("Src_authz", "fragment_encoding_src", "idpyoidc.server.endpoint:fragment_encoding", {}),
    ("Src_authn", "AuthnEvent_is_valid_src", "idpyoidc.server.authn_event:AuthnEvent.is_valid", {}),
    ("Src_current", "Current_get_src", "idpyoidc.client.current:Current.get", {}),
    ("Src_current", "is_error_message_src", "idpyoidc.message.oauth2:is_error_message", {}),
    ("Src_grant", "find_token_src", "idpyoidc.server.session.grant:find_token", {}),
    ("Src_grant", "Grant_get_token_src", "idpyoidc.server.session.grant:Grant.get_token", {}),
    ("Src_grant_last", "Grant_last_issued_token_of_type_src", "idpyoidc.server.session.grant:Grant.last_issued_token_of_type", {}),
]


def resolve(spec):
    mod, qual = spec.split(":")
    obj = importlib.import_module(mod)
    for part in qual.split("."):
        obj = getattr(obj, part)
    return inspect.unwrap(obj) if callable(obj) else obj


def main(outdir):
    groups = {}
    for group, coqname, spec, methods in TARGETS:
        try:
            func = resolve(spec)
            if isinstance(func, staticmethod):
                func = func.__func__
            groups.setdefault(group, []).append(translate(func, coqname, methods))
        except Unsupported as e:
            print("BROKEN-TRANSLATION: [Gen/%s.v] %s (%s): construct outside the translated subset: %s" % (group, coqname, spec, e))
        except Exception as e:
            print("BROKEN-TRANSLATION: [Gen/%s.v] %s (%s): %s: %s" % (group, coqname, spec, type(e).__name__, e))
    # a group none of whose functions translates leaves no file behind (a stale one would keep old proofs alive)
    for group in {t[0] for t in TARGETS} - set(groups):
        for ext in (".v", ".vo", ".vos", ".vok", ".glob"):
            try:
                os.remove(os.path.join(outdir, group + ext))
            except OSError:
                pass
    for group, defs in groups.items():
        hdr = ("(* GENERATED by harness/py2v.py from the current /repo/src on every run — do not edit. *)\n"
               "From Coq Require Import String ZArith List.\nFrom Verif Require Import Lib.Base Lib.PyStr Lib.PyOps.\n"
               "Import ListNotations.\nOpen Scope string_scope.\nOpen Scope Z_scope.\n\n")
        path = os.path.join(outdir, group + ".v")
        text = hdr + "\n".join(defs)
        old = open(path).read() if os.path.exists(path) else None
        if old != text:         # unchanged source: leave the file (and make's timestamps) alone
            tmp = path + ".tmp%d" % os.getpid()
            with open(tmp, "w") as f:
                f.write(text)
            os.replace(tmp, path)
    print("py2v: %d functions translated into %d files" % (sum(len(v) for v in groups.values()), len(groups)))


if __name__ == "__main__":
    main(sys.argv[1])
