"""Shared harness helper for C08 (ID Token validation at the RP) and C09 (state / nonce / issuer binding).

Builds real StandAloneClient / RPHandler instances whose HTTP client is a scripted fake provider, a key
universe (issuer keys, a second registered issuer, unregistered foreign keys, shared secrets) and a JWS
minting routine with full control over header, claims, signing key and signature bytes.
Nothing here reads or writes /repo; keys live in memory only.
"""
import base64
import copy
import hashlib
import json

from cryptojwt.jwk.ec import new_ec_key
from cryptojwt.jwk.hmac import SYMKey
from cryptojwt.jwk.rsa import new_rsa_key
from cryptojwt.jws.jws import SIGNER_ALGS
from cryptojwt.key_bundle import KeyBundle
from cryptojwt.key_jar import KeyJar

ISS = "https://op.example.com"
ISS2 = "https://other.example.org"
ISS3 = "https://third.example.net"
CLIENT_ID = "Number5"
SECRET = "asdflkjh0987654321asdflkjh0987654321"
OTHER_SECRET = "zzzzzzzzzzzzzzzzzzzzzzzzzzzzzzzzzzzzzz"

# symbolic key numbers used by the Gallina model (Lib/Crypto.v Key n)
KEYNUM = {"iss_rsa1": 0, "iss_rsa2": 1, "iss_ec": 2, "iss2_rsa": 3, "foreign_rsa": 4, "foreign_ec": 5,
          "secret": 6, "pub_as_hmac": 7, "other_secret": 8, "iss2_ec": 9, "iss3_rsa": 10}

_KEYS = None


def b64u(b):
    return base64.urlsafe_b64encode(b).rstrip(b"=").decode()


def keys():
    """The key universe (generated once per process)."""
    global _KEYS
    if _KEYS is None:
        k = {
            "iss_rsa1": new_rsa_key(kid="r1", use="sig"),
            "iss_rsa2": new_rsa_key(kid="r2", use="sig"),
            "iss_ec": new_ec_key("P-256", kid="e1", use="sig"),
            "iss2_rsa": new_rsa_key(kid="o1", use="sig"),
            "iss2_ec": new_ec_key("P-256", kid="oe1", use="sig"),
            "iss3_rsa": new_rsa_key(kid="t1", use="sig"),
            "foreign_rsa": new_rsa_key(kid="r1", use="sig"),      # same kid as a registered key, different key
            "foreign_ec": new_ec_key("P-256", kid="e1", use="sig"),
        }
        k["secret"] = SYMKey(key=SECRET, use="sig")
        k["other_secret"] = SYMKey(key=OTHER_SECRET, use="sig")
        pem = k["iss_rsa1"].public_key().public_bytes(
            __import__("cryptography").hazmat.primitives.serialization.Encoding.PEM,
            __import__("cryptography").hazmat.primitives.serialization.PublicFormat.SubjectPublicKeyInfo)
        k["pub_as_hmac"] = SYMKey(key=pem, use="sig")
        _KEYS = k
    return _KEYS


ISSUER_KEYS = {ISS: ["iss_rsa1", "iss_rsa2", "iss_ec"], ISS2: ["iss2_rsa", "iss2_ec"], ISS3: ["iss3_rsa"]}


def public_jwks(names):
    return {"keys": [keys()[n].serialize(private=False) for n in names]}


def load_issuer_keys(keyjar, issuers=(ISS, ISS2)):
    for iss in issuers:
        keyjar.import_jwks(public_jwks(ISSUER_KEYS[iss]), iss)
    return keyjar


def left_hash_ref(msg, bits):
    """Independent reference for c_hash / at_hash (OIDC Core 3.3.2.11): left half of SHA-<bits>."""
    h = {256: hashlib.sha256, 384: hashlib.sha384, 512: hashlib.sha512}[bits](msg.encode()).digest()
    return b64u(h[:len(h) // 2])


def mint(alg, signer, claims, kid=None, sig_fault=None, extra_header=None):
    """Compact JWS with exactly the given header fields and JSON claims.
    signer: name in keys() or None (no signature part). sig_fault: None | 'flip' | 'empty'."""
    hdr = {"alg": alg}
    if kid is not None:
        hdr["kid"] = kid
    if extra_header:
        hdr.update(extra_header)
    inp = b64u(json.dumps(hdr).encode()) + "." + b64u(json.dumps(claims).encode())
    sig = b""
    if signer is not None and alg in SIGNER_ALGS and SIGNER_ALGS[alg] is not None:
        key = keys()[signer]
        s = SIGNER_ALGS[alg]
        if isinstance(key, SYMKey):
            sig = s.sign(inp.encode(), key.key)
        else:
            sig = s.sign(inp.encode(), key.private_key())
    if sig_fault == "flip" and sig:
        sig = bytes([sig[0] ^ 1]) + sig[1:]
    elif sig_fault == "empty":
        sig = b""
    return inp + "." + b64u(sig)


class FakeResponse:
    def __init__(self, status, text, ctype="application/json", url=""):
        self.status_code = status
        self.text = text
        self.headers = {"content-type": ctype}
        self.url = url

    def json(self):
        return json.loads(self.text)


class FakeOP:
    """Scripted provider: the next response for each endpoint is set by the driver."""

    def __init__(self):
        self.next = {}
        self.calls = []

    def script(self, endpoint, body, status=200, ctype="application/json"):
        self.next[endpoint] = (status, body if isinstance(body, str) else json.dumps(body), ctype)

    def __call__(self, method, url, data=None, headers=None, **kw):
        self.calls.append((method, url, data, headers))
        for ep, (status, text, ctype) in self.next.items():
            if url.startswith(ep) or url.split("?")[0].endswith(ep):
                return FakeResponse(status, text, ctype, url)
        return FakeResponse(404, json.dumps({"error": "not_scripted"}), url=url)


def client_config(issuer=ISS, client_id=CLIENT_ID, sigalg=None, allow_none=False, skew=0, allow_missing_kid=False,
                  response_types=None, extra=None):
    conf = {
        "base_url": "https://rp.example.com/cli/",
        "client_id": client_id,
        "client_type": "oidc",
        "client_secret": SECRET,
        "clock_skew": skew,
        "provider_info": {
            "issuer": issuer,
            "authorization_endpoint": issuer + "/authn",
            "token_endpoint": issuer + "/token",
            "userinfo_endpoint": issuer + "/user",
        },
    }
    if sigalg is not None:
        conf["id_token_signed_response_alg"] = sigalg
    if allow_missing_kid:
        conf["allow"] = {"missing_kid": True}
    if response_types:
        conf["response_types_supported"] = response_types
    if extra:
        conf.update(extra)
    return conf


def make_client(issuer=ISS, client_id=CLIENT_ID, sigalg=None, reg="static", allow_none=False, skew=0,
                allow_missing_kid=False, known_issuers=(ISS, ISS2), response_types=None, extra=None):
    """A real StandAloneClient, statically configured, talking to a FakeOP."""
    from idpyoidc.client.oauth2.stand_alone_client import StandAloneClient
    op = FakeOP()
    conf = client_config(issuer, client_id, sigalg if reg == "static" else None, allow_none, skew, allow_missing_kid,
                         response_types, extra)
    client = StandAloneClient(config=conf, httpc=op, httpc_params={})
    client.do_provider_info()
    client.do_client_registration()
    ctx = client.get_context()
    if allow_none:
        ctx.claims.set_usage("verify_args", {"allow_sign_alg_none": True})
    if reg == "dynamic":
        # what a dynamic registration leaves behind: the registration response is kept on the context
        rr = {"client_id": client_id, "client_secret": SECRET}
        if sigalg is not None:
            rr["id_token_signed_response_alg"] = sigalg
        ctx.registration_response = rr
    load_issuer_keys(client.get_attribute("keyjar"), known_issuers)
    client.fake_op = op
    return client


def snapshot(client):
    cs = client.get_context().cstate
    return copy.deepcopy(cs._db), copy.deepcopy(cs._map)


def exc_name(e):
    return type(e).__name__
