"""Shared harness helper for C08 (ID Token validation at the RP) and C09 (state / nonce / issuer binding).

Builds real StandAloneClient / RPHandler instances whose HTTP client is a scripted fake provider, a key
universe (issuer keys, a second registered issuer, unregistered foreign keys, shared secrets) and a JWS
minting routine with full control over header, claims, signing key and signature bytes.
Nothing here reads or writes /repo; keys live in memory only.
"""
import base64
import copy
import hashlib
import json

from cryptojwt.jwk.ec import new_ec_key
from cryptojwt.jwk.hmac import SYMKey
from cryptojwt.jwk.rsa import new_rsa_key
from cryptojwt.jws.jws import SIGNER_ALGS
from cryptojwt.key_bundle import KeyBundle
from cryptojwt.key_jar import KeyJar

ISS = "https://op.example.com"
ISS2 = "https://other.example.org"
ISS3 = "https://third.example.net"
CLIENT_ID = "Number5"
SECRET = "asdflkjh0987654321asdflkjh0987654321"
OTHER_SECRET = "zzzzzzzzzzzzzzzzzzzzzzzzzzzzzzzzzzzzzz"

# symbolic key numbers used by the Gallina model (Lib/Crypto.v Key n)
KEYNUM = {"iss_rsa1": 0, "iss_rsa2": 1, "iss_ec": 2, "iss2_rsa": 3, "foreign_rsa": 4, "foreign_ec": 5,
          "secret": 6, "pub_as_hmac": 7, "other_secret": 8, "iss2_ec": 9, "iss3_rsa": 10,
          "rp_enc": 11, "foreign_enc": 12}

_KEYS = None


def b64u(b):
    return base64.urlsafe_b64encode(b).rstrip(b"=").decode()


def keys():
    """The key universe (generated once per process)."""
    global _KEYS
    if _KEYS is None:
        k = {
            "iss_rsa1": new_rsa_key(kid="r1", use="sig"),
            "iss_rsa2": new_rsa_key(kid="r2", use="sig"),
            "iss_ec": new_ec_key("P-256", kid="e1", use="sig"),
            "iss2_rsa": new_rsa_key(kid="o1", use="sig"),
            "iss2_ec": new_ec_key("P-256", kid="oe1", use="sig"),
            "iss3_rsa": new_rsa_key(kid="t1", use="sig"),
            "foreign_rsa": new_rsa_key(kid="r1", use="sig"),      # same kid as a registered key, different key
            "foreign_ec": new_ec_key("P-256", kid="e1", use="sig"),
            "rp_enc": new_rsa_key(kid="enc1", use="enc"),        # the relying party's own decryption key
            "foreign_enc": new_rsa_key(kid="enc1", use="enc"),   # somebody else's
        }
        k["secret"] = SYMKey(key=SECRET, use="sig")
        k["other_secret"] = SYMKey(key=OTHER_SECRET, use="sig")
        pem = k["iss_rsa1"].public_key().public_bytes(
            __import__("cryptography").hazmat.primitives.serialization.Encoding.PEM,
            __import__("cryptography").hazmat.primitives.serialization.PublicFormat.SubjectPublicKeyInfo)
        k["pub_as_hmac"] = SYMKey(key=pem, use="sig")
        _KEYS = k
    return _KEYS


ISSUER_KEYS = {ISS: ["iss_rsa1", "iss_rsa2", "iss_ec"], ISS2: ["iss2_rsa", "iss2_ec"], ISS3: ["iss3_rsa"]}


def public_jwks(names):
    return {"keys": [keys()[n].serialize(private=False) for n in names]}


def load_issuer_keys(keyjar, issuers=(ISS, ISS2)):
    for iss in issuers:
        keyjar.import_jwks(public_jwks(ISSUER_KEYS[iss]), iss)
    return keyjar


def left_hash_ref(msg, bits):
    """Independent reference for c_hash / at_hash (OIDC Core 3.3.2.11): left half of SHA-<bits>."""
    h = {256: hashlib.sha256, 384: hashlib.sha384, 512: hashlib.sha512}[bits](msg.encode()).digest()
    return b64u(h[:len(h) // 2])


def mint(alg, signer, claims, kid=None, sig_fault=None, extra_header=None):
    """Compact JWS with exactly the given header fields and JSON claims.
    signer: name in keys() or None (no signature part). sig_fault: None | 'flip' | 'empty'."""
    hdr = {"alg": alg}
    if kid is not None:
        hdr["kid"] = kid
    if extra_header:
        hdr.update(extra_header)
    inp = b64u(json.dumps(hdr).encode()) + "." + b64u(json.dumps(claims).encode())
    sig = b""
    if signer is not None and alg in SIGNER_ALGS and SIGNER_ALGS[alg] is not None:
        key = keys()[signer]
        s = SIGNER_ALGS[alg]
        if isinstance(key, SYMKey):
            sig = s.sign(inp.encode(), key.key)
        else:
            sig = s.sign(inp.encode(), key.private_key())
    if sig_fault == "flip" and sig:
        sig = bytes([sig[0] ^ 1]) + sig[1:]
    elif sig_fault == "empty":
        sig = b""
    return inp + "." + b64u(sig)


class FakeResponse:
    def __init__(self, status, text, ctype="application/json", url=""):
        self.status_code = status
        self.text = text
        self.headers = {"content-type": ctype}
        self.url = url

    def json(self):
        return json.loads(self.text)


class FakeOP:
    """Scripted provider: the next response for each endpoint is set by the driver."""

    def __init__(self):
        self.next = {}
        self.calls = []

    def script(self, endpoint, body, status=200, ctype="application/json"):
        self.next[endpoint] = (status, body if isinstance(body, str) else json.dumps(body), ctype)

    def __call__(self, method, url, data=None, headers=None, **kw):
        self.calls.append((method, url, data, headers))
        for ep, (status, text, ctype) in self.next.items():
            if url.startswith(ep) or url.split("?")[0].endswith(ep):
                return FakeResponse(status, text, ctype, url)
        return FakeResponse(404, json.dumps({"error": "not_scripted"}), url=url)


def client_config(issuer=ISS, client_id=CLIENT_ID, sigalg=None, allow_none=False, skew=0, allow_missing_kid=False,
                  response_types=None, extra=None):
    conf = {
        "base_url": "https://rp.example.com/cli/",
        "client_id": client_id,
        "client_type": "oidc",
        "client_secret": SECRET,
        "clock_skew": skew,
        "provider_info": {
            "issuer": issuer,
            "authorization_endpoint": issuer + "/authn",
            "token_endpoint": issuer + "/token",
            "userinfo_endpoint": issuer + "/user",
        },
    }
    if sigalg is not None:
        # how an RP is configured for an ID-token signing algorithm: its preference list; the usage
        # id_token_signed_response_alg is derived from it
        conf["id_token_signing_alg_values_supported"] = [sigalg]
    if allow_missing_kid:
        conf["allow"] = {"missing_kid": True}
    if response_types:
        conf["response_types_supported"] = response_types
    if extra:
        conf.update(extra)
    return conf


def make_client(issuer=ISS, client_id=CLIENT_ID, sigalg=None, reg="static", allow_none=False, skew=0,
                allow_missing_kid=False, known_issuers=(ISS, ISS2), response_types=None, extra=None,
                enc=None, dec=True):
    """A real StandAloneClient, statically configured, talking to a FakeOP.
    enc: None or (alg, enc) the client registered / is configured for ID-token encryption;
    dec: the client owns a decryption key."""
    from idpyoidc.client.oauth2.stand_alone_client import StandAloneClient
    op = FakeOP()
    conf = client_config(issuer, client_id, sigalg if reg == "static" else None, allow_none, skew, allow_missing_kid,
                         response_types, extra)
    client = StandAloneClient(config=conf, httpc=op, httpc_params={})
    client.do_provider_info()
    client.do_client_registration()
    ctx = client.get_context()
    if allow_none:
        ctx.claims.set_usage("verify_args", {"allow_sign_alg_none": True})
    if reg == "dynamic":
        # what a dynamic registration leaves behind: the registration response is kept on the context
        rr = {"client_id": client_id, "client_secret": SECRET}
        if sigalg is not None:
            rr["id_token_signed_response_alg"] = sigalg
        if enc:
            rr["id_token_encrypted_response_alg"], rr["id_token_encrypted_response_enc"] = enc
        ctx.registration_response = rr
    elif enc:
        ctx.claims.set_usage("id_token_encrypted_response_alg", enc[0])
        ctx.claims.set_usage("id_token_encrypted_response_enc", enc[1])
    ctx.clock_skew = skew
    if dec:
        client.get_attribute("keyjar").import_jwks({"keys": [keys()["rp_enc"].serialize(private=True)]}, "")
    load_issuer_keys(client.get_attribute("keyjar"), known_issuers)
    client.fake_op = op
    return client


def snapshot(client):
    cs = client.get_context().cstate
    return copy.deepcopy(cs._db), copy.deepcopy(cs._map)


def exc_name(e):
    return type(e).__name__


# ================================================================================================
# Encoding for the Gallina model
# ================================================================================================
import re as _re  # noqa: E402
import engine as _E  # noqa: E402
from engine import coq_list, coq_bool, coq_z, coq_nat, coq_opt  # noqa: E402


class Interner:
    """Case terms are dominated by repeated strings and repeated sub-terms (key jar, kwargs, configuration,
    snapshots).  Elaborating string literals is what makes coqc slow, so every string and every shared
    sub-term is emitted once per shard as a Definition and referenced by name."""

    def __init__(self):
        self.names = {}      # (type, text) -> name
        self.defs = {}       # name -> (type, text)
        self.order = []

    def share(self, text, ty, prefix="g"):
        key = (ty, text)
        n = self.names.get(key)
        if n is None:
            n = "%s_%d" % (prefix, len(self.order))
            self.names[key] = n
            self.defs[n] = (ty, text)
            self.order.append(n)
        return n

    def s(self, string):
        return self.share(_E.coq_str(string), "pystr", "s")

    _NAME = _re.compile(r"\b[sg]_\d+\b")

    def prelude(self, texts):
        need, stack = set(), []
        for t in texts:
            stack.extend(self._NAME.findall(t))
        while stack:
            n = stack.pop()
            if n in need or n not in self.defs:
                continue
            need.add(n)
            stack.extend(self._NAME.findall(self.defs[n][1]))
        return "".join("Definition %s : %s := %s.\n" % (n, self.defs[n][0], self.defs[n][1])
                       for n in self.order if n in need)


I = Interner()


def coq_str(s):
    # what the RP stored may be a null (a claim the provider sent as JSON null): it has to show in the trace as a value
    # the model cannot produce, not crash the writer
    return I.s("<null>" if s is None else s)


def coq_pyval(v):
    if v is None:
        return "VNone"
    if v is True or v is False:
        return "(VBool %s)" % coq_bool(v)
    if isinstance(v, int):
        return "(VInt %s)" % coq_z(v)
    if isinstance(v, str):
        return "(VStr %s)" % coq_str(v)
    if isinstance(v, (list, tuple)):
        return "(VList %s)" % coq_list([coq_pyval(x) for x in v], "pyval")
    if isinstance(v, dict):
        return I.share("(VDict %s)" % coq_list(["(%s, %s)" % (coq_str(k), coq_pyval(x)) for k, x in v.items()],
                                                "(pystr * pyval)"), "pyval")
    raise ValueError("no pyval for %r" % (v,))


def check_cases(ctx, imports, case_type, checker, cases, shard=400, label="cases", diag=None):
    """Like engine.Ctx.coq_check_cases, but every shard starts with the shared definitions it needs."""
    from concurrent.futures import ThreadPoolExecutor
    jobs = []
    for i in range(0, len(cases), shard):
        part = cases[i:i + shard]
        ctx.shard_seq += 1
        name = "%s_%s_%03d" % (ctx.prop, label, ctx.shard_seq)
        body = "%sDefinition cases : list (%s) := [\n%s\n].\nEval vm_compute in (bad_indices (%s) cases).\n" % (
            I.prelude([t for t, _ in part]), case_type, ";\n".join(t for t, _ in part), checker)
        jobs.append((name, body, part))

    def run(job):
        return job, ctx.coq_eval(job[0], imports, job[1])
    with ThreadPoolExecutor(max_workers=min(_E.NCPU, max(1, len(jobs)))) as ex:
        results = list(ex.map(run, jobs))
    bad = []
    for (name, body, part), (rc, out, vals) in results:
        if rc != 0 or not vals:
            ctx.broken.append("correspondence shard %s does not evaluate: %s" % (name, out.strip()[-600:]))
            continue
        try:
            idx = _E.parse_nat_list(vals[-1])
        except ValueError as e:
            ctx.broken.append("correspondence shard %s: %s" % (name, e))
            continue
        ctx.traces += len(part)
        dvals = {}
        if idx and diag:
            texts = [part[k][0] for k in idx[:5]]
            dbody = I.prelude(texts) + "".join("Eval vm_compute in (%s (%s)).\n" % (diag, t) for t in texts)
            drc, dout, dv = ctx.coq_eval(name + "_diag", imports, dbody)
            dvals = dict(zip(idx[:5], dv))
        for k in idx:
            rec = part[k][1]
            bad.append(rec)
            ctx.mismatch("model and implementation disagree (%s, %s[%d])" % (label, name, k), rec,
                         model=dvals.get(k, "(model answer not printed)"))
    return bad


EXC = {
    "TypeError": "TypeError", "KeyError": "KeyError", "ValueError": "ValueError", "AttributeError": "AttributeError",
    "IndexError": "IndexError",
    "UnsupportedAlgorithm": "E_UnsupportedAlgorithm", "MissingRequiredAttribute": "E_MissingRequiredAttribute",
    "IssuerMismatch": "E_IssuerMismatch", "NotForMe": "E_NotForMe", "VerificationError": "E_VerificationError",
    "EXPError": "E_EXPError", "IATError": "E_IATError", "AtHashError": "E_AtHashError", "CHashError": "E_CHashError",
    "MissingSigningKey": "E_MissingSigningKey", "BadSignature": "E_BadSignature",
    "NoSuitableSigningKeys": "E_NoSuitableSigningKeys", "SignerAlgError": "E_SignerAlgError",
    "DecodeError": "E_DecodeError", "ParameterError": "E_ParameterError", "IssuerNotFound": "E_IssuerNotFound",
    "ResponseError": "E_ResponseError", "OidcServiceError": "E_OidcServiceError",
    "HeaderError": "E_HeaderError", "NoSuitableDecryptionKey": "E_NoSuitableDecryptionKey",
}


def coq_exc(name):
    return "(Err %s)" % EXC.get(name, "(Refused 99)")


def coq_dict(d):
    return I.share(coq_list(["(%s, %s)" % (coq_str(k), coq_pyval(v)) for k, v in d.items()], "(pystr * pyval)"),
                   "list (pystr * pyval)")


def coq_ostr(x):
    return coq_opt(x, coq_str, "pystr")


def jar_of(keyjar):
    """Describe a real KeyJar for the model: (owner, kty, kid, key number). Keys are identified by content."""
    ks = keys()
    out = []
    for owner in keyjar.owners():
        for k in keyjar.get_issuer_keys(owner):
            if k.use == "enc":
                continue        # KeyIssuer.get("sig", ...) skips them; see dec_of
            num = None
            for name, mine in ks.items():
                if k.kty != mine.kty:
                    continue
                if k.kty == "oct":
                    if k.key == mine.key:
                        num = KEYNUM[name]
                else:
                    if k.serialize(private=False).get("n", k.serialize(private=False).get("x")) == \
                            mine.serialize(private=False).get("n", mine.serialize(private=False).get("x")):
                        num = KEYNUM[name]
            if num is None:
                num = 99
            out.append((owner, k.kty, k.kid or "", num))
    return out


def dec_of(keyjar):
    """The client's own decryption keys (keyjar.get_decrypt_key(owner="")), as key numbers."""
    out = []
    for k in keyjar.get_issuer_keys(""):
        if k.use == "enc" and k.kty == "RSA":
            n = [KEYNUM[name] for name in ("rp_enc", "foreign_enc")
                 if keys()[name].serialize(private=False)["n"] == k.serialize(private=False)["n"]]
            out.append(n[0] if n else 98)
    return out


def coq_jar(j):
    kt = {"RSA": "KRsa", "EC": "KEc", "oct": "KOct"}
    return I.share(coq_list(["(mkJE %s %s %s %s)" % (coq_str(o), kt[t], coq_str(kid), coq_nat(n)) for o, t, kid, n in j],
                            "jar_entry"), "list jar_entry")


def coq_kwargs(kw, jar, dec=()):
    return I.share("(mkKw %s %s %s %s %s %s %s %s %s %s %s %s %s)" % (
        coq_ostr(kw.get("iss")), coq_ostr(kw.get("client_id")), coq_ostr(kw.get("sigalg")),
        coq_ostr(kw.get("allowed_sign_alg")), coq_bool(kw.get("allow_sign_alg_none", False)),
        coq_opt(kw.get("skew"), coq_z, "Z"), coq_opt(kw.get("nonce_storage_time"), coq_z, "Z"),
        coq_bool(kw.get("allow_missing_kid", False)), coq_ostr(kw.get("nonce")), coq_jar(jar),
        coq_ostr(kw.get("encalg")), coq_ostr(kw.get("encenc")), coq_list([coq_nat(n) for n in dec], "nat")), "kwargs")


def signer_num(tok):
    """Which key (number) produced a signature that is valid for exactly this header and payload."""
    if tok.get("sigfault") or tok["signer"] is None:
        return None
    return KEYNUM[tok["signer"]]


def coq_token(tok):
    w = tok.get("wrap")
    wt = "(@None jwe_wrap)" if not w else "(Some (mkJwe %s %s %s))" % (
        coq_str(w["alg"]), coq_str(w["enc"]), coq_opt(KEYNUM.get(w["key"]), coq_nat, "nat"))
    return I.share("(mkTok %s %s %s %s %s)" % (coq_str(tok["alg"]), coq_ostr(tok["kid"]),
                                               coq_opt(signer_num(tok), coq_nat, "nat"), coq_dict(tok["claims"]), wt),
                   "token")


def coq_hash_table(values):
    rows = []
    for v in values:
        for bits in (256, 384, 512):
            rows.append("(%s, %s, %s)" % (coq_str(str(bits)), coq_str(v), coq_str(left_hash_ref(v, bits))))
    return I.share(coq_list(rows, "(pystr * pystr * pystr)"), "list (pystr * pystr * pystr)")


def coq_res_dict(out):
    if out[0] == "ok":
        return "(Ok %s)" % coq_dict(out[1])
    return coq_exc(out[1])


def modellable(v):
    """JSON value inside the pyval universe (no floats)."""
    if isinstance(v, float):
        return False
    if isinstance(v, (list, tuple)):
        return all(modellable(x) for x in v)
    if isinstance(v, dict):
        return all(isinstance(k, str) and modellable(x) for k, x in v.items())
    return v is None or isinstance(v, (bool, int, str))


def mint_tok(tok):
    jws = mint(tok["alg"], tok["signer"], tok["claims"], tok["kid"], tok.get("sigfault"))
    w = tok.get("wrap")
    if not w:
        return jws
    # a nested JWT: the JWS encrypted to the named key
    from cryptojwt.jwe.jwe import JWE
    import warnings
    with warnings.catch_warnings():
        warnings.simplefilter("ignore")
        return JWE(jws, alg=w["alg"], enc=w["enc"], cty="JWT").encrypt(keys=[keys()[w["key"]]])


# ================================================================================================
# C08: case generation (genuine token, exhaustive single-fault matrix, settings) and the oracle
# ================================================================================================
T0 = 1_700_000_000
STORAGE = 4 * 3600
NONCE, OTHER_NONCE = "@NONCE@", "@OTHER-NONCE@"      # resolved when the flow is started
PATHS = ("msg_authz", "msg_token", "svc_authz", "svc_token")

SETTINGS = [dict(sigalg=sa, reg=reg, allow_none=an, skew=sk, allow_missing_kid=amk)
            for sa in (None, "RS256", "ES256", "HS256", "none")
            for reg in ("dynamic", "static")
            for an in (False, True)
            for sk in (0, 10)
            for amk in (False, True)]


def base_alg(setting):
    sa = setting["sigalg"]
    if sa == "ES256":
        return "ES256", "iss_ec", "e1"
    if sa == "HS256":
        return "HS256", "secret", None
    if sa == "none":
        return "none", None, None
    return "RS256", "iss_rsa1", "r1"


def set_hashes(case):
    """(re)compute c_hash / at_hash of the genuine token for its current alg and the delivered code / token"""
    tok, ctx = case["tok"], case["ctx"]
    alg = tok["alg"]
    bits = int(alg[-3:]) if alg[-3:] in ("256", "384", "512") else 256
    for claim, val in (("c_hash", ctx.get("code")), ("at_hash", ctx.get("access_token"))):
        if val and case["path"] in ("msg_authz", "svc_authz"):
            tok["claims"][claim] = left_hash_ref(val, bits)
        else:
            tok["claims"].pop(claim, None)


def base_case(path, setting, delivery, now=T0):
    """delivery: which of code / access_token accompany the ID token: 'code', 'code+token', 'token', 'alone'"""
    alg, signer, kid = base_alg(setting)
    ctx = {"code": "Co-%s" % delivery if "code" in delivery else None,
           "access_token": "At-%s" % delivery if "token" in delivery else None,
           "forged": None, "resp_iss": None, "resp_client_id": None, "extra": {}}
    if path in ("msg_token", "svc_token"):
        ctx["code"] = None
        ctx["access_token"] = "At-tokenendpoint"
    case = {"path": path, "cfg": dict(setting), "now": now, "ctx": ctx, "fault": "none",
            "tok": {"alg": alg, "kid": kid, "signer": signer, "sigfault": None,
                    "claims": {"iss": ISS, "sub": "diana", "aud": [CLIENT_ID], "exp": now + 300, "iat": now - 5,
                               "nonce": NONCE}}}
    set_hashes(case)
    return case


RETYPES = [("str", "x-retyped"), ("int", 7), ("list", ["x-retyped"]), ("bool", True), ("false", False), ("null", None),
           ("dict", {"k": "v"}), ("empty-str", ""), ("empty-list", []), ("list-blank", [""]), ("list-null", [None]),
           ("int0", 0), ("list-int", [7]), ("numstr", "12"), ("list2", ["a", "b"])]
RETYPED_CLAIMS = ["iss", "sub", "aud", "exp", "iat", "nonce", "azp", "c_hash", "at_hash", "auth_time", "amr",
                  "email_verified", "sid", "foo"]


def _setc(name, value):
    def f(case):
        case["tok"]["claims"][name] = value
    return f


def _delc(name):
    def f(case):
        case["tok"]["claims"].pop(name, None)
    return f


def _resign(alg, signer, kid, rehash=True):
    def f(case):
        case["tok"].update(alg=alg, signer=signer, kid=kid)
        if rehash:
            set_hashes(case)
    return f


def fault_matrix(path):
    """The single-fault matrix: list of (name, function mutating a fresh base case)."""
    F = []
    # --- each claim removed / retyped
    for c in RETYPED_CLAIMS:
        F.append(("claim-removed:" + c, _delc(c)))
        for tname, val in RETYPES:
            F.append(("claim-retyped:%s:%s" % (c, tname), _setc(c, val)))
    # --- each claim altered (type preserved)
    F += [
        ("iss:other-known", _setc("iss", ISS2)), ("iss:unknown", _setc("iss", "https://evil.example.com")),
        ("iss:trailing-slash", _setc("iss", ISS + "/")), ("iss:case", _setc("iss", ISS.upper())),
        ("iss:own-id", _setc("iss", CLIENT_ID)),
        ("sub:other", _setc("sub", "mallory")),
        ("aud:other-only", _setc("aud", ["someone-else"])), ("aud:str-me", _setc("aud", CLIENT_ID)),
        ("aud:str-other", _setc("aud", "someone-else")), ("aud:prefix", _setc("aud", [CLIENT_ID + "x"])),
        ("aud:case", _setc("aud", [CLIENT_ID.lower()])),
        ("aud:two-no-azp", _setc("aud", [CLIENT_ID, "someone-else"])),
        ("aud:dict-me", _setc("aud", {CLIENT_ID: 1})), ("aud:dict-two", _setc("aud", {CLIENT_ID: 1, "b": 2})),
        ("aud:nested", _setc("aud", [[CLIENT_ID]])),
        ("azp:me", _setc("azp", CLIENT_ID)), ("azp:other", _setc("azp", "someone-else")),
        ("nonce:wrong", _setc("nonce", "not-the-nonce")), ("nonce:other-flow", _setc("nonce", OTHER_NONCE)),
        ("nonce:prefix", lambda case: case["tok"]["claims"].__setitem__("nonce", NONCE + "x")),
        ("c_hash:wrong", _setc("c_hash", "AAAAAAAAAAAAAAAAAAAAAA")), ("at_hash:wrong", _setc("at_hash", "AAAAAAAAAAAAAAAAAAAAAA")),
        ("acr:any", _setc("acr", "0")), ("auth_time:str", _setc("auth_time", "1699999990")),
        ("amr:str", _setc("amr", "pwd")),
    ]

    def two_aud(azp):
        def f(case):
            case["tok"]["claims"]["aud"] = [CLIENT_ID, "someone-else"]
            case["tok"]["claims"]["azp"] = azp
        return f
    F += [("aud:two-azp-me", two_aud(CLIENT_ID)), ("aud:two-azp-other", two_aud("someone-else")),
          ("aud:two-azp-outside", two_aud("third-party")), ("aud:two-azp-null", two_aud(None))]

    def other_only_azp_me(case):
        case["tok"]["claims"]["aud"] = ["someone-else"]
        case["tok"]["claims"]["azp"] = CLIENT_ID
    F.append(("aud:other-azp-me", other_only_azp_me))

    def hash_bits_wrong(claim, key):
        def f(case):
            v = case["ctx"].get(key)
            if v:
                case["tok"]["claims"][claim] = left_hash_ref(v, 512)
        return f
    F += [("c_hash:sha512", hash_bits_wrong("c_hash", "code")), ("at_hash:sha512", hash_bits_wrong("at_hash", "access_token"))]

    def swap_hashes(case):
        c = case["tok"]["claims"]
        if "c_hash" in c and "at_hash" in c:
            c["c_hash"], c["at_hash"] = c["at_hash"], c["c_hash"]
        elif "c_hash" in c:
            c["at_hash"] = c.pop("c_hash")
        elif "at_hash" in c:
            c["c_hash"] = c.pop("at_hash")
    F.append(("hash:swapped", swap_hashes))

    # --- time windows: every boundary, minus one / exactly / plus one
    def at_time(claim, f_off, as_str=False):
        def f(case):
            sk = case["cfg"]["skew"]
            v = case["now"] + f_off(sk)
            case["tok"]["claims"][claim] = str(v) if as_str else v
        return f
    for d in (-1, 0, 1):
        F.append(("exp:boundary%+d" % d, at_time("exp", lambda sk, d=d: -sk + d)))
        F.append(("exp:boundary-str%+d" % d, at_time("exp", lambda sk, d=d: -sk + d, True)))
        F.append(("iat:future%+d" % d, at_time("iat", lambda sk, d=d: sk + d)))
        F.append(("iat:stale%+d" % d, at_time("iat", lambda sk, d=d: -sk - STORAGE + d)))

    def exp_before_iat(case):
        case["tok"]["claims"]["exp"] = case["now"] - 1
        case["tok"]["claims"]["iat"] = case["now"]
    F += [("exp:long-past", _setc("exp", 1)), ("exp:negative", _setc("exp", -5)), ("exp:before-iat", exp_before_iat),
          ("exp:spaces-str", lambda case: case["tok"]["claims"].__setitem__("exp", " %d " % (case["now"] + 300))),
          ("exp:underscore-str", lambda case: case["tok"]["claims"].__setitem__("exp", "1_800_000_000")),
          ("exp:plus-str", lambda case: case["tok"]["claims"].__setitem__("exp", "+%d" % (case["now"] + 300))),
          ("exp:hex-str", _setc("exp", "0x7fffffff")), ("exp:float-str", _setc("exp", "1800000000.0")),
          ("iat:far-future", lambda case: case["tok"]["claims"].__setitem__("iat", case["now"] + 100000))]

    # --- header and signature
    def sigfault(kind):
        def f(case):
            case["tok"]["sigfault"] = kind
        return f
    F += [
        ("alg:none-unsigned", _resign("none", None, None)),
        ("alg:none-keep-hash", _resign("none", None, None, rehash=False)),
        ("alg:None", _resign("None", None, None)), ("alg:NONE", _resign("NONE", None, None)),
        ("alg:HS256-client-secret", _resign("HS256", "secret", None)),
        ("alg:HS384-client-secret", _resign("HS384", "secret", None)),
        ("alg:HS256-rsa-public-key-as-secret", _resign("HS256", "pub_as_hmac", None)),
        ("alg:HS256-rsa-public-key-as-secret-kid", _resign("HS256", "pub_as_hmac", "r1")),
        ("alg:HS256-other-secret", _resign("HS256", "other_secret", None)),
        ("alg:HS256-secret-kid-r1", _resign("HS256", "secret", "r1")),
        ("alg:RS256-iss", _resign("RS256", "iss_rsa1", "r1")), ("alg:RS256-iss-key2", _resign("RS256", "iss_rsa2", "r2")),
        ("alg:ES256-iss", _resign("ES256", "iss_ec", "e1")),
        ("alg:PS256-iss", _resign("PS256", "iss_rsa1", "r1")), ("alg:RS384-iss", _resign("RS384", "iss_rsa1", "r1")),
        ("key:foreign-rsa-same-kid", _resign("RS256", "foreign_rsa", "r1")),
        ("key:foreign-ec-same-kid", _resign("ES256", "foreign_ec", "e1")),
        ("key:foreign-rsa-no-kid", _resign("RS256", "foreign_rsa", None)),
        ("key:other-issuer-key", _resign("RS256", "iss2_rsa", "o1")),
        ("key:other-issuer-ec-no-kid", _resign("ES256", "iss2_ec", None)),
        ("kid:missing-rsa", _resign("RS256", "iss_rsa1", None)), ("kid:missing-ec", _resign("ES256", "iss_ec", None)),
        ("kid:unknown", _resign("RS256", "iss_rsa1", "nope")), ("kid:other-key", _resign("RS256", "iss_rsa1", "r2")),
        ("kid:empty", _resign("RS256", "iss_rsa1", "")), ("kid:ec-kid-on-rsa", _resign("RS256", "iss_rsa1", "e1")),
        ("sig:flipped", sigfault("flip")), ("sig:empty", sigfault("empty")),
    ]

    def other_issuer_whole(case):      # a genuine token of another registered issuer
        case["tok"].update(alg="RS256", signer="iss2_rsa", kid="o1")
        case["tok"]["claims"]["iss"] = ISS2
        set_hashes(case)
    F.append(("token-of-other-issuer", other_issuer_whole))

    # --- the accompanying message
    def forged(case):
        case["ctx"]["forged"] = {"iss": ISS, "sub": "admin", "aud": [CLIENT_ID], "exp": case["now"] + 9999,
                                 "iat": case["now"], "nonce": NONCE}
    F.append(("forged-verified-parameter", forged))

    def forged_no_token(case):
        forged(case)
        case["ctx"]["drop_id_token"] = True
    F.append(("forged-verified-parameter-without-id-token", forged_no_token))
    if path in ("msg_authz", "svc_authz"):
        F += [("resp-iss:right", lambda case: case["ctx"].__setitem__("resp_iss", ISS)),
              ("resp-iss:wrong", lambda case: case["ctx"].__setitem__("resp_iss", ISS2)),
              ("resp-client_id:right", lambda case: case["ctx"].__setitem__("resp_client_id", CLIENT_ID)),
              ("resp-client_id:wrong", lambda case: case["ctx"].__setitem__("resp_client_id", "someone-else"))]
    return F


# ---- encrypted delivery: the ID Token as a JWE around the JWS (nested JWT)
ENC = ("RSA-OAEP", "A256GCM")
WRAPS = [
    ("jwe:good", {"alg": "RSA-OAEP", "enc": "A256GCM", "key": "rp_enc"}),
    ("jwe:foreign-recipient", {"alg": "RSA-OAEP", "enc": "A256GCM", "key": "foreign_enc"}),
    ("jwe:alg-RSA-OAEP-256", {"alg": "RSA-OAEP-256", "enc": "A256GCM", "key": "rp_enc"}),
    ("jwe:alg-RSA1_5", {"alg": "RSA1_5", "enc": "A256GCM", "key": "rp_enc"}),
    ("jwe:enc-A128GCM", {"alg": "RSA-OAEP", "enc": "A128GCM", "key": "rp_enc"}),
    ("jwe:enc-A128CBC-HS256", {"alg": "RSA-OAEP", "enc": "A128CBC-HS256", "key": "rp_enc"}),
]
ENC_SETTINGS = (
    [dict(sigalg=sa, reg="dynamic", allow_none=False, skew=0, allow_missing_kid=False, enc=ENC, dec=True)
     for sa in ("RS256", "ES256", "HS256", None, "none")]
    + [dict(sigalg="RS256", reg="dynamic", allow_none=False, skew=0, allow_missing_kid=False, enc=None, dec=True),
       dict(sigalg="RS256", reg="dynamic", allow_none=False, skew=0, allow_missing_kid=False, enc=ENC, dec=False),
       dict(sigalg="RS256", reg="static", allow_none=False, skew=0, allow_missing_kid=False, enc=ENC, dec=True),
       dict(sigalg="ES256", reg="static", allow_none=True, skew=10, allow_missing_kid=True, enc=ENC, dec=True)])


def wrapped_fault(wrap, inner):
    """deliver the (possibly faulty) JWS inside the given JWE"""
    def f(case):
        if inner:
            inner(case)
        case["tok"]["wrap"] = dict(wrap)
    return f


def make_case(path, setting, delivery, fault_name, fault_fn, now=T0):
    case = base_case(path, setting, delivery, now)
    case["fault"] = fault_name
    case["delivery"] = delivery
    if fault_fn:
        fault_fn(case)
    return case


def resolve(case, nonce, other_nonce):
    """Replace the nonce markers by the values of the started flow(s)."""
    def sub(v):
        if isinstance(v, str):
            return v.replace(NONCE, nonce).replace(OTHER_NONCE, other_nonce)
        if isinstance(v, list):
            return [sub(x) for x in v]
        if isinstance(v, dict):
            return {k: sub(x) for k, x in v.items()}
        return v
    case["tok"]["claims"] = sub(case["tok"]["claims"])
    if case["ctx"].get("forged"):
        case["ctx"]["forged"] = sub(case["ctx"]["forged"])
    case["sent_nonce"] = nonce
    return case


# ---------------------------------------------------------------- the oracle (OIDC Core 3.1.3.7 as restated by C08)
def _as_int(v):
    """lenient on representation (a decimal string is a number), strict on meaning"""
    if isinstance(v, bool):
        return None
    if isinstance(v, int):
        return v
    if isinstance(v, str):
        try:
            return int(v)
        except ValueError:
            return None
    return None


def oracle_c08(case, expected_alg, sent_nonce):
    """Independent validator. Returns the list of clauses of C08 this token violates (empty = valid token).
    expected_alg: the signing algorithm the RP is configured to expect (None = no expectation configured)."""
    tok, ctx, cfg, now = case["tok"], case["ctx"], case["cfg"], case["now"]
    # a claim without content ("", [], [""], [null, ...]) counts as absent: lenient on representation
    c = {k: v for k, v in tok["claims"].items()
         if not (v == "" or v == [] or v == [""] or (isinstance(v, list) and v and v[0] is None))}
    bad = []
    alg, signer = tok["alg"], tok["signer"]
    from_authz = case["path"] in ("msg_authz", "svc_authz")
    # (1) signature under a key of the expected issuer, permitted algorithm, none only if explicitly allowed
    if alg == "none":
        if not (cfg["allow_none"] or expected_alg == "none"):
            bad.append("alg-none-not-allowed")
    else:
        fam = alg[:2]
        good_key = (not tok.get("sigfault")) and (
            (fam in ("RS", "PS") and signer in ("iss_rsa1", "iss_rsa2")) or
            (fam == "ES" and signer == "iss_ec") or
            (fam == "HS" and signer == "secret"))
        if alg not in ("RS256", "RS384", "RS512", "PS256", "PS384", "PS512", "ES256", "HS256", "HS384", "HS512"):
            good_key = False
        if not good_key:
            bad.append("signature-not-by-issuer-key")
        if expected_alg is not None and alg != expected_alg:
            bad.append("alg-not-the-expected-one")
    # (2) names the issuer
    if c.get("iss") != ISS:
        bad.append("iss")
    # (3) audience / azp
    aud = c.get("aud")
    if isinstance(aud, str):
        aud = [aud]
    if not (isinstance(aud, list) and all(isinstance(x, str) for x in aud) and CLIENT_ID in aud):
        bad.append("aud")
    else:
        if "azp" in c or len(aud) > 1:
            if c.get("azp") != CLIENT_ID:
                bad.append("azp")
    # (4) time
    exp, iat = _as_int(c.get("exp")), _as_int(c.get("iat"))
    if exp is None or exp < now - cfg["skew"]:
        bad.append("expired")
    if iat is None or iat > now + cfg["skew"]:
        bad.append("issued-in-future")
    # (5) nonce
    if sent_nonce is not None and c.get("nonce") != sent_nonce:
        bad.append("nonce")
    # (6) c_hash / at_hash when delivered with a code / access token from the authorization endpoint
    if from_authz:
        for claim, val in (("c_hash", ctx.get("code")), ("at_hash", ctx.get("access_token"))):
            if val:
                if alg[-3:] in ("256", "384", "512"):
                    ok = c.get(claim) == left_hash_ref(val, int(alg[-3:]))
                else:   # no hash is defined for an unsigned token: accept any of the three as "matching"
                    ok = c.get(claim) in [left_hash_ref(val, b) for b in (256, 384, 512)]
                if not ok:
                    bad.append(claim)
    return bad


# ================================================================================================
# Driving real clients: a world of StandAloneClients (optionally behind an RPHandler), traces, snapshots
# ================================================================================================
from urllib.parse import urlsplit, parse_qs  # noqa: E402


def cfg_of_client(client, usage_sigalg_explicit=None):
    """Read the model's rp_cfg off a real client (what the code will consult)."""
    ctx = client.get_context()
    rr = ctx.registration_response or {}
    va = ctx.claims.get_usage("verify_args") or {}
    pi = ctx.provider_info.get("issuer") if hasattr(ctx.provider_info, "get") else None
    return {
        "issuer": ctx.issuer, "pi_issuer": pi, "client_id": ctx.get_client_id(),
        "reg_sigalg": rr.get("id_token_signed_response_alg"),
        "usage_sigalg": ctx.claims.get_usage("id_token_signed_response_alg"),
        "allow_none": bool(va.get("allow_sign_alg_none", False)),
        "skew": ctx.clock_skew, "allow_missing_kid": bool(ctx.allow.get("missing_kid")),
        "jar": jar_of(client.get_attribute("keyjar")),
        "encalg": rr.get("id_token_encrypted_response_alg") or ctx.claims.get_usage("id_token_encrypted_response_alg"),
        "encenc": rr.get("id_token_encrypted_response_enc") or ctx.claims.get_usage("id_token_encrypted_response_enc"),
        "dec": dec_of(client.get_attribute("keyjar")),
    }


def coq_cfg(c):
    return I.share("(mkCfg %s %s %s %s %s %s %s %s %s %s %s %s)" % (
        coq_str(c["issuer"]), coq_ostr(c["pi_issuer"]), coq_str(c["client_id"]), coq_ostr(c["reg_sigalg"]),
        coq_ostr(c["usage_sigalg"]), coq_bool(c["allow_none"]), coq_z(c["skew"]), coq_bool(c["allow_missing_kid"]),
        coq_jar(c["jar"]), coq_ostr(c["encalg"] or None), coq_ostr(c["encenc"] or None),
        coq_list([coq_nat(n) for n in c["dec"]], "nat")), "rp_cfg")


class World:
    """Clients keyed by issuer. ops are executed on the real objects; every step is recorded for the model
    (coq term) and for the oracle (python records with before/after snapshots)."""

    def __init__(self, clients, clock, rph=None):
        self.clients = clients            # ordered dict issuer -> StandAloneClient
        self.clock = clock
        self.rph = rph
        self.jwts = {}                    # compact JWS -> placeholder
        self.tokens = {}                  # placeholder -> token description
        self.hashed = set()
        self.steps = []                   # (coq_op, out, snapshot) for the model
        self.log = []                     # python records for oracle / replay
        self.cfgs = [(iss, cfg_of_client(c)) for iss, c in clients.items()]
        self.flows = []                   # started flows: dict(issuer, state, nonce)

    # -- snapshots
    def _canon(self, v):
        if isinstance(v, str):
            return self.jwts.get(v, v)
        if isinstance(v, dict):
            return {k: self._canon(x) for k, x in v.items()}
        if isinstance(v, (list, tuple)):
            return [self._canon(x) for x in v]
        return v

    def snapshot(self):
        out = []
        for iss, c in self.clients.items():
            cs = c.get_context().cstate
            out.append((iss, self._canon(copy.deepcopy(cs._db)), dict(cs._map)))
        return out

    @staticmethod
    def coq_snapshot(snap):
        rows = []
        for iss, db, mp in snap:
            dbt = coq_list(["(%s, %s)" % (coq_str(k), coq_dict(r)) for k, r in db.items()], "(pystr * list (pystr * pyval))")
            mpt = coq_list(["(%s, %s)" % (coq_str(k), coq_str(v)) for k, v in mp.items()], "(pystr * pystr)")
            rows.append("(%s, (%s, %s))" % (coq_str(iss), I.share(dbt, "list (pystr * list (pystr * pyval))"),
                                            I.share(mpt, "list (pystr * pystr)")))
        return coq_list(rows, "(pystr * (list (pystr * list (pystr * pyval)) * list (pystr * pystr)))")

    def placeholder(self, tok):
        jwt = mint_tok(tok)
        ph = self.jwts.get(jwt)        # deterministic signatures: the same token gives the same string
        if ph is None:
            ph = "JWT#%d" % (len(self.jwts) + 1)
            self.jwts[jwt] = ph
            self.tokens[ph] = tok
        return jwt, ph

    def coq_response(self, params, tok):
        """params: the delivered parameters with the id_token already replaced by its placeholder"""
        for k in ("code", "access_token"):
            if isinstance(params.get(k), str):
                self.hashed.add(params[k])
        return I.share("(mkResp %s %s)" % (coq_dict(params), coq_opt(tok, coq_token, "token")), "response")

    def _record(self, coq_op, kind, detail, out, before):
        after = self.snapshot()
        self.steps.append((coq_op, out, after))
        self.log.append({"op": kind, "detail": detail, "out": out, "before": before, "after": after})
        return out

    @staticmethod
    def modellable_out(out):
        return out[0] != "ok" or modellable(out[1])

    # -- operations
    def begin(self, iss, response_type="code"):
        before = self.snapshot()
        c = self.clients[iss]
        if self.rph is not None:
            url = self.rph.begin(iss, req_args={"response_type": response_type})
        else:
            url = c.init_authorization(req_args={"response_type": response_type})
        q = parse_qs(urlsplit(url).query)
        st, nonce = q["state"][0], q["nonce"][0]
        rec = dict(c.get_context().cstate._db[st])
        rec.pop("iss", None)
        self.flows.append({"issuer": iss, "state": st, "nonce": nonce})
        op = "(OBegin %s %s %s %s)" % (coq_str(iss), coq_str(st), coq_str(nonce), coq_dict(rec))
        self._record(op, "begin", {"issuer": iss, "state": st, "nonce": nonce}, ("ok", {}), before)
        return st, nonce

    def _deliver(self, params, tok):
        """returns (real params with the compact JWS, model params with the placeholder)"""
        real, model = dict(params), dict(params)
        if tok is not None:
            jwt, ph = self.placeholder(tok)
            real["id_token"], model["id_token"] = jwt, ph
        return real, model

    def authz(self, iss, params, tok=None):
        before = self.snapshot()
        real, model = self._deliver(params, tok)
        try:
            if self.rph is not None:
                r = self.rph.finalize_auth(None, iss, real)
            else:
                r = self.clients[iss].finalize_auth(real)
            out = ("ok", self._canon(r.to_dict()))
        except Exception as e:      # noqa: BLE001 - every refusal is an observation
            out = ("err", exc_name(e))
        op = "(OAuthz %s %s %s)" % (coq_str(iss), self.coq_response(model, tok), coq_z(self.clock.now))
        return self._record(op, "authz", {"issuer": iss, "params": model, "tok": tok, "now": self.clock.now}, out, before)

    # -- a front-channel response recombined member by member (Model/RpState.v hybrid / hybrid_response)
    def placeholder_once(self, tok):
        """placeholder() mints anew on every call, which is only stable for deterministic signatures (RS*); the
        ID Token of a flow is ONE compact string however often it is delivered (EC signatures are randomised)"""
        memo = self.__dict__.setdefault("_minted", {})
        hit = memo.get(id(tok))
        if hit is None or hit[0] is not tok:
            hit = (tok,) + tuple(self.placeholder(tok))
            memo[id(tok)] = hit
        return hit[1], hit[2]

    def coq_flow(self, fl):
        """fl: an object with state, nonce, code, aat (access token of the authorization endpoint) and tok (its
        ID Token); the ID Token is named by its placeholder"""
        _, ph = self.placeholder_once(fl.tok)
        return I.share("(mkFlow %s %s %s %s %s %s)" % (coq_str(fl.state), coq_str(fl.nonce), coq_str(fl.code),
                                                      coq_str(fl.aat), coq_str(ph), coq_token(fl.tok)), "flow")

    def authz_hybrid(self, iss, state_of, code_of=None, idt_of=None, at_of=None):
        """deliver {state of state_of, code of code_of, ID Token of idt_of, access token (+ token_type) of at_of}
        - each member present iff its flow is given - to the client of iss.  The model replays it as
        OAuthz iss (hybrid_response (mkHybrid ...)); the oracle gets the ground truth of every member."""
        before = self.snapshot()
        real = {"state": state_of.state}
        if code_of is not None:
            real["code"] = code_of.code
        if at_of is not None:
            real["access_token"] = at_of.aat
            real["token_type"] = "Bearer"
        model = dict(real)
        tok = None
        if idt_of is not None:
            tok = idt_of.tok
            jwt, ph = self.placeholder_once(tok)
            real["id_token"], model["id_token"] = jwt, ph
        for k in ("code", "access_token"):
            if k in real:
                self.hashed.add(real[k])
        for fl in (state_of, code_of, idt_of, at_of):     # the hash table covers every issued value of the flows named
            if fl is not None:
                self.hashed.update((fl.code, fl.aat))
        try:
            if self.rph is not None:
                r = self.rph.finalize_auth(None, iss, real)
            else:
                r = self.clients[iss].finalize_auth(real)
            out = ("ok", self._canon(r.to_dict()))
        except Exception as e:      # noqa: BLE001 - every refusal is an observation
            out = ("err", exc_name(e))
        fopt = lambda fl: coq_opt(fl, self.coq_flow, "flow")    # noqa: E731
        op = "(OAuthz %s (hybrid_response (mkHybrid %s %s %s %s)) %s)" % (
            coq_str(iss), self.coq_flow(state_of), fopt(code_of), fopt(idt_of), fopt(at_of), coq_z(self.clock.now))
        members = {"state": state_of.n, "code": None if code_of is None else code_of.n,
                   "id_token": None if idt_of is None else idt_of.n, "access_token": None if at_of is None else at_of.n}
        return self._record(op, "authz", {"issuer": iss, "params": model, "tok": tok, "now": self.clock.now,
                                          "members": members}, out, before)

    def token(self, iss, st, params, tok=None, routed=False):
        before = self.snapshot()
        real, model = self._deliver(params, tok)
        for i, c in self.clients.items():
            if routed or i == iss:
                c.fake_op.script(i + "/token", real)
        try:
            if routed:
                r = self.rph.get_tokens(st)
            else:
                r = self.clients[iss].get_tokens(st)
            out = ("ok", self._canon(r.to_dict()))
        except Exception as e:      # noqa: BLE001
            out = ("err", exc_name(e))
        if routed:
            op = "(ORoutedToken %s %s %s)" % (coq_str(st), self.coq_response(model, tok), coq_z(self.clock.now))
        else:
            op = "(OToken %s %s %s %s)" % (coq_str(iss), coq_str(st), self.coq_response(model, tok), coq_z(self.clock.now))
        return self._record(op, "routed_token" if routed else "token",
                            {"issuer": iss, "state": st, "params": model, "tok": tok, "now": self.clock.now}, out, before)

    def userinfo(self, iss, st, claims, routed=False):
        """get_user_info(st) on the client of iss - or (routed) rph.get_user_info(st): the client is found through
        the state; the user-info endpoint of every client then answers with claims"""
        before = self.snapshot()
        c = self.clients[iss]
        for i, cl in self.clients.items():
            if routed or i == iss:
                cl.fake_op.script(i + "/user", claims)
        try:
            r = self.rph.get_user_info(st) if routed else c.get_user_info(st)
            out = ("ok", self._canon(r.to_dict()))
        except Exception as e:      # noqa: BLE001
            out = ("err", exc_name(e))
        if routed:
            op = "(ORoutedUserinfo %s %s)" % (coq_str(st), coq_dict(claims))
        else:
            op = "(OUserinfo %s %s %s)" % (coq_str(iss), coq_str(st), coq_dict(claims))
        return self._record(op, "routed_userinfo" if routed else "userinfo",
                            {"issuer": iss, "state": st, "claims": claims}, out, before)

    def refresh(self, iss, st, params, tok=None, routed=False):
        """refresh_access_token(st) on the client of iss - or (routed) rph.refresh_access_token(st) - when the
        token endpoint answers 200 with params (+ the ID Token tok).  Model: ORefresh / ORoutedRefresh."""
        before = self.snapshot()
        real, model = self._deliver(params, tok)
        for i, c in self.clients.items():
            if routed or i == iss:
                c.fake_op.script(i + "/token", real)
        try:
            if routed:
                r = self.rph.refresh_access_token(st)
            else:
                r = self.clients[iss].refresh_access_token(st)
            out = ("ok", self._canon(r.to_dict()))
        except Exception as e:      # noqa: BLE001
            out = ("err", exc_name(e))
        if routed:
            op = "(ORoutedRefresh %s %s %s)" % (coq_str(st), self.coq_response(model, tok), coq_z(self.clock.now))
        else:
            op = "(ORefresh %s %s %s %s)" % (coq_str(iss), coq_str(st), self.coq_response(model, tok), coq_z(self.clock.now))
        return self._record(op, "routed_refresh" if routed else "refresh",
                            {"issuer": iss, "state": st, "params": model, "tok": tok, "now": self.clock.now}, out, before)

    def finalize(self, iss, params, token_body=None, token_tok=None, userinfo=None):
        """the high-level pipeline: client.finalize(response) / rph.finalize(iss, response) = finalize_auth, then
        get_tokens and get_user_info for the state of the authorization response, the token and user-info endpoints
        answering with token_body (+ ID Token token_tok) and userinfo.  Not replayed by the model (the trace is
        judged by the oracle only)."""
        before = self.snapshot()
        c = self.clients[iss]
        c.fake_op.next.pop(iss + "/token", None)
        c.fake_op.next.pop(iss + "/user", None)
        model_body = None
        if token_body is not None:
            real, model_body = self._deliver(token_body, token_tok)
            c.fake_op.script(iss + "/token", real)
        if userinfo is not None:
            c.fake_op.script(iss + "/user", userinfo)
        try:
            r = self.rph.finalize(iss, dict(params)) if self.rph is not None else c.finalize(dict(params))
            out = ("ok", {k: self._canon(v.to_dict() if hasattr(v, "to_dict") else v) for k, v in r.items()
                          if k in ("state", "error", "token", "issuer")})
        except Exception as e:      # noqa: BLE001
            out = ("err", exc_name(e))
        return self._record(None, "finalize", {"issuer": iss, "params": dict(params), "token_body": model_body,
                                               "tok": token_tok, "userinfo": userinfo, "now": self.clock.now}, out, before)

    # -- look-ups and other calls that take a state (C09: a value presented AS a state that is not one)
    PROBE_APIS = ("state2issuer", "client_from_session_key", "session", "routed_session", "has_active_authentication",
                  "routed_has_active_authentication", "get_valid_access_token", "routed_get_valid_access_token",
                  "logout", "routed_logout", "clear_session", "routed_clear_session")

    def probe(self, api, key, iss=None):
        """A call that takes a state and makes no request: RPHandler.state2issuer / get_client_from_session_key /
        get_session_information / has_active_authentication / get_valid_access_token / logout / clear_session and
        the same on the client of iss.  Model: state2issuer -> PIssuer, get_session_information on a client ->
        PSession; every other one is replayed as PSync (the model continues from the observed stores)."""
        before = self.snapshot()
        c = self.clients.get(iss)
        coq = None
        try:
            if api == "state2issuer":
                v = self.rph.state2issuer(key)
                out = ("ok", {} if v is None else {"iss": v})
                coq = "(inr (PIssuer %s))" % coq_str(key)
            elif api == "client_from_session_key":
                out = ("ok", {"iss": self.rph.get_client_from_session_key(key).get_context().issuer})
            elif api == "session":
                out = ("ok", self._canon(copy.deepcopy(dict(c.get_session_information(key)))))
                coq = "(inr (PSession %s %s))" % (coq_str(iss), coq_str(key))
            elif api == "routed_session":
                out = ("ok", self._canon(copy.deepcopy(dict(self.rph.get_session_information(key)))))
            elif api.endswith("has_active_authentication"):
                out = ("ok", {"active": bool((self.rph if api.startswith("routed") else c).has_active_authentication(key))})
            elif api.endswith("get_valid_access_token"):
                r = (self.rph if api.startswith("routed") else c).get_valid_access_token(key)
                out = ("ok", {"access_token": r[0], "expires_at": r[1]})
            elif api.endswith("logout"):
                r = (self.rph if api.startswith("routed") else c).logout(key)
                req = r["request"].to_dict()
                out = ("ok", {"state": req.get("state"), "id_token_hint": self._canon(req.get("id_token_hint"))})
            elif api.endswith("clear_session"):
                (self.rph if api.startswith("routed") else c).clear_session(key)
                out = ("ok", {})
            else:
                raise ValueError(api)
        except Exception as e:      # noqa: BLE001
            out = ("err", exc_name(e))
            if api == "session":
                coq = "(inr (PSession %s %s))" % (coq_str(iss), coq_str(key))
        return self._record(coq, "probe", {"api": api, "issuer": iss, "state": key}, out, before)

    def logout(self, iss, st, routed=False):
        """client.logout(st) / rph.logout(st): the end-session request for the session st; its `state` is drawn by the
        client and bound to st in the key map (EndSession.add_state).  Replayed by the model as PSync."""
        before = self.snapshot()
        try:
            r = self.rph.logout(st) if routed else self.clients[iss].logout(st)
            out = ("ok", {"state": r["request"].to_dict().get("state")})
        except Exception as e:      # noqa: BLE001
            out = ("err", exc_name(e))
        return self._record(None, "logout", {"issuer": iss, "state": st, "routed": routed}, out, before)

    def coq_ptrace(self):
        """the trace as a ptrace_case (Model/RpState.v): operations inl, look-ups inr (PIssuer / PSession), every
        call the model has no step for inr PSync"""
        cfgs = coq_list(["(%s, %s)" % (coq_str(i), coq_cfg(c)) for i, c in self.cfgs], "(pystr * rp_cfg)")
        rows = []
        for op, out, snap in self.steps:
            if op is None:
                rows.append("(inr PSync, (Ok [], %s))" % self.coq_snapshot(snap))
            else:
                rows.append("(%s, (%s, %s))" % (op if op.startswith("(inr ") else "(inl %s)" % op,
                                                coq_res_dict(out) if out[0] == "ok" else coq_exc(out[1]),
                                                self.coq_snapshot(snap)))
        return "(%s, %s, %s)" % (cfgs, coq_hash_table(sorted(self.hashed)), coq_list(rows))

    def modellable_p(self):
        return all((op is None or self.modellable_out(o)) and all(modellable(db) for _, db, _ in snap)
                   for op, o, snap in self.steps)

    # -- the case term
    def coq_trace(self):
        cfgs = coq_list(["(%s, %s)" % (coq_str(i), coq_cfg(c)) for i, c in self.cfgs], "(pystr * rp_cfg)")
        steps = coq_list(["(%s, (%s, %s))" % (op, coq_res_dict(out) if out[0] == "ok" else coq_exc(out[1]),
                                              self.coq_snapshot(snap)) for op, out, snap in self.steps])
        return "(%s, %s, %s)" % (cfgs, coq_hash_table(sorted(self.hashed)), steps)

    def modellable(self):
        if any(op is None for op, _, _ in self.steps):        # an operation the model has no step for (finalize)
            return False
        return all(self.modellable_out(o) and all(modellable(db) for _, db, _ in snap) for _, o, snap in self.steps)


TRACE_TYPE = "trace_case"
PTRACE_TYPE = "ptrace_case"
TRACE_IMPORTS = ["Lib.Base", "Lib.PyStr", "Lib.RpTy", "Gen.RpTables", "Model.IdToken", "Model.RpState"]


def make_world(clock, issuers=(ISS,), rph=False, **kw):
    """issuers: the providers this RP talks to (one client each); kw: make_client settings (all clients)."""
    from collections import OrderedDict
    clients = OrderedDict()
    handler = None
    if rph:
        from idpyoidc.client.rp_handler import RPHandler
        op = FakeOP()
        confs = {}
        for iss in issuers:
            cf = client_config(iss, CLIENT_ID, kw.get("sigalg") if kw.get("reg", "static") == "static" else None,
                               False, 0, kw.get("allow_missing_kid", False), extra=copy.deepcopy(kw.get("extra")))
            confs[iss] = cf
        kj = KeyJar()
        load_issuer_keys(kj, tuple(ISSUER_KEYS))
        handler = RPHandler(base_url="https://rp.example.com/cli/", client_configs=confs, keyjar=kj, httpc=op,
                            httpc_params={})
        for iss in issuers:
            c = handler.client_setup(iss)
            c.fake_op = op
            _post_setup(c, kw)
            clients[iss] = c
    else:
        for iss in issuers:
            clients[iss] = make_client(issuer=iss, known_issuers=tuple(ISSUER_KEYS), **kw)
    for c in clients.values():
        c.get_context().clock_skew = kw.get("skew", 0)
    return World(clients, clock, handler)


def _post_setup(client, kw):
    ctx = client.get_context()
    if kw.get("allow_none"):
        ctx.claims.set_usage("verify_args", {"allow_sign_alg_none": True})
    if kw.get("reg") == "dynamic":
        rr = {"client_id": CLIENT_ID, "client_secret": SECRET}
        if kw.get("sigalg") is not None:
            rr["id_token_signed_response_alg"] = kw["sigalg"]
        ctx.registration_response = rr


def enable_token_endpoint_auth(world):
    """what a configuration with `client_authn_methods: [client_secret_basic, client_secret_post]` sets up: the
    refresh_token service of a StandAloneClient authenticates with the client's token_endpoint_auth_method
    (client_secret_basic), which its own table (client_secret_post only) does not have"""
    from idpyoidc.client.client_auth import client_auth_setup, method_to_item
    for c in world.clients.values():
        c.get_context().client_authn_methods = client_auth_setup(
            method_to_item(["client_secret_basic", "client_secret_post"]))
    return world


def fresh_world(world):
    """A new, empty trace over the same real clients (their state stores are cleared)."""
    for c in world.clients.values():
        cs = c.get_context().cstate
        cs._db.clear()
        cs._map.clear()
        c.fake_op.next.clear()
    return World(world.clients, world.clock, world.rph)


# ================================================================================================
# C08 runners
# ================================================================================================
_MSG_JAR = None


def msg_keyjar(dec=True):
    global _MSG_JAR
    if _MSG_JAR is None:
        _MSG_JAR = {}
    if dec not in _MSG_JAR:
        kj = KeyJar()
        kj.add_symmetric("", SECRET)
        kj.add_symmetric(CLIENT_ID, SECRET)
        if dec:
            kj.import_jwks({"keys": [keys()["rp_enc"].serialize(private=True)]}, "")
        load_issuer_keys(kj, (ISS, ISS2))
        _MSG_JAR[dec] = (kj, jar_of(kj), dec_of(kj))
    return _MSG_JAR[dec]


MSG_VARIANTS = ("full", "no-nonce", "no-iss", "no-client_id", "allowed_sign_alg")


def run_msg_case(case, variant, clock):
    """Message API: oidc.AuthorizationResponse / AccessTokenResponse .verify(**kwargs)."""
    from idpyoidc.message.oidc import AuthorizationResponse, AccessTokenResponse
    cfg, ctx, tok = case["cfg"], case["ctx"], case["tok"]
    kj, jar, dec = msg_keyjar(cfg.get("dec", True))
    nonce = "n-0123456789abcdef"
    resolve(case, nonce, "n-other-flow-nonce")
    kw = {"keyjar": kj, "verify": True, "iss": ISS, "client_id": CLIENT_ID, "skew": cfg["skew"], "nonce": nonce}
    if cfg["sigalg"] is not None:
        kw["sigalg"] = cfg["sigalg"]
    if cfg["allow_none"]:
        kw["allow_sign_alg_none"] = True
    if cfg["allow_missing_kid"]:
        kw["allow_missing_kid"] = True
    if cfg.get("enc"):
        kw["encalg"], kw["encenc"] = cfg["enc"]
    if variant == "no-nonce":
        del kw["nonce"]
    elif variant == "no-iss":
        del kw["iss"]
    elif variant == "no-client_id":
        del kw["client_id"]
    elif variant == "allowed_sign_alg":
        kw["allowed_sign_alg"] = "RS256"
    is_authz = case["path"] == "msg_authz"
    params = {"state": "S-msg"} if is_authz else {"token_type": "Bearer"}
    if ctx.get("code"):
        params["code"] = ctx["code"]
    if ctx.get("access_token"):
        params["access_token"] = ctx["access_token"]
        params["token_type"] = "Bearer"
    if ctx.get("resp_iss"):
        params["iss"] = ctx["resp_iss"]
    if ctx.get("resp_client_id"):
        params["client_id"] = ctx["resp_client_id"]
    model_params = dict(params)
    jwt = mint_tok(tok)
    if not ctx.get("drop_id_token"):
        params["id_token"] = jwt
        model_params["id_token"] = "JWT#1"
    if ctx.get("forged"):
        params["__verified_id_token"] = ctx["forged"]
        model_params["__verified_id_token"] = ctx["forged"]
    clock.now = case["now"]
    try:
        msg = (AuthorizationResponse if is_authz else AccessTokenResponse)(**params)
        msg.verify(**kw)
        d = msg.to_dict()
        if "id_token" in d:
            d["id_token"] = "JWT#1"
        out = ("ok", d)
    except Exception as e:      # noqa: BLE001
        out = ("err", exc_name(e))
    hashed = [v for v in (params.get("code"), params.get("access_token")) if isinstance(v, str)]
    has_tok = "id_token" in model_params
    term = "(%s, %s, (mkResp %s %s), %s, %s, %s)" % (
        coq_bool(is_authz), coq_kwargs(kw, jar, dec), coq_dict(model_params),
        coq_opt(tok if has_tok else None, coq_token, "token"), coq_z(case["now"]), coq_hash_table(hashed),
        coq_res_dict(out) if out[0] == "ok" else coq_exc(out[1]))
    return out, term, kw


RESP_IMPORTS = ["Lib.Base", "Lib.PyStr", "Lib.RpTy", "Gen.RpTables", "Model.IdToken"]
RESP_TYPE = "resp_case"


def run_svc_case(world, case):
    """Service path on a real client: Service.parse_response + update_service_context through
    StandAloneClient.finalize_auth (authorization endpoint) / get_tokens (token endpoint).
    Returns (world-with-trace, out, state, sent nonce)."""
    w = fresh_world(world)
    w.clock.now = case["now"]
    ctx, tok = case["ctx"], case["tok"]
    st_other, nonce_other = w.begin(ISS, "code")                 # another pending flow of the same RP
    st, nonce = w.begin(ISS, "code id_token" if case["path"] == "svc_authz" else "code")
    resolve(case, nonce, nonce_other)
    extra = {}
    if ctx.get("forged"):
        extra["__verified_id_token"] = ctx["forged"]
    if ctx.get("resp_iss"):
        extra["iss"] = ctx["resp_iss"]
    if ctx.get("resp_client_id"):
        extra["client_id"] = ctx["resp_client_id"]
    the_tok = None if ctx.get("drop_id_token") else tok
    if case["path"] == "svc_authz":
        params = {"state": st}
        if ctx.get("code"):
            params["code"] = ctx["code"]
        if ctx.get("access_token"):
            params["access_token"] = ctx["access_token"]
            params["token_type"] = "Bearer"
        params.update(extra)
        out = w.authz(ISS, params, the_tok)
    else:
        w.authz(ISS, {"state": st, "code": "Co-for-token-endpoint"})
        params = {"access_token": ctx["access_token"], "token_type": "Bearer", "expires_in": 600}
        params.update({k: v for k, v in extra.items() if k == "__verified_id_token"})
        out = w.token(ISS, st, params, the_tok)
    return w, out, st, nonce
