"""C12 — validated full-stack configuration builder: this library's relying party (StandAloneClient)
against this library's provider, in one process.

`make_pair(cell)` builds a real OIDC provider (authorization, token, userinfo, introspection, pushed
authorization, provider-configuration endpoints; NoAuthn; one statically registered client) and a real
StandAloneClient for ONE cell of the configuration space; the RP's `httpc` (and the provider's `httpc`, used
to fetch request_uri documents) is a dispatcher that calls the provider's endpoints through
parse_request / process_request / do_response.  `run_flow(pair, ...)` drives one complete flow:

    provider info (dynamic discovery through the real provider_config endpoint)  ->  static registration
    -> RP init_authorization (plain | request object by value | request_uri | PAR; PKCE add-on on both sides)
    -> OP authorization endpoint -> delivery by query / fragment / form_post -> RP finalize
       (token request with the cell's client authentication method, userinfo request)
    -> RP introspection service -> RP refresh_access_token

and returns every observation the C12 oracle needs (views of client, sub, scope, nonce, exp).

Keys (RSA, EC P-256/384/521/secp256k1, Ed25519, Ed448; sig + enc) are generated once and cached under
/verif/build/C12/keys.  Nothing is ever written under the repository tree.
"""
import html.parser
import json
import os
import shutil
from urllib.parse import parse_qs, urlsplit

from cryptojwt.jws.jws import factory as jws_factory
from cryptojwt.jwe.jwe import factory as jwe_factory
from cryptojwt.key_jar import KeyJar, init_key_jar

import srv

VERIF = os.path.dirname(os.path.dirname(os.path.abspath(__file__)))
BASE = os.path.join(VERIF, "build", "C12")
KEYDIR = os.path.join(BASE, "keys")
RUNDIR = os.path.join(BASE, "run")
REQDIR = os.path.join(RUNDIR, "requests")
for _d in (KEYDIR, RUNDIR, REQDIR):
    os.makedirs(_d, exist_ok=True)


def reqdir():
    """request_uri documents of THIS process (flows run in several worker processes)"""
    d = os.path.join(REQDIR, str(os.getpid()))
    os.makedirs(d, exist_ok=True)
    return d

ISS = "https://op.c12.example"
RP_BASE = "https://rp.c12.example"
CLIENT_ID = "c12-client"
SECRET56 = "c12secret-0123456789abcdef0123456789abcdef0123456789abcd"   # 56 characters, the length Registration.secret() issues
SECRET32 = "c12secret-0123456789abcdef012345"   # 32 characters
assert len(SECRET56) == 56 and len(SECRET32) == 32
def _configurable_response_types():
    """every response type the relying-party half can be configured with (its response-mode table knows it)"""
    from idpyoidc.client.defaults import DEFAULT_RESPONSE_MODE
    return list(DEFAULT_RESPONSE_MODE.keys())


ALL_RTS = _configurable_response_types()
USER = "diana"

SIG_KEYDEFS = [
    {"type": "RSA", "key": "", "use": ["sig"]},
    {"type": "EC", "crv": "P-256", "use": ["sig"]},
    {"type": "EC", "crv": "P-384", "use": ["sig"]},
    {"type": "EC", "crv": "P-521", "use": ["sig"]},
    {"type": "EC", "crv": "P-256K", "use": ["sig"]},
    {"type": "OKP", "crv": "Ed25519", "use": ["sig"]},
    {"type": "OKP", "crv": "Ed448", "use": ["sig"]},
]
ENC_KEYDEFS = [
    {"type": "RSA", "key": "", "use": ["enc"]},
    {"type": "EC", "crv": "P-256", "use": ["enc"]},
]

AUTHZ = {
    "class": "idpyoidc.server.authz.AuthzHandling",
    "kwargs": {"grant_config": {
        "usage_rules": {
            "authorization_code": {"supports_minting": ["access_token", "refresh_token", "id_token"],
                                   "max_usage": 1, "expires_in": 300},
            "access_token": {"expires_in": 600},
            "refresh_token": {"supports_minting": ["access_token", "refresh_token", "id_token"],
                              "expires_in": 3600},
        },
        "expires_in": 43200}},
}


def _cached_jwks(name):
    """Private JWKS generated once and kept in build/C12/keys/<name>.json.

    Two adjustments are part of the VALIDATED configuration (cryptojwt 1.11 key selection, trusted base):
      * pick_key looks for curve "P-512" when asked for ES512, so the P-521 key carries "alg": "ES512";
      * pick_key takes the first OKP key for Ed448 / Ed25519 / EdDSA alike, so the Ed448 key carries
        "alg": "Ed448" and is listed before the (unannotated) Ed25519 key.
    """
    path = os.path.join(KEYDIR, name + ".json")
    kj = init_key_jar(private_path=path, key_defs=SIG_KEYDEFS + ENC_KEYDEFS, issuer_id="", read_only=False)
    keys = kj.export_jwks(private=True)["keys"]
    for k in keys:
        if k.get("kty") == "EC" and k.get("crv") == "P-521" and k.get("use") == "sig":
            k["alg"] = "ES512"
        if k.get("kty") == "OKP" and k.get("crv") == "Ed448":
            k["alg"] = "Ed448"
    keys.sort(key=lambda k: 0 if k.get("alg") == "Ed448" else 1)      # stable: Ed448 first
    return {"keys": keys}


def _public(jwks):
    pub = []
    for k in jwks["keys"]:
        pub.append({a: v for a, v in k.items() if a not in ("d", "p", "q", "dp", "dq", "qi", "k")})
    return {"keys": pub}


_KEYS = {}


def op_jwks():
    if "op" not in _KEYS:
        _KEYS["op"] = _cached_jwks("op")
    return _KEYS["op"]


def rp_jwks():
    if "rp" not in _KEYS:
        priv = _cached_jwks("rp")
        _KEYS["rp"] = (priv, _public(priv))
    return _KEYS["rp"]


class Resp:
    def __init__(self, status, text, ctype, url):
        self.status_code, self.text, self.url = status, text, url
        self.headers = {"content-type": ctype}
        self.status = status


class FormP(html.parser.HTMLParser):
    def __init__(self):
        super().__init__()
        self.f = {}
        self.action = None

    def handle_starttag(self, tag, attrs):
        a = dict(attrs)
        if tag == "input" and "name" in a:
            self.f[a["name"]] = a.get("value", "")
        if tag == "form":
            self.action = a.get("action")


# a cell of the configuration space -------------------------------------------------------------
DEFAULT_CELL = {
    "rt": "code",              # response type
    "rm": None,                # response mode: None (not requested) | query | fragment | form_post
    "auth": "client_secret_basic",
    "at_jwt": False,           # JWT access token
    "rf_jwt": False,           # JWT refresh token
    "idt_sig": "RS256",
    "idt_enc": None,           # None | (alg, enc)
    "ui_sig": None,            # None (JSON) | alg
    "ui_enc": None,            # None | (alg, enc)
    "transport": "plain",      # plain | request | request_uri | par
    "pkce": None,              # None | method name
    # harness inputs that are not configuration dimensions of the property but decide outcomes on this tree
    "secret_len": 32,          # 32 | 56 (client secret length; 56 is what the provider's registration issues)
    "rp_all_rts": False,       # RP configured with all three response types (True) or only the cell's (False)
    "op_explicit": True,       # provider configuration states response_types_supported explicitly
}


def cell_of(**kw):
    c = dict(DEFAULT_CELL)
    c.update(kw)
    return c


class Pair:
    """One provider + one relying party configured for one cell."""

    def __init__(self, cell, clock=None, latency=0, allowed_scopes=None, client_id=None, share=None,
                 token_usage_rules=None, authz=None, lifetimes=None):
        """client_id: the client identifier of this relying party (default: CLIENT_ID).  share: another Pair whose
        PROVIDER INSTANCE this relying party uses too (several clients registered at one provider; the provider is
        not built again, `cell` then only configures the relying party and its client record).
        token_usage_rules: per-client usage rules the operator puts into this client's record (None: none).
        authz / lifetimes: the provider's authz configuration (default AUTHZ) and token-handler lifetimes
        (srv.op_conf `lifetimes`), for providers whose usage rules state no lifetime."""
        self.cell = cell
        self.client_id = client_id or CLIENT_ID
        self.share = share
        self.token_usage_rules = token_usage_rules
        self.authz = authz if authz is not None else AUTHZ
        self.lifetimes = lifetimes
        # what the operator allows this client: None = every scope value the provider knows, stated in the client
        # record (the configuration of all flows that do not vary it); "unset" = the record has no allowed_scopes;
        # a list = exactly these
        self.allowed_scopes = allowed_scopes
        self.token_requests = []        # bodies of the requests that reached the token endpoint, as sent
        self.latency = latency          # seconds the controlled clock advances while a token response travels
        self.token_times = []           # (provider clock when the token response was made, RP clock on arrival)
        self.secret = SECRET56 if cell.get("secret_len", 32) == 56 else SECRET32
        self.rp_rts = list(ALL_RTS) if cell.get("rp_all_rts") else [cell["rt"]]
        self.log = []        # (endpoint, status, detail) of every dispatched HTTP exchange
        self.clock = clock
        if share is not None:
            self.server, self.ctx, self.ep = share.server, share.ctx, share.ep
        else:
            self._build_op()
        self._build_rp()

    # ------------------------------------------------------------------ provider
    def _build_op(self):
        from idpyoidc.server import Server
        from idpyoidc.server.configure import OPConfiguration
        c = self.cell
        add_ons = {}
        if c["pkce"]:
            add_ons["pkce"] = {"function": "idpyoidc.server.oauth2.add_on.pkce.add_support",
                               "kwargs": {"essential": True}}
        extra = {
            "issuer": ISS,
            "keys": {"uri_path": "jwks.json"},
            # stated explicitly: the merged endpoint `_supports` is last-endpoint-wins, and the pushed
            # authorization endpoint (configured after the OIDC authorization endpoint) says ["code"]
            "scopes_supported": ["openid", "profile", "email", "address", "phone", "offline_access"],
            "encrypt_id_token_supported": True,
            "encrypt_userinfo_supported": True,
        }
        if c.get("op_explicit", True):
            extra["response_types_supported"] = list(ALL_RTS)
        conf = srv.op_conf(jwt_access=c["at_jwt"], jwt_refresh=c["rf_jwt"], oidc=True, authz=self.authz,
                           add_ons=add_ons or None, extra=extra, lifetimes=self.lifetimes,
                           endpoints={"introspection": {"client_authn_method": [
                               "client_secret_post", "client_secret_basic", "client_secret_jwt", "private_key_jwt"]}})
        okj = KeyJar()
        okj.import_jwks(op_jwks(), "")
        okj.import_jwks(op_jwks(), ISS)
        self.server = Server(OPConfiguration(conf=conf, base_path=RUNDIR), cwd=RUNDIR, keyjar=okj)
        self.ctx = self.server.context
        self.ctx.httpc = self.httpc
        self.ep = {k: self.server.get_endpoint(k) for k in
                   ("provider_config", "authorization", "token", "userinfo", "introspection", "pushed_authorization")}

    # ------------------------------------------------------------------ relying party
    def _build_rp(self):
        from idpyoidc.client.oauth2.stand_alone_client import StandAloneClient
        c = self.cell
        priv, pub = rp_jwks()
        kj = KeyJar()
        kj.import_jwks(priv, "")
        kj.import_jwks(priv, self.client_id)
        kj.add_symmetric("", self.secret)
        kj.add_symmetric(self.client_id, self.secret)
        kj.httpc = self.httpc
        kj.httpc_params = {}
        services = {
            "discovery": {"class": "idpyoidc.client.oidc.provider_info_discovery.ProviderInfoDiscovery"},
            "registration": {"class": "idpyoidc.client.oidc.registration.Registration"},
            "authorization": {"class": "idpyoidc.client.oidc.authorization.Authorization"},
            "accesstoken": {"class": "idpyoidc.client.oidc.access_token.AccessToken"},
            "refresh_token": {"class": "idpyoidc.client.oidc.refresh_access_token.RefreshAccessToken"},
            "userinfo": {"class": "idpyoidc.client.oidc.userinfo.UserInfo"},
            "introspection": {"class": "idpyoidc.client.oauth2.introspection.Introspection"},
        }
        add_ons = {}
        if c["pkce"]:
            add_ons["pkce"] = {"function": "idpyoidc.client.oauth2.add_on.pkce.add_support",
                               "kwargs": {"code_challenge_length": 64, "code_challenge_method": c["pkce"]}}
        if c["transport"] == "par":
            add_ons["pushed_authorization"] = {
                "function": "idpyoidc.client.oauth2.add_on.par.add_support",
                "kwargs": {"authn_method": c["auth"] if c["auth"] in (
                    "client_secret_basic", "client_secret_post", "client_secret_jwt", "private_key_jwt")
                    else "client_secret_basic"}}
        conf = {
            "base_url": RP_BASE,
            "client_id": self.client_id,
            "client_secret": self.secret,
            "client_type": "oidc",
            "issuer": ISS,
            "provider_info": {"issuer": ISS},
            "httpc_params": {},
            "services": services,
            "client_authn_methods": ["client_secret_basic", "client_secret_post", "client_secret_jwt",
                                     "private_key_jwt", "bearer_header", "bearer_body"],
            "response_types_supported": list(self.rp_rts),
            "response_modes_supported": ["query", "fragment", "form_post"],
            "token_endpoint_auth_methods_supported": [c["auth"]],
            "id_token_signing_alg_values_supported": [c["idt_sig"]],
            "scopes_supported": ["openid", "profile", "email", "address", "phone", "offline_access"],
            "requests_dir": reqdir(),
        }
        if c["auth"] in ("client_secret_jwt", "private_key_jwt"):
            conf["token_endpoint_auth_signing_alg_values_supported"] = [
                "HS256" if c["auth"] == "client_secret_jwt" else "RS256"]
        if c["idt_enc"]:
            conf["encrypt_id_token_supported"] = True
            conf["id_token_encryption_alg_values_supported"] = [c["idt_enc"][0]]
            conf["id_token_encryption_enc_values_supported"] = [c["idt_enc"][1]]
        if c["ui_sig"]:
            conf["userinfo_signing_alg_values_supported"] = [c["ui_sig"]]
        else:
            conf["userinfo_signing_alg_values_supported"] = []
        if c["ui_enc"]:
            conf["encrypt_userinfo_supported"] = True
            conf["userinfo_encryption_alg_values_supported"] = [c["ui_enc"][0]]
            conf["userinfo_encryption_enc_values_supported"] = [c["ui_enc"][1]]
        if c["transport"] == "request":
            conf["request_parameter_supported"] = True
        elif c["transport"] == "request_uri":
            conf["request_uri_parameter_supported"] = True
        if add_ons:
            conf["add_ons"] = add_ons
        self.rp_conf = conf
        self.rp = StandAloneClient(config=conf, keyjar=kj, httpc=self.httpc)
        self.rp_pub_jwks = pub

    # ------------------------------------------------------------------ static registration at the OP
    def register_static(self):
        """Static registration: the provider-side client record is what THIS relying-party instance says it
        uses after discovery (`claims.use`, i.e. what it would have sent in a registration request) - the
        harness adds nothing of its own except the secret, the salt and the allowed scopes."""
        rctx = self.rp.get_context()
        use = rctx.claims.use
        rec = {
            "client_id": self.client_id,
            "client_secret": self.secret,
            "client_salt": "salted",
            "redirect_uris": [(u, None) for u in (use.get("redirect_uris") or [])],
            "allowed_scopes": ["openid", "profile", "email", "address", "phone", "offline_access"],
        }
        if self.allowed_scopes == "unset":
            del rec["allowed_scopes"]
        elif self.allowed_scopes is not None:
            rec["allowed_scopes"] = list(self.allowed_scopes)
        for k in ("token_endpoint_auth_method", "token_endpoint_auth_signing_alg",
                  "id_token_signed_response_alg", "id_token_encrypted_response_alg", "id_token_encrypted_response_enc",
                  "userinfo_signed_response_alg", "userinfo_encrypted_response_alg", "userinfo_encrypted_response_enc",
                  "request_object_signing_alg", "subject_type", "grant_types", "application_type"):
            if use.get(k):
                rec[k] = use[k]
        if use.get("response_types"):
            # the authorization endpoint reads the registered response types under this name
            rec["response_types_supported"] = list(use["response_types"])
        if use.get("request_uris"):
            rec["request_uris"] = [(u, None) for u in use["request_uris"]]
        if self.token_usage_rules is not None:
            import copy
            rec["token_usage_rules"] = copy.deepcopy(self.token_usage_rules)
        self.ctx.cdb[self.client_id] = rec
        self.server.keyjar.add_symmetric(self.client_id, self.secret)
        self.server.keyjar.import_jwks(self.rp_pub_jwks, self.client_id)
        self.rp_use = {k: v for k, v in use.items() if k not in ("client_secret", "jwks")}
        return rec

    # ------------------------------------------------------------------ HTTP dispatcher
    def httpc(self, method, url, data=None, headers=None, **kw):
        u = urlsplit(url)
        host = "%s://%s" % (u.scheme, u.netloc)
        path = u.path.strip("/")
        if host == RP_BASE:
            # a request_uri document written by the RP into its requests directory
            fn = os.path.join(reqdir(), os.path.basename(path))
            if path.startswith("requests/") and os.path.isfile(fn):
                self.log.append(("rp:" + path, 200, ""))
                return Resp(200, open(fn).read(), "application/jwt", url)
            self.log.append(("rp:" + path, 404, ""))
            return Resp(404, "not found", "text/plain", url)
        if host != ISS:
            self.log.append((url, 404, "unknown host"))
            return Resp(404, "unknown host", "text/plain", url)
        if path == "jwks.json":
            self.log.append(("jwks", 200, ""))
            return Resp(200, self.server.keyjar.export_jwks_as_json(), "application/json", url)
        name = {".well-known/openid-configuration": "provider_config", "token": "token", "userinfo": "userinfo",
                "introspection": "introspection", "par": "pushed_authorization"}.get(path)
        if name is None:
            self.log.append((path, 404, "no endpoint"))
            return Resp(404, "no such endpoint", "text/plain", url)
        ep = self.ep[name]
        hi = {"headers": {k.lower(): v for k, v in (headers or {}).items()}, "method": method, "url": url}
        from idpyoidc.message.oauth2 import is_error_message
        try:
            if name == "provider_config":
                pr = ep.parse_request(None, http_info=hi)
            elif name == "userinfo":
                pr = ep.parse_request(data or {}, http_info=hi)
            else:
                pr = ep.parse_request(data, http_info=hi)
            if is_error_message(pr):
                self.log.append((name, 400, "parse: %s" % pr.to_dict()))
                return Resp(400, pr.to_json(), "application/json", url)
            r = ep.process_request(pr, http_info=hi)
            if is_error_message(r) or (isinstance(r, dict) and "error" in r):
                body = r.to_json() if hasattr(r, "to_json") else json.dumps(r)
                self.log.append((name, 400, "process: %s" % body))
                return Resp(400, body, "application/json", url)
            if isinstance(r, dict) and "http_response" in r:
                # the pushed-authorization endpoint hands the HTTP layer a ready-made JSON body
                self.log.append((name, 200, ""))
                return Resp(200, json.dumps(r["http_response"]), "application/json", url)
            if name == "token":
                self.last_token_response = dict(r["response_args"]) if "response_args" in r else None
                self.token_requests.append(data)
            out = ep.do_response(request=pr, **r)
            if name == "token" and self.clock is not None:
                t_op = self.clock.now
                if self.latency:
                    self.clock.tick(self.latency)
                self.token_times.append((t_op, self.clock.now))
            ct = dict(out["http_headers"]).get("Content-type", "application/json")
            self.log.append((name, 200, ""))
            if name == "userinfo":
                self.last_userinfo_wire = (ct, out["response"])
            return Resp(200, out["response"], ct.split(";")[0], url)
        except Exception as ex:   # a crash inside the provider is a 500
            import traceback
            self.log.append((name, 500, "%s: %s | %s" % (type(ex).__name__, ex, traceback.format_exc()[-600:])))
            return Resp(500, "%s: %s" % (type(ex).__name__, ex), "text/plain", url)


def clean_requests_dir():
    d = reqdir()
    for f in os.listdir(d):
        try:
            os.remove(os.path.join(d, f))
        except OSError:
            pass


class FlowFailure(Exception):
    def __init__(self, stage, detail):
        Exception.__init__(self, "%s: %s" % (stage, detail))
        self.stage, self.detail = stage, detail
        self.where = stage      # canonical place of the failure, refined by run_flow


# canonical failure places (what the model predicts):
#   rp_init        the relying party cannot construct the authorization request
#   par            the pushed-authorization endpoint refuses the pushed request
#   authz_parse    the provider's authorization endpoint refuses the request when parsing it
#   authz_process  ... refuses / answers with an error when processing it
#   rp_finalize    the relying party rejects the authorization / token / userinfo response it received
#   token          the token request fails
#   userinfo       the userinfo request fails
#   other:<stage>  anything else
def canonical_where(stage, log):
    if stage == "init_authorization":
        for name, status, _ in reversed(log):
            if name == "pushed_authorization" and status != 200:
                return "par"
        return "rp_init"
    if stage in ("authz_parse",):
        return "authz_parse"
    if stage in ("authz_process", "authorization_response", "authorization"):
        return "authz_process"
    if stage == "finalize":
        for name, status, _ in reversed(log):
            if status != 200 and name in ("token", "userinfo"):
                return name
        return "rp_finalize"       # the relying party itself rejects what it received
    return "other:" + stage


def jose_headers(token):
    """(jwe_header | None, jws_header | None) of a compact JOSE object, looking inside nothing."""
    try:
        parts = token.split(".")
    except Exception:
        return None, None
    import base64

    def hdr(p):
        try:
            return json.loads(base64.urlsafe_b64decode(p + "=" * (-len(p) % 4)))
        except Exception:
            return None
    if len(parts) == 5:
        return hdr(parts[0]), None
    if len(parts) == 3:
        return None, hdr(parts[0])
    return None, None


def wire_scope(body):
    """the scope parameter of a request body as it was sent (urlencoded text or a mapping); None when absent"""
    if isinstance(body, (bytes, bytearray)):
        body = body.decode()
    if isinstance(body, str):
        v = parse_qs(body).get("scope")
        return v[0].split(" ") if v else None
    if isinstance(body, dict) or hasattr(body, "keys"):
        v = body.get("scope") if "scope" in body else None
        if isinstance(v, str):
            return v.split(" ")
        return list(v) if v is not None else None
    return None


def run_flow(pair, scope, claims=None, extra_args=None, do_refresh=True, do_introspect=True, user=USER,
             refresh_pauses=(37, 41), refresh_scopes=None, setup=True, introspect_refresh=False):
    """Drive one complete flow.  setup=False: a further flow of a relying party that already ran discovery and is
    registered (its second, third ... flow on the same provider instance).  introspect_refresh: the relying party
    also asks the introspection endpoint about the REFRESH token it was given (obs["introspection_refresh"]). Returns an observation dict; raises FlowFailure(stage, detail) when a step
    does not complete.  refresh_scopes: per refresh round, the scope the relying party's caller asks the refreshed
    token to be valid for (None / missing = nothing asked, the relying party sends what it has on record)."""
    from idpyoidc.message.oauth2 import is_error_message
    c = pair.cell
    rp, server = pair.rp, pair.server
    obs = {"cell": c, "stages": [], "user": user}
    srv.set_user(server, user)
    # a relying party may run several flows: only what THIS flow adds to the pair's logs belongs to it
    log0, times0 = len(pair.log), len(pair.token_times)

    def stage(name, fn):
        try:
            r = fn()
        except FlowFailure as f:
            f.where = canonical_where(f.stage, pair.log[log0:])
            raise
        except Exception as e:
            f = FlowFailure(name, "%s: %s | log=%s" % (type(e).__name__, str(e)[:300], pair.log[-3:]))
            f.where = canonical_where(name, pair.log[log0:])
            raise f
        obs["stages"].append(name)
        return r

    if setup:
        stage("provider_info", rp.do_provider_info)
    # the scope values the provider advertises, as the relying party read them from the discovery document
    obs["advertised_scopes"] = list((rp.get_context().provider_info or {}).get("scopes_supported") or [])
    if setup:
        stage("registration", rp.do_client_registration)
        rec = pair.register_static()
    else:
        rec = dict(pair.ctx.cdb[pair.client_id])
    obs["op_client_record"] = {k: v for k, v in rec.items() if k not in ("client_secret",)}

    args = {"response_type": c["rt"], "scope": list(scope)}
    if c["rm"]:
        args["response_mode"] = c["rm"]
    if claims:
        args["claims"] = claims
    args.update(extra_args or {})
    cst = rp.get_context().cstate
    before = set(cst._db.keys())
    beh = None
    if c["transport"] in ("request", "request_uri"):
        beh = {"request_param": c["transport"]}
    url = stage("init_authorization", lambda: rp.init_authorization(req_args=args, behaviour_args=beh))
    obs["authz_url"] = url
    q = parse_qs(urlsplit(url).query)
    obs["authz_query_keys"] = sorted(q)
    # the state the RP created for this request (a request object / pushed request keeps it out of the URL)
    new = [k for k in cst._db.keys() if k not in before and "state" in (cst._db[k] or {})]
    if len(new) != 1:
        new = [k for k in cst._db.keys() if k not in before and (cst._db[k] or {}).get("state") == k]
    if len(new) != 1:
        raise FlowFailure("init_authorization", "cannot identify the RP state: %r" % (new,))
    st = obs["state"] = new[0]
    if "state" in q and q["state"][0] != st:
        raise FlowFailure("init_authorization", "state in URL differs from the RP state")
    rp_req = cst.get(st)
    obs["rp_nonce"] = rp_req.get("nonce")
    obs["rp_scope"] = rp_req.get("scope")

    az = pair.ep["authorization"]

    def authz():
        pr = az.parse_request(urlsplit(url).query)
        if is_error_message(pr):
            raise FlowFailure("authz_parse", str(pr.to_dict())[:400])
        r = az.process_request(pr)
        if is_error_message(r):
            raise FlowFailure("authz_process", str(r.to_dict())[:400])
        if "response_args" in r and is_error_message(r["response_args"]):
            raise FlowFailure("authz_process", str(r["response_args"].to_dict())[:400])
        out = az.do_response(request=pr, **r)
        return pr, r, out
    pr, r, out = stage("authorization", authz)
    obs["session_id"] = r.get("session_id")
    payload = out["response"]
    # ---- delivery
    if isinstance(payload, str) and payload.lstrip().lower().startswith(("<html", "<!doctype")):
        p = FormP()
        p.feed(payload)
        delivered, obs["delivery"], obs["delivered_to"] = p.f, "form_post", p.action
    else:
        u = urlsplit(payload)
        if u.fragment:
            delivered = {k: v[0] for k, v in parse_qs(u.fragment).items()}
            obs["delivery"] = "fragment"
        else:
            delivered = {k: v[0] for k, v in parse_qs(u.query).items()}
            obs["delivery"] = "query"
        obs["delivered_to"] = "%s://%s%s" % (u.scheme, u.netloc, u.path)
    obs["delivered_keys"] = sorted(delivered)
    obs["delivered"] = dict(delivered)
    if "error" in delivered:
        f = FlowFailure("authorization_response", str(delivered)[:400])
        f.where = "authz_process"
        raise f

    pair.last_token_response = None
    pair.last_userinfo_wire = None

    def fin():
        res = rp.finalize(dict(delivered))
        if "error" in res:
            raise FlowFailure("finalize", "%s | log=%s" % (str(res)[:300], pair.log[-3:]))
        return res
    res = stage("finalize", fin)
    obs["finalize"] = {
        "userinfo": dict(res["userinfo"]) if res.get("userinfo") is not None else None,
        "id_token": res["id_token"].to_dict() if res.get("id_token") is not None else None,
        "token": res.get("token"),
        "state": res.get("state"),
        "issuer": res.get("issuer"),
    }
    if res.get("id_token") is not None:
        idt = res["id_token"]
        obs["id_token_jws_header"] = dict(getattr(idt, "jws_header", None) or {})
        obs["id_token_jwe_header"] = dict(getattr(idt, "jwe_header", None) or {}) or None
    obs["token_response"] = dict(pair.last_token_response) if pair.last_token_response else None
    obs["token_times"] = list(pair.token_times[times0:])
    obs["userinfo_wire"] = pair.last_userinfo_wire
    # the ID Token string the relying party ended up with (token response, else authorization response)
    obs["raw_id_token"] = (obs["token_response"] or {}).get("id_token") or delivered.get("id_token")
    obs["id_token_from"] = ("token" if (obs["token_response"] or {}).get("id_token") else
                            "authz" if delivered.get("id_token") else None) if res.get("id_token") is not None else None
    _at = res.get("token")
    obs["access_token_from"] = (None if not _at else "token" if (obs["token_response"] or {}).get("access_token") == _at
                                else "authz" if delivered.get("access_token") == _at else "unknown")
    obs["rp_client_id"] = rp.get_client_id()
    obs["rp_callbacks"] = (rp.get_context().get_preference("callback_uris") or {}).get("redirect_uris")
    obs["rp_use"] = dict(getattr(pair, "rp_use", {}))
    obs["rp_state"] = {k: v for k, v in cst.get(st).items()}

    # ---- provider side records
    if obs["session_id"]:
        g = server.context.session_manager.get_grant(obs["session_id"])
        obs["op_grant"] = {"sub": g.sub, "scope": list(g.scope or []),
                           "client_id": server.context.session_manager.decrypt_session_id(obs["session_id"])[1],
                           "user_id": server.context.session_manager.decrypt_session_id(obs["session_id"])[0],
                           "nonce": (g.authorization_request or {}).get("nonce"),
                           "requested": list((g.authorization_request or {}).get("scope") or []),
                           "expires_at": g.expires_at}
        obs["op_tokens"] = [{"class": t.token_class, "value": t.value, "scope": list(t.scope or []),
                             "expires_at": t.expires_at, "issued_at": t.issued_at, "used": t.used,
                             "revoked": t.revoked} for t in g.issued_token]

    at = res.get("token")
    if at and do_introspect:
        def intro():
            return rp.do_request("introspection", request_args={"token": at},
                                 authn_method="client_secret_basic", state=st)
        ir = stage("introspection", intro)
        obs["introspection"] = ir.to_dict() if hasattr(ir, "to_dict") else dict(ir)
    _rft = (obs["token_response"] or {}).get("refresh_token")
    if _rft and introspect_refresh:
        def intro_rf():
            return rp.do_request("introspection", request_args={"token": _rft},
                                 authn_method="client_secret_basic", state=st)
        irf = stage("introspection_refresh", intro_rf)
        obs["introspection_refresh"] = irf.to_dict() if hasattr(irf, "to_dict") else dict(irf)
    # ---- refresh rounds: the clock moves on, the RP refreshes, and every observation point is read again for the
    #      REFRESHED access token (token response of the refresh, RP state, introspection, userinfo, session record)
    obs["refresh_rounds"] = []
    if at and do_refresh and (obs["token_response"] or {}).get("refresh_token"):
        for rnd, pause in enumerate(refresh_pauses):
            if pair.clock is not None:
                pair.clock.tick(pause)
            n_times = len(pair.token_times)
            n_reqs = len(pair.token_requests)
            asked = (list(refresh_scopes[rnd]) if refresh_scopes and rnd < len(refresh_scopes)
                     and refresh_scopes[rnd] is not None else None)

            def refresh():
                if asked is not None:
                    return rp.refresh_access_token(st, scope=list(asked))
                return rp.refresh_access_token(st)
            rr = stage("refresh", refresh)
            if rnd == 0:      # kept for the first round (older consumers)
                obs["refresh_response"] = rr.to_dict()
                obs["token_response_refresh"] = dict(pair.last_token_response) if pair.last_token_response else None
            tr = dict(pair.last_token_response) if pair.last_token_response else {}
            new_at = tr.get("access_token")
            sent = pair.token_requests[n_reqs:]
            rd = {"round": rnd + 1, "pause": pause, "token_response": tr, "asked_scope": asked,
                  "request_scope": wire_scope(sent[-1]) if sent else None, "n_token_requests": len(sent),
                  "token_times": list(pair.token_times[n_times:]),
                  "rp_state": {k: v for k, v in cst.get(st).items()},
                  "rp_response": rr.to_dict()}
            if new_at and do_introspect:
                def intro2():
                    return rp.do_request("introspection", request_args={"token": new_at},
                                         authn_method="client_secret_basic", state=st)
                ir2 = stage("introspection", intro2)
                rd["introspection"] = ir2.to_dict() if hasattr(ir2, "to_dict") else dict(ir2)

                def ui2():
                    return rp.get_user_info(st)
                try:
                    u2 = stage("userinfo_after_refresh", ui2)
                    rd["userinfo"] = dict(u2)
                except FlowFailure as f:
                    rd["userinfo_error"] = f.detail[:200]
            if obs["session_id"]:
                g = server.context.session_manager.get_grant(obs["session_id"])
                rd["op_grant"] = {"sub": g.sub, "scope": list(g.scope or []),
                                  "client_id": server.context.session_manager.decrypt_session_id(obs["session_id"])[1],
                                  "nonce": (g.authorization_request or {}).get("nonce")}
                rd["op_tokens"] = [
                    {"class": t.token_class, "value": t.value, "scope": list(t.scope or []),
                     "expires_at": t.expires_at, "issued_at": t.issued_at, "used": t.used, "revoked": t.revoked}
                    for t in g.issued_token]
                if rnd == 0:
                    obs["op_tokens_after_refresh"] = rd["op_tokens"]
            obs["refresh_rounds"].append(rd)
            if not tr.get("refresh_token"):
                break
    obs["http_log"] = [(a, b) for a, b, _ in pair.log[log0:]]
    return obs
