"""harness/schema_decl.py - C11: the DECLARED schema of every Message subclass, established from the SOURCE TEXT of
the class bodies, independently of import order and of what other class bodies (or module-level code) did to the
schema dicts at import time; and the run-time ISOLATION probe (fresh interpreters, one module each).

Why: the run-time `c_param` of a class is a mutable dict hanging off the class object.  A class body
    c_param = Parent.c_param            # no .copy()
    c_param.update({...})
makes the subclass ALIAS and MUTATE the parent's table while the module is imported.  A check that reads the schema
off the class objects it verifies follows the mutated table and sees a self-consistent (but wrong) world.

(1) `declared(...)`: every class body is parsed with `ast` and its statements about `c_param`, `c_default`,
    `c_allowed_values` are evaluated by VALUE: `X.c_param` (with or without `.copy()`) denotes the declared table of
    class X - never a shared object - so no class body can change another class's declared table.  Entries that are
    names (SINGLE_REQUIRED_STRING) or literal tuples / lists are resolved in the defining module's namespace (immutable
    tuples of types and functions).  A class that does not assign a table inherits the declared table of the first
    class of its MRO that does.  Fail closed: a statement shape outside the subset below makes the class REFUSED (listed
    with the reason); refused classes are then covered by the isolation probe only.
    Module-level / function-level statements that assign into some class's table at import time are not evaluated:
    they show as a difference between the declared and the run-time table.

(2) `isolation_probe(...)`: for a list of modules, a fresh interpreter imports ONLY that module (and what it pulls
    in itself) and reports the tables of every Message subclass then loaded, plus which classes share one dict object.

Accepted statement shapes inside a class body (T one of the three table names):
    T = {k: e, ...}            T = X.T            T = X.T.copy()        T = dict(X.T)     T = {}
    T.update({k: e, ...})      T.update(X.T)      T.update(X.T.copy())
    T[k] = e                   del T[k]           T.pop(k) / T.pop(k, None)   (expression statement)
    T[k].extend([e, ...])      T[k].append(e)     (the entry under k must be a list; by VALUE: the class gets its own list)
with k a string literal, X a dotted name that resolves (in the module's namespace) to a Message subclass of the
package, and e an expression built from names, attributes, constants, tuples, lists, `X.T[k]` / `T[k]` (the declared
entry, copied) and `+` between lists.  Everything else that mentions a table name is refused.
"""
import ast
import json
import os
import subprocess
import sys

TABLES = ("c_param", "c_default", "c_allowed_values")


class Refused(Exception):
    pass


def qn(c):
    return c.__module__ + "." + c.__qualname__


# ------------------------------------------------------------------------------------------------ (1) declared
def _module_ast(mod, cache):
    f = getattr(mod, "__file__", None)
    if not f or not f.endswith(".py"):
        raise Refused("module %s has no python source file" % mod.__name__)
    if f not in cache:
        with open(f, encoding="utf-8") as fh:
            cache[f] = ast.parse(fh.read(), f)
    return cache[f]


def _find_classdef(tree, qualname):
    node = tree
    for part in qualname.split("."):
        if part == "<locals>":
            raise Refused("class defined inside a function")
        found = [n for n in node.body if isinstance(n, ast.ClassDef) and n.name == part]
        if len(found) != 1:
            raise Refused("%d definitions of class %s in the module source" % (len(found), qualname))
        node = found[0]
    return node


def vcopy(tab):
    """copy of a table BY VALUE: the lists / dicts it holds (enumerated sets, default lists) are copied too, so that
    no declared table shares a mutable object with another one (the tuples of c_param are immutable)"""
    return {k: (list(v) if isinstance(v, list) else dict(v) if isinstance(v, dict) else v) for k, v in tab.items()}


def _mentions_table(node):
    for n in ast.walk(node):
        if isinstance(n, ast.Name) and n.id in TABLES:
            return True
        if isinstance(n, ast.Attribute) and n.attr in TABLES:
            return True
    return False


def _dotted(node):
    parts = []
    while isinstance(node, ast.Attribute):
        parts.append(node.attr)
        node = node.value
    if not isinstance(node, ast.Name):
        return None
    parts.append(node.id)
    return list(reversed(parts))


class _Evaluator:
    def __init__(self, classes):
        """classes: {qualified name: class object} (used for MRO, module and name resolution only; their run-time
        tables are never read)."""
        self.classes = classes
        self.by_obj = {id(c): n for n, c in classes.items()}
        self.cache = {}
        self.done = {}        # name -> {"tables": {T: dict}, "assigns": set(T)} | Refused instance
        self.active = []
        from idpyoidc.message import Message
        self.Message = Message

    # -- entry expressions
    BUILTINS = {"str": str, "int": int, "bool": bool, "dict": dict, "list": list, "float": float}

    def entry(self, node, ns, where, local=None, tname=None):
        """value of an entry expression; `X.T[k]` / `T[k]` denote (a copy of) the declared entry"""
        if isinstance(node, ast.Constant):
            return node.value
        if isinstance(node, ast.Name):
            if node.id in TABLES:
                raise Refused("%s: entry expression uses a whole schema table" % where)
            if node.id in ns:
                return ns[node.id]
            if node.id in self.BUILTINS:
                return self.BUILTINS[node.id]
            raise Refused("%s: name %s is not defined in the module" % (where, node.id))
        if isinstance(node, ast.Attribute):
            if node.attr in TABLES:
                raise Refused("%s: entry expression uses a whole schema table" % where)
            try:
                return getattr(self.entry(node.value, ns, where, local, tname), node.attr)
            except AttributeError:
                raise Refused("%s: attribute %s does not resolve" % (where, node.attr))
        if isinstance(node, ast.Tuple):
            return tuple(self.entry(e, ns, where, local, tname) for e in node.elts)
        if isinstance(node, ast.List):
            return [self.entry(e, ns, where, local, tname) for e in node.elts]
        if isinstance(node, ast.Subscript) and isinstance(node.slice, ast.Constant) and isinstance(node.slice.value, str) \
                and ((isinstance(node.value, ast.Name) and node.value.id in TABLES)
                     or (isinstance(node.value, ast.Attribute) and node.value.attr in TABLES)):
            t = node.value.id if isinstance(node.value, ast.Name) else node.value.attr
            if tname is None or local is None or t != tname:
                raise Refused("%s: entry of %s built from table %s" % (where, tname, t))
            tab = self.table_ref(node.value, t, ns, local, where)
            if node.slice.value not in tab:
                raise Refused("%s: %s[%r] is not declared" % (where, t, node.slice.value))
            return tab[node.slice.value]
        if isinstance(node, ast.BinOp) and isinstance(node.op, ast.Add):
            a = self.entry(node.left, ns, where, local, tname)
            b = self.entry(node.right, ns, where, local, tname)
            if isinstance(a, list) and isinstance(b, list):
                return a + b
            raise Refused("%s: '+' between values that are not lists" % where)
        raise Refused("%s: entry expression uses %s" % (where, type(node).__name__))

    def literal_dict(self, node, ns, where, local=None, tname=None):
        out = {}
        for k, v in zip(node.keys, node.values):
            if not (isinstance(k, ast.Constant) and isinstance(k.value, str)):
                raise Refused("%s: dict key is not a string literal" % where)
            out[k.value] = self.entry(v, ns, "%s[%r]" % (where, k.value), local, tname)
        return out

    # -- a reference  X.T   ->  declared table of X (a fresh copy: value semantics)
    def table_ref(self, node, tname, ns, local, where):
        """node: an expression that should denote `X.<tname>` or the bare local name <tname>"""
        if isinstance(node, ast.Name) and node.id == tname:
            if tname not in local:
                raise Refused("%s: reads %s before assigning it" % (where, tname))
            return vcopy(local[tname])
        if isinstance(node, ast.Attribute) and node.attr in TABLES:
            if node.attr != tname:
                raise Refused("%s: %s built from another table (%s)" % (where, tname, node.attr))
            path = _dotted(node.value)
            if path is None:
                raise Refused("%s: owner of .%s is not a dotted name" % (where, tname))
            try:
                obj = ns[path[0]]
                for p in path[1:]:
                    obj = getattr(obj, p)
            except (KeyError, AttributeError):
                raise Refused("%s: %s does not resolve in the module" % (where, ".".join(path)))
            name = self.by_obj.get(id(obj))
            if name is None:
                if obj is self.Message:
                    return {}
                raise Refused("%s: %s is not a Message subclass of the package" % (where, ".".join(path)))
            return vcopy(self.declared(name)[tname])
        raise Refused("%s: unsupported table expression %s" % (where, ast.dump(node)[:80]))

    def table_value(self, node, tname, ns, local, where):
        """right-hand side of `T = ...` / argument of `T.update(...)`"""
        if isinstance(node, ast.Dict):
            return self.literal_dict(node, ns, where, local, tname)
        if isinstance(node, ast.Call) and not node.keywords:
            f = node.func
            if isinstance(f, ast.Attribute) and f.attr == "copy" and not node.args:
                return self.table_ref(f.value, tname, ns, local, where)
            if isinstance(f, ast.Name) and f.id == "dict" and len(node.args) <= 1:
                return self.table_ref(node.args[0], tname, ns, local, where) if node.args else {}
        return self.table_ref(node, tname, ns, local, where)

    def own_tables(self, name):
        """evaluate the class body: ({T: dict} for the tables the body assigns)"""
        cls = self.classes[name]
        mod = sys.modules.get(cls.__module__)
        if mod is None:
            raise Refused("module %s is not loaded" % cls.__module__)
        cdef = _find_classdef(_module_ast(mod, self.cache), cls.__qualname__)
        ns = mod.__dict__
        local = {}
        for st in cdef.body:
            if isinstance(st, (ast.FunctionDef, ast.AsyncFunctionDef, ast.ClassDef)):
                continue      # method bodies run at call time, not at import time (C20 covers those)
            if not _mentions_table(st):
                continue
            where = "%s line %d" % (name, st.lineno)
            if isinstance(st, ast.Assign) and len(st.targets) == 1:
                tg = st.targets[0]
                if isinstance(tg, ast.Name) and tg.id in TABLES:
                    local[tg.id] = self.table_value(st.value, tg.id, ns, local, where)
                    continue
                if (isinstance(tg, ast.Subscript) and isinstance(tg.value, ast.Name) and tg.value.id in TABLES
                        and isinstance(tg.slice, ast.Constant) and isinstance(tg.slice.value, str)):
                    t = tg.value.id
                    if t not in local:
                        raise Refused("%s: writes into %s before assigning it (an inherited table)" % (where, t))
                    local[t][tg.slice.value] = self.entry(st.value, ns, where, local, t)
                    continue
                raise Refused("%s: unsupported assignment" % where)
            if isinstance(st, ast.Delete) and len(st.targets) == 1:
                tg = st.targets[0]
                if (isinstance(tg, ast.Subscript) and isinstance(tg.value, ast.Name) and tg.value.id in TABLES
                        and isinstance(tg.slice, ast.Constant) and isinstance(tg.slice.value, str)):
                    t = tg.value.id
                    if t not in local:
                        raise Refused("%s: deletes from %s before assigning it (an inherited table)" % (where, t))
                    if tg.slice.value not in local[t]:
                        raise Refused("%s: deletes a key that is not declared" % where)
                    del local[t][tg.slice.value]
                    continue
                raise Refused("%s: unsupported del" % where)
            if isinstance(st, ast.Expr) and isinstance(st.value, ast.Call) and isinstance(st.value.func, ast.Attribute) \
                    and st.value.func.attr in ("extend", "append") and len(st.value.args) == 1 and not st.value.keywords \
                    and isinstance(st.value.func.value, ast.Subscript) and isinstance(st.value.func.value.value, ast.Name) \
                    and st.value.func.value.value.id in TABLES and isinstance(st.value.func.value.slice, ast.Constant) \
                    and isinstance(st.value.func.value.slice.value, str):
                t, k = st.value.func.value.value.id, st.value.func.value.slice.value
                if t not in local:
                    raise Refused("%s: changes %s[%r] before assigning %s (an inherited table)" % (where, t, k, t))
                if not isinstance(local[t].get(k), list):
                    raise Refused("%s: %s[%r] is not a declared list" % (where, t, k))
                arg = self.entry(st.value.args[0], ns, where, local, t)
                if st.value.func.attr == "extend":
                    if not isinstance(arg, list):
                        raise Refused("%s: extend() with something that is not a list" % where)
                    local[t][k] = local[t][k] + arg
                else:
                    local[t][k] = local[t][k] + [arg]
                continue
            if isinstance(st, ast.Expr) and isinstance(st.value, ast.Call) and isinstance(st.value.func, ast.Attribute) \
                    and isinstance(st.value.func.value, ast.Name) and st.value.func.value.id in TABLES \
                    and not st.value.keywords:
                t, meth, args = st.value.func.value.id, st.value.func.attr, st.value.args
                if t not in local:
                    raise Refused("%s: %s.%s() before assigning %s (an inherited table)" % (where, t, meth, t))
                if meth == "update" and len(args) == 1:
                    local[t].update(self.table_value(args[0], t, ns, local, where))
                    continue
                if meth == "pop" and args and isinstance(args[0], ast.Constant) and isinstance(args[0].value, str) \
                        and (len(args) == 1 or (len(args) == 2 and isinstance(args[1], ast.Constant))):
                    if len(args) == 1 and args[0].value not in local[t]:
                        raise Refused("%s: pops a key that is not declared" % where)
                    local[t].pop(args[0].value, None)
                    continue
                raise Refused("%s: unsupported call %s.%s" % (where, t, meth))
            raise Refused("%s: unsupported statement (%s) about a schema table" % (where, type(st).__name__))
        return local

    def declared(self, name):
        """{T: dict} for all three tables of class `name`; raises Refused"""
        got = self.done.get(name)
        if isinstance(got, Refused):
            raise Refused("depends on refused %s" % name if not str(got).startswith(name) else str(got))
        if got is not None:
            return got["tables"]
        if name in self.active:
            raise Refused("%s: cyclic schema declaration" % name)
        self.active.append(name)
        try:
            own = self.own_tables(name)
            tables = dict(own)
            cls = self.classes[name]
            for t in TABLES:
                if t in tables:
                    continue
                tables[t] = None
                for b in cls.__mro__[1:]:
                    if b is self.Message:
                        tables[t] = {}
                        break
                    bn = self.by_obj.get(id(b))
                    if bn is None:
                        if t in b.__dict__:
                            raise Refused("%s: inherits %s from %s, which is not a Message subclass of the package"
                                          % (name, t, qn(b)))
                        continue
                    if t in self.assigns(bn):
                        tables[t] = vcopy(self.declared(bn)[t])
                        break
                if tables[t] is None:
                    raise Refused("%s: no class of the MRO declares %s" % (name, t))
            self.done[name] = {"tables": tables, "assigns": set(own)}
            return tables
        except Refused as e:
            self.done[name] = e
            raise
        finally:
            self.active.pop()

    def assigns(self, name):
        """the table names the class body itself assigns (source text)"""
        self.declared(name)
        return self.done[name]["assigns"]

    def owner(self, name, t):
        """qualified name of the class whose body the table `t` of class `name` comes from by plain inheritance
        ('' = Message itself); raises Refused"""
        if t in self.assigns(name):
            return name
        for b in self.classes[name].__mro__[1:]:
            if b is self.Message:
                return ""
            bn = self.by_obj.get(id(b))
            if bn is not None and t in self.assigns(bn):
                return bn
        return ""


def declared(classes):
    """classes: [(qualified name, class)].  Returns (decl, owners, refused):
       decl    {name: {"c_param": dict, "c_default": dict, "c_allowed_values": dict}}   (evaluated classes only)
       owners  {name: {T: name of the class whose body declares the table this class uses}}
       refused [(name, reason)]  sorted."""
    ev = _Evaluator(dict(classes))
    decl, owners, refused = {}, {}, []
    for name, _ in classes:
        try:
            decl[name] = ev.declared(name)
            owners[name] = {t: ev.owner(name, t) for t in TABLES}
        except Refused as e:
            decl.pop(name, None)
            refused.append((name, str(e)))
    return decl, owners, sorted(refused)


# ------------------------------------------------------------------------------------------------ rendering
def render_entry(ent):
    """stable, process-independent text of one c_param entry / default / allowed list (what is compared across
    interpreters and between declaration and run time)"""
    import typing

    def ty(t):
        if isinstance(t, list):
            return "[" + ",".join(ty(x) for x in t) + "]"
        if t is typing.Any:
            return "Any"
        if isinstance(t, type):
            return t.__module__ + "." + t.__qualname__
        return repr(t)

    def fn(f):
        if f is None:
            return "-"
        return "%s.%s" % (getattr(f, "__module__", "?"), getattr(f, "__qualname__", repr(f)))
    if isinstance(ent, tuple) and len(ent) == 5:
        t, req, ser, deser, null = ent
        return "%s|%s|%s|%s|%s" % (ty(t), "required" if req is True else ("optional" if req is False else repr(req)),
                                   fn(ser), fn(deser), "null" if null is True else ("-" if null is False else repr(null)))
    try:
        return json.dumps(ent, sort_keys=True)
    except (TypeError, ValueError):
        return repr(ent)


def render_tables(tabs):
    """{T: dict} -> {T: [[key, text], ...]} in declaration order"""
    return {t: [[str(k), render_entry(v)] for k, v in tabs[t].items()] for t in TABLES}


def diff_tables(a, b):
    """differences between two rendered table sets: [(table, key, text in a | None, text in b | None)];
    an order-only difference shows as key '<order>'"""
    out = []
    for t in TABLES:
        da, db = dict(map(tuple, a[t])), dict(map(tuple, b[t]))
        for k in list(da) + [k for k in db if k not in da]:
            if da.get(k) != db.get(k):
                out.append((t, k, da.get(k), db.get(k)))
        if not [x for x in out if x[0] == t] and [k for k, _ in a[t]] != [k for k, _ in b[t]]:
            out.append((t, "<order>", ",".join(k for k, _ in a[t]), ",".join(k for k, _ in b[t])))
    return out


def runtime_tables(classes):
    """{name: rendered run-time tables}, the sharing groups {T: [[names sharing ONE dict object], ...]} and, for
    information, the lists / dicts held by DISTINCT tables that are one object (what a shallow `.copy()` leaves
    behind; harmless until somebody extends one): {T: [[[name, key], ...], ...]}"""
    tabs, groups, inner = {}, {t: {} for t in TABLES}, {t: {} for t in TABLES}
    for name, c in classes:
        tabs[name] = render_tables({t: getattr(c, t) for t in TABLES})
        for t in TABLES:
            tab = getattr(c, t)
            groups[t].setdefault(id(tab), []).append(name)
            if t != "c_param":
                for k, v in tab.items():
                    if isinstance(v, (list, dict, set)):
                        inner[t].setdefault(id(v), {}).setdefault(id(tab), (name, str(k)))
    shared = {t: sorted(sorted(g) for g in groups[t].values() if len(g) > 1) for t in TABLES}
    nested = {t: sorted(sorted(list(x) for x in g.values()) for g in inner[t].values() if len(g) > 1) for t in TABLES}
    return tabs, shared, nested


def runtime_owner(cls, t):
    """qualified name of the first class of the MRO that holds table `t` in its own __dict__ ('' = Message / none)"""
    for b in cls.__mro__:
        if t in b.__dict__:
            return "" if (b.__module__, b.__qualname__) == ("idpyoidc.message", "Message") else qn(b)
    return ""


def loaded_message_classes():
    from idpyoidc.message import Message

    def subs(c, acc):
        for s in c.__subclasses__():
            if s not in acc:
                acc.append(s)
                subs(s, acc)
        return acc
    out = {}
    for c in subs(Message, []):
        if c.__module__.startswith("idpyoidc."):
            out[qn(c)] = c
    return sorted(out.items())


# ------------------------------------------------------------------------------------------------ (2) isolation
_PROBE = r"""
import importlib, json, sys
sys.path.insert(0, %(harness)r)
order = %(order)r
errors = {}
for m in order:
    try:
        importlib.import_module(m)
    except Exception as e:
        errors[m] = "%%s: %%s" %% (type(e).__name__, str(e)[:200])
import schema_decl as S
cl = S.loaded_message_classes()
tabs, shared, nested = S.runtime_tables(cl)
owners = {n: {t: S.runtime_owner(c, t) for t in S.TABLES} for n, c in cl}
probe = {}
for spec in %(probes)r:
    name, kw = spec["class"], spec["message"]
    c = dict(cl).get(name)
    if c is None:
        continue
    try:
        r = c(**kw).verify()
        probe[spec["id"]] = "accepted" if r is not False else "refused:False"
    except Exception as e:
        probe[spec["id"]] = "refused:" + type(e).__name__
json.dump({"order": order, "import_errors": errors, "tables": tabs, "shared": shared, "nested": nested, "owners": owners,
           "probe": probe}, sys.stdout)
"""


def isolation_probe(orders, repo_src, python=sys.executable, probes=(), workers=16, timeout=120):
    """orders: list of import orders (each a list of module names).  One fresh interpreter per order.
    Returns a list of result dicts (same order); a probe that does not run has {"order", "error"} only."""
    from concurrent.futures import ThreadPoolExecutor
    harness = os.path.dirname(os.path.abspath(__file__))
    env = dict(os.environ, PYTHONPATH=repo_src, PYTHONHASHSEED="0", PYTHONDONTWRITEBYTECODE="1")

    def one(order):
        code = _PROBE % {"harness": harness, "order": list(order), "probes": list(probes)}
        try:
            p = subprocess.run([python, "-c", code], env=env, capture_output=True, text=True, timeout=timeout)
            if p.returncode != 0:
                return {"order": list(order), "error": "interpreter exit %d: %s" % (p.returncode, p.stderr.strip()[-400:])}
            return json.loads(p.stdout)
        except Exception as e:   # noqa
            return {"order": list(order), "error": "%s: %s" % (type(e).__name__, e)}
    with ThreadPoolExecutor(max_workers=workers) as ex:
        return list(ex.map(one, orders))
