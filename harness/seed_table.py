"""Rewrites the table of DESIGN.md section 0.5 from seeded/*/meta.json."""
import glob, json, os, re
V = os.path.dirname(os.path.dirname(os.path.abspath(__file__)))
rows = []
for d in sorted(glob.glob(os.path.join(V, "seeded", "C*"))):
    m = json.load(open(os.path.join(d, "meta.json")))
    s = re.sub(r"\s+", " ", m["summary"])
    short = s if len(s) < 230 else s[:227] + "..."
    rows.append("| %s | %s | %s | %s | %s |" % (os.path.basename(d), ", ".join(os.path.basename(f) for f in m.get("files", [])),
                                               short.replace("|", "/"), re.sub(r"\s+", " ", m.get("detection", "")).replace("|", "/"),
                                               re.sub(r"\s+", " ", m.get("mechanism", "")).replace("|", "/")))
table = ("| Seed | Files | Change | Detection | Mechanism |\n|---|---|---|---|---|\n" + "\n".join(rows) + "\n")
p = os.path.join(V, "DESIGN.md")
s = open(p).read()
a = s.index("<!-- seeded-table-begin -->") + len("<!-- seeded-table-begin -->\n")
b = s.index("<!-- seeded-table-end -->")
open(p, "w").write(s[:a] + table + s[b:])
print("%d seeds" % len(rows))
