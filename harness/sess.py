"""Real-side executor of session histories (shared by C02, C03, C05, C18, C04, C07 drivers).

A history is a list of ops (tuples). `RealSession.run(op)` executes one op on a real provider through the
real endpoints / session-manager API and returns a canonical outcome (JSON-able). Token values are replaced
by indices in minting order (the model mints in the same order); everything random is thereby canonical.
"""
import base64
import copy
import json
import logging
import srv

FIXED_AUTHZ = {
    "class": "idpyoidc.server.authz.AuthzHandling",
    "kwargs": {"grant_config": {
        "usage_rules": {
            "authorization_code": {"supports_minting": ["access_token", "refresh_token", "id_token"],
                                   "max_usage": 1, "expires_in": 300},
            "access_token": {"expires_in": 600},
            "refresh_token": {"supports_minting": ["access_token", "refresh_token", "id_token"],
                              "expires_in": 3600},
        },
        "expires_in": 43200}},
}

CLIENTS = ["client_1", "client_2", "client_12"]
USERS = ["diana", "babs", "dian"]      # "dian" is a proper string prefix of "diana", "client_1" of "client_12"
CLS = {"authorization_code": 0, "access_token": 1, "refresh_token": 2, "id_token": 3}


def registered_redirects(client):
    """the two redirect_uris a client has on a provider built with two_redirects (the first is the only one otherwise)"""
    return ["https://%s.example.com/cb" % client, "https://%s.example.com/cb2" % client]


class RealSession:
    def __init__(self, oidc=True, jwt_access=False, client_over=None, revoke_refresh_on_issue=False, start=1_700_000_000,
                 rules="explicit", empty3=False, deny=False, jwt_refresh=False, alias_kwargs=False, two_redirects=False,
                 remove_inactive=False):
        """rules: how the usage rules reach the provider - "explicit" (grant_config spells max_usage: 1 for codes),
        "implied" (grant_config lists supports_minting / expires_in only: the single use of a code is the library's own
        default), "per-client" (the same implied rules as token_usage_rules of every client, no grant_config rules),
        "handler" (no usage rules at all: handler lifetimes and class defaults apply)
        two_redirects: every client has a second registered redirect_uri (https://<client>.example.com/cb2)
        remove_inactive: the provider is configured with the documented session parameter
        session_params = {"remove_inactive_token": True} (default off): Grant.revoke_token then drops the revoked tokens
        from grant.issued_token; they stay known to the harness (tokobj / tokens keep them) and can still be presented"""
        self.oidc = oidc
        self.rules = rules
        over = {
            "client_1": {"allowed_scopes": ["openid", "profile", "email", "offline_access"]},
            "client_2": {"allowed_scopes": ["openid", "email", "address", "offline_access", "phone"]},
            "client_12": {},
        }
        if two_redirects:
            for c in CLIENTS:
                over[c]["redirect_uris"] = [(u, None) for u in registered_redirects(c)]
        for k, v in (client_over or {}).items():
            over.setdefault(k, {}).update(v)
        eps = {"token": {"revoke_refresh_on_issue": revoke_refresh_on_issue}} if revoke_refresh_on_issue else None
        authz = copy.deepcopy(FIXED_AUTHZ)
        if rules == "handler":
            # no usage rule anywhere: the lifetimes are those of the token handlers, what a token may mint is the
            # library's own default per class (a code: everything, once; a refresh token: access and refresh tokens)
            authz["kwargs"]["grant_config"].pop("usage_rules")
        elif rules == "partial":
            # the general rules say everything (as "implied"); every client restates only PART of each class's rule
            # (what it may mint, nothing about lifetimes): the merge must keep the general expires_in
            ur = authz["kwargs"]["grant_config"]["usage_rules"]
            ur["authorization_code"].pop("max_usage")
            for c in CLIENTS:
                over.setdefault(c, {})["token_usage_rules"] = {
                    "authorization_code": {"supports_minting": list(ur["authorization_code"]["supports_minting"])},
                    "refresh_token": {"supports_minting": list(ur["refresh_token"]["supports_minting"])}}
        elif rules != "explicit":
            ur = authz["kwargs"]["grant_config"]["usage_rules"]
            ur["authorization_code"].pop("max_usage")
            if rules == "per-client":
                for c in CLIENTS:
                    over.setdefault(c, {})["token_usage_rules"] = copy.deepcopy(ur)
                authz["kwargs"]["grant_config"].pop("usage_rules")
        self.remove_inactive = remove_inactive
        # (op_conf's `extra` replaces whole top-level keys: the session parameters are restated with the pinned encrypter)
        extra = {"session_params": {"encrypter": srv.crypt_config(), "remove_inactive_token": True}} if remove_inactive else None
        self.server = srv.make_server(clients=CLIENTS, client_over=over, oidc=oidc, jwt_access=jwt_access,
                                      authz=authz, endpoints=eps, jwt_refresh=jwt_refresh, alias_kwargs=alias_kwargs,
                                      **({"extra": extra} if extra else {}))
        c3 = self.server.context.cdb["client_12"]
        c3.pop("allowed_scopes", None)
        # deny: the provider-wide preference deny_unknown_scopes is on (requests asking for more than the client may have
        # are refused), and client_1 overrides it for itself (deny_unknown_scopes: False -> its requests are filtered
        # as usual).  The generator keeps the requests of the other clients inside their allowed sets, so the model
        # (filtering only) describes the run.
        self.deny = deny
        if deny:
            self.server.context.set_preference("deny_unknown_scopes", True)
            self.server.context.cdb["client_1"]["deny_unknown_scopes"] = False
        self.empty3 = empty3
        if empty3:
            c3["allowed_scopes"] = []      # allowed no scope at all; absent = every scope the provider knows
        self.clock = srv.Clock(start).install()
        self.ctx = self.server.context
        self.sm = self.ctx.session_manager
        self.tokens = []      # index -> token value
        self.tokobj = []      # index -> SessionToken object
        self.tok_grant = []   # index -> grant index
        self.grants = []      # index -> (sid, Grant object, user, client)
        self.parsed = []      # parsed token requests (Message or error)
        self.processed = set()
        self.presented = set()
        # what the harness itself SENT / RECEIVED at the authorization endpoint (never read back from the provider's state):
        self.code_req = {}      # code index -> {"client", "scope", "redirect_uri"} of the authorization request that produced it
        self.grant_cookie = {}  # grant index -> the cookies of the latest authorization response whose code is in that grant
        self.grant_nonce = {}   # grant index -> nonce of the authorization request that created the grant
        self.last_cookie = None
        self._fresh_n = 0
        self.cookie_log = []    # one entry per authzc operation (coverage bookkeeping)
        self.ep = {k: self.server.get_endpoint(k) for k in
                   ["authorization", "token", "introspection", "token_revocation"] + (["userinfo"] if oidc else [])}

    def close(self):
        self.clock.uninstall()

    # ----- helpers
    def secret(self, c):
        return self.ctx.cdb[c]["client_secret"]

    def tokval(self, ref):
        if ref[0] == "tok":
            return self.tokens[ref[1]] if ref[1] < len(self.tokens) else "missing"
        if ref[0] == "garbage":
            return ["x", "garbage", "Zm9vYmFy", "a.b.c", "eyJhbGciOiJub25lIn0.e30."][ref[1] % 5]
        raise ValueError(ref)

    def harvest(self):
        """register newly minted tokens, in grant order then issued_token order"""
        new = []
        for gi, (sid, g, u, c) in enumerate(self.grants):
            for t in g.issued_token:
                if not any(t is o for o in self.tokobj):
                    self.tokobj.append(t)
                    self.tokens.append(t.value)
                    self.tok_grant.append(gi)
                    new.append(len(self.tokens) - 1)
        return new

    def find_new_grants(self):
        from idpyoidc.server.session.grant import Grant
        known = [g for _, g, _, _ in self.grants]
        for k, n in self.sm.db.items():
            if isinstance(n, Grant) and not any(n is g for g in known):
                if len(k.split(";;")) != 3:
                    continue      # Authorization.mint_token also stores the grant under its encrypted session id
                u, c, gid = k.split(";;")
                self.grants.append((self.sm.encrypted_session_id(u, c, gid), n, u, c))

    def refresh_grant_objects(self):
        """the db may hold replaced grant objects (set overwrites) — keep our references current"""
        from idpyoidc.server.session.grant import Grant
        for i, (sid, g, u, c) in enumerate(self.grants):
            key = None
            for k, n in self.sm.db.items():
                if n is g:
                    key = k
            # grants removed from the db keep their last object
        return

    @staticmethod
    def err_of(resp):
        """canonical error code of an error message"""
        try:
            if "error" in resp:
                return str(resp["error"])
        except Exception:
            pass
        return None

    # ----- ops
    def run(self, op):
        k = op[0]
        try:
            return getattr(self, "op_" + k)(*op[1:])
        except Exception as e:  # a Python-level crash inside the library is a refusal
            return ["exc", type(e).__name__]
        finally:
            self.find_new_grants()
            self.harvest()

    def op_tick(self, d):
        self.clock.tick(d)
        return ["ok"]

    def op_authz(self, user, client, scope, rtype="code", extra=None, cookie=None):
        srv.set_user(self.server, user)
        req = {"client_id": client, "redirect_uri": "https://%s.example.com/cb" % client,
               "response_type": rtype, "scope": " ".join(scope), "state": "st", "nonce": "nonce-%d" % len(self.tokens)}
        if "offline_access" in scope:
            req["prompt"] = "consent"
        req.update(extra or {})
        ep = self.ep["authorization"]
        n0 = len(self.tokens)
        g0 = len(self.grants)
        preq = ep.parse_request(req)
        e = self.err_of(preq)
        if e:
            return ["err", e]
        lg = logging.getLogger("idpyoidc.server.oauth2.authorization")
        lvl = lg.level
        if cookie:      # a cookie of a dead session makes the endpoint log the traceback of the login page it cannot render
            lg.setLevel(logging.CRITICAL)
        try:
            res = ep.process_request(preq, http_info={"cookie": cookie} if cookie else None)
        finally:
            lg.setLevel(lvl)
        self.last_cookie = res.get("cookie") if isinstance(res, dict) else None
        self.find_new_grants()
        new = self.harvest()
        for gi in range(g0, len(self.grants)):
            self.grant_nonce.setdefault(gi, req.get("nonce"))
        for i in new:
            if self.tokobj[i].token_class == "authorization_code":
                self.code_req[i] = {"client": client, "scope": list(scope), "redirect_uri": req["redirect_uri"]}
            # (an implicit response carries no code: the cookie belongs to the grant of whatever the response carries)
            if self.last_cookie and (self.tokobj[i].token_class == "authorization_code" or rtype != "code"):
                self.grant_cookie[self.tok_grant[i]] = self.last_cookie
        if isinstance(res, dict) and "http_response" in res and "response_args" not in res:
            return ["login"]      # the provider wants the user to authenticate (again); nothing was issued
        ra = res.get("response_args") if isinstance(res, dict) else res
        e = self.err_of(ra) if ra is not None else None
        if e:
            return ["err", e, new]
        return ["ok", new, sorted(ra.get("scope", [])) if ra is not None and "scope" in ra else None]

    def op_authzr(self, user, client, scope, rtype):
        """An authorization request with any response type (implicit / hybrid: the authorization endpoint itself mints the
        access token and / or the ID Token, besides or instead of a code).  The outcome names what the response carries by
        slot: ["ok", new, scope, {"code": i, "access_token": i, "id_token": i}]"""
        out = self.op_authz(user, client, scope, rtype=rtype)
        if out[0] != "ok":
            return out
        slots = {}
        for i in out[1] or []:
            slots[{"authorization_code": "code"}.get(self.tokobj[i].token_class, self.tokobj[i].token_class)] = i
        return out + [slots]

    def op_authzc(self, prev, user, client, scope, redirect, fresh):
        """An authorization request from a browser that presents the session cookie the provider set when it answered the
        latest authorization whose code is in grant `prev` (no cookie if there is no such grant).  `user` is who would log in
        if the provider asked for a login.  fresh False: state and nonce are those of the request that created grant `prev`
        (the very same request again, as far as scope / redirect_uri / client say so); True: a nonce never used before."""
        cookie = self.grant_cookie.get(prev) if prev < len(self.grants) else None
        if fresh or prev not in self.grant_nonce:
            self._fresh_n += 1
            nonce = "nonce-fresh-%d" % self._fresh_n
        else:
            nonce = self.grant_nonce[prev]
        first = next((i for i in sorted(self.code_req) if self.tok_grant[i] == prev), None)
        log = {"cookie": bool(cookie), "held": self.code_req.get(first), "grant": list(self.grants[prev][2:4]) if prev < len(self.grants) else None,
               "grants_before": len(self.grants)}
        self.cookie_log.append(log)
        out = self.op_authz(user, client, scope, extra={"nonce": nonce, "redirect_uri": redirect}, cookie=cookie)
        log["grants_after"] = len(self.grants)
        return out

    def _token_req(self, client, body):
        req = dict(body)
        req["client_id"] = client
        req["client_secret"] = self.secret(client)
        return req

    def _token_parse(self, client, body, ref=None):
        """parse_request at the token endpoint with the credential of `client`, cycling through the ways a credential
        can arrive: secret in the body; HTTP Basic with no client_id in the body; HTTP Basic while the body names the
        client the presented token belongs to (the request is still the authenticated client's)"""
        self._auth_n = getattr(self, "_auth_n", 0) + 1
        style = self._auth_n % 3
        if style == 0:
            return self.ep["token"].parse_request(self._token_req(client, body))
        req = dict(body)
        if style == 2:
            req["client_id"] = self._owner_client(ref, client) if ref is not None else client
        cred = base64.b64encode(("%s:%s" % (client, self.secret(client))).encode()).decode()
        return self.ep["token"].parse_request(req, http_info={"headers": {"authorization": "Basic " + cred}})

    def redirect_for(self, client, ref, kind):
        """the redirect_uri a token request carries.  "same": the one the harness SENT in the authorization request that
        produced the code (for anything that is no code: the first registered one of its client); "alt": the client's other
        registered one; "other": one that is not registered; "absent": none; an URL: that URL."""
        if kind == "absent":
            return None
        if kind == "other":
            return "https://evil.example.com/cb"
        if kind.startswith("https://"):
            return kind
        owner = self._owner_client(ref, client)
        own = "https://%s.example.com/cb" % owner
        if ref[0] == "tok" and ref[1] in self.code_req:
            own = self.code_req[ref[1]]["redirect_uri"]
        if kind == "same":
            return own
        if kind == "alt":
            return next(u for u in registered_redirects(owner) if u != own)
        raise ValueError(kind)

    def op_tparse(self, client, ref, redirect="same"):
        req = {"grant_type": "authorization_code", "code": self.tokval(ref)}
        if ref[0] == "tok":
            self.presented.add(ref[1])
        uri = self.redirect_for(client, ref, redirect)
        if uri is not None:
            req["redirect_uri"] = uri
        p = self._token_parse(client, req, ref)
        self.parsed.append(p)
        e = self.err_of(p)
        return ["err", e] if e else ["ok"]

    def _owner_client(self, ref, default):
        if ref[0] == "tok" and ref[1] < len(self.tok_grant):
            return self.grants[self.tok_grant[ref[1]]][3]
        return default

    def op_rparse(self, client, ref, scope=None):
        req = {"grant_type": "refresh_token", "refresh_token": self.tokval(ref)}
        if scope is not None:
            req["scope"] = " ".join(scope)
        p = self._token_parse(client, req, ref)
        self.parsed.append(p)
        e = self.err_of(p)
        return ["err", e] if e else ["ok"]

    def op_proc(self, idx, issue_refresh=None):
        if idx >= len(self.parsed):
            return ["skip"]
        p = self.parsed[idx]
        self.processed.add(idx)
        kw = {} if issue_refresh is None else {"issue_refresh": issue_refresh}
        n0 = len(self.tokens)
        res = self.ep["token"].process_request(p, **kw)
        new = self.harvest()
        ra = res.get("response_args") if isinstance(res, dict) and "response_args" in res else res
        e = self.err_of(ra)
        if e:
            return ["err", e, new]
        out = {}
        for key in ("access_token", "refresh_token", "id_token"):
            if key in ra:
                v = ra[key]
                out[key] = self.tokens.index(v) if v in self.tokens else -1
        sc = ra.get("scope")
        if isinstance(sc, str):
            sc = sc.split(" ")
        return ["ok", out, new, sc]

    def op_userinfo(self, ref):
        ep = self.ep["userinfo"]
        p = ep.parse_request({}, http_info={"headers": {"authorization": "Bearer " + self.tokval(ref)}})
        e = self.err_of(p)
        if e:
            return ["err", e]
        res = ep.process_request(p)
        ra = res.get("response_args") if isinstance(res, dict) and "response_args" in res else res
        e = self.err_of(ra)
        if e:
            return ["err", e]
        return ["ok", ra.get("sub"), sorted(k for k in ra.keys() if k not in ("sub",))]

    def op_introspect(self, client, ref):
        ep = self.ep["introspection"]
        p = ep.parse_request(self._token_req(client, {"token": self.tokval(ref)}))
        e = self.err_of(p)
        if e:
            return ["err", e]
        res = ep.process_request(p)
        ra = res.get("response_args") if isinstance(res, dict) and "response_args" in res else res
        e = self.err_of(ra)
        if e:
            return ["err", e]
        if not ra.get("active"):
            return ["inactive"]
        sc = ra.get("scope", "")
        cls = self.tokobj[ref[1]].token_class if ref[0] == "tok" and ref[1] < len(self.tokobj) else None
        return ["active", sc.split(" ") if sc else [], ra.get("client_id"), ra.get("sub"), cls]

    def op_revoke_ep(self, client, ref, hint=None):
        """hint: the optional token_type_hint; a wrong hint must not change the outcome (RFC 7009 2.1)"""
        ep = self.ep["token_revocation"]
        body = {"token": self.tokval(ref)}
        if hint:
            body["token_type_hint"] = hint
        p = ep.parse_request(self._token_req(client, body))
        e = self.err_of(p)
        if e:
            return ["err", e]
        res = ep.process_request(p)
        ra = res.get("response_args") if isinstance(res, dict) and "response_args" in res else res
        e = self.err_of(ra)
        if e:
            return ["err", e]
        return ["ok"]

    def op_api_revoke(self, ref, recursive):
        if ref[0] != "tok" or ref[1] >= len(self.tokens):
            return ["skip"]
        sid = self.grants[self.tok_grant[ref[1]]][0]
        self.sm.revoke_token(sid, self.tokens[ref[1]], recursive=recursive)
        return ["ok"]

    def op_revoke_grant(self, gi):
        if gi >= len(self.grants):
            return ["skip"]
        self.sm.revoke_grant(self.grants[gi][0])
        return ["ok"]

    def op_revoke_client(self, gi):
        if gi >= len(self.grants):
            return ["skip"]
        self.sm.revoke_client_session(self.grants[gi][0])
        return ["ok"]

    def op_remove_grant(self, gi):
        """SessionManager.remove_session: the grant (and every node above it that has nothing else below) leaves the database"""
        if gi >= len(self.grants):
            return ["skip"]
        self.sm.remove_session(self.grants[gi][0])
        return ["ok"]

    def op_revoke_user(self, gi):
        """revocation of the whole user session the grant belongs to (level 0 of its branch): what logging out
        everywhere amounts to - every client session of the user, every grant and token below them"""
        if gi >= len(self.grants):
            return ["skip"]
        self.sm.revoke_sub_tree(self.grants[gi][0], 0)
        return ["ok"]

    def listed(self, i):
        """is token i still in the issued_token list of its grant (remove_inactive_token takes revoked tokens off it)?"""
        g = self.grants[self.tok_grant[i]][1]
        return any(t is self.tokobj[i] for t in g.issued_token)

    def in_db(self, gi):
        """is the grant object still a node of the session database?"""
        sid, g = self.grants[gi][0], self.grants[gi][1]
        return self.sm.db.get(self.sm.branch_key(*self.sm.decrypt_session_id(sid))) is g

    # ----- observation of the real state (for oracles and for whole-state correspondence)
    def state(self):
        out = []
        for gi, (sid, g, u, c) in enumerate(self.grants):
            toks = []
            for t in g.issued_token:
                idx = next(i for i, o in enumerate(self.tokobj) if o is t)
                toks.append({"id": idx, "cls": CLS[t.token_class], "based_on": self.tokens.index(t.based_on) if t.based_on in self.tokens else None,
                             "used": t.used, "max": t.usage_rules.get("max_usage"), "mints": t.usage_rules.get("supports_minting"),
                             "revoked": bool(t.revoked), "exp": t.expires_at, "scope": list(t.scope)})
            out.append({"user": u, "client": c, "revoked": bool(g.revoked), "exp": g.expires_at, "scope": list(g.scope),
                        "sub": g.sub, "tokens": toks, "removed": not self.in_db(gi)})
        return out


if __name__ == "__main__":
    import sys
    rs = RealSession(oidc=(len(sys.argv) < 2 or sys.argv[1] != "oauth2"))
    hist = [("authz", "diana", "client_1", ["openid", "email", "offline_access", "address"]),
            ("tparse", "client_1", ("tok", 0)), ("proc", 0), ("tparse", "client_1", ("tok", 0)), ("proc", 1),
            ("userinfo", ("tok", 1)), ("introspect", "client_1", ("tok", 1)), ("introspect", "client_2", ("tok", 1)),
            ("authz", "diana", "client_1", ["openid", "email", "offline_access"]),
            ("tparse", "client_2", ("tok", 4)), ("proc", 2), ("tparse", "client_1", ("tok", 4), "other"), ("proc", 3),
            ("tparse", "client_1", ("tok", 4)), ("proc", 4), ("proc", 4),
            ("rparse", "client_1", ("tok", 6), ["openid"]), ("proc", 5), ("rparse", "client_1", ("tok", 6), ["openid", "phone"]),
            ("rparse", "client_1", ("tok", 5)), ("tparse", "client_1", ("tok", 5)), ("tparse", "client_1", ("garbage", 1)),
            ("userinfo", ("tok", 6)), ("userinfo", ("garbage", 2)), ("introspect", "client_1", ("tok", 4)),
            ("revoke_ep", "client_2", ("tok", 5)), ("revoke_ep", "client_1", ("tok", 5)), ("userinfo", ("tok", 5)),
            ("tick", 601), ("introspect", "client_1", ("tok", 8)), ("rparse", "client_1", ("tok", 6)), ("proc", 9),
            ("revoke_grant", 1), ("introspect", "client_1", ("tok", 10)), ("rparse", "client_1", ("tok", 6)), ("proc", 10),
            ]
    for op in hist:
        print(op, "->", json.dumps(rs.run(op)))
    print(json.dumps(rs.state(), indent=None))


# ======================================================================= Coq side of a history
from engine import coq_str, coq_list, coq_bool, coq_z, coq_nat, coq_opt  # noqa: E402

ERR = {"invalid_grant": "EInvalidGrant", "invalid_request": "EInvalidRequest", "invalid_token": "EInvalidToken"}
CLSNAME = ["Code", "Access", "Refresh", "IdTok"]
MINTS = {"authorization_code": "Code", "access_token": "Access", "refresh_token": "Refresh", "id_token": "IdTok"}


def coq_strs(l):
    return coq_list([coq_str(x) for x in l], "pystr")


def coq_ref(ref):
    return "(TRef %s)" % coq_nat(ref[1]) if ref[0] == "tok" else "Garbage"


def coq_op(rs, op):
    k = op[0]
    if k == "authz":
        return "(Authorize %s %s %s)" % (coq_str(op[1]), coq_str(op[2]), coq_strs(op[3]))
    if k == "authzc":
        return "(AuthorizeCookie %s %s %s %s %s %s)" % (coq_nat(op[1]), coq_str(op[2]), coq_str(op[3]), coq_strs(op[4]), coq_str(op[5]), coq_bool(op[6]))
    if k == "authzr":
        rt = op[4].split(" ")
        return "(AuthorizeRT %s %s %s %s %s %s)" % (coq_str(op[1]), coq_str(op[2]), coq_strs(op[3]), coq_bool("code" in rt),
                                                    coq_bool("token" in rt), coq_bool("id_token" in rt))
    if k == "tparse":
        uri = rs.redirect_for(op[1], op[2], op[3] if len(op) > 3 else "same")
        r = "None" if uri is None else "(Some %s)" % coq_str(uri)
        return "(TokenParse %s %s %s)" % (coq_str(op[1]), coq_ref(op[2]), r)
    if k == "rparse":
        sc = op[3] if len(op) > 3 else None
        return "(RefreshParse %s %s %s)" % (coq_str(op[1]), coq_ref(op[2]), "None" if sc is None else "(Some %s)" % coq_strs(sc))
    if k == "proc":
        kw = op[2] if len(op) > 2 else None
        return "(Process %s %s)" % (coq_nat(op[1]), "None" if kw is None else "(Some %s)" % coq_bool(kw))
    if k == "userinfo":
        return "(Userinfo %s)" % coq_ref(op[1])
    if k == "introspect":
        return "(Introspect %s %s)" % (coq_str(op[1]), coq_ref(op[2]))
    if k == "revoke_ep":
        return "(RevokeEP %s %s)" % (coq_str(op[1]), coq_ref(op[2]))
    if k == "api_revoke":
        return "(ApiRevoke %s %s)" % (coq_nat(op[1][1]), coq_bool(op[2]))
    if k == "revoke_grant":
        return "(RevokeGrant %s)" % coq_nat(op[1])
    if k == "revoke_client":
        return "(RevokeClient %s)" % coq_nat(op[1])
    if k == "remove_grant":
        return "(RemoveGrant %s)" % coq_nat(op[1])
    if k == "revoke_user":
        return "(RevokeUser %s)" % coq_nat(op[1])
    if k == "tick":
        return "(Tick %s)" % coq_z(op[1])
    raise ValueError(op)


def coq_out(op, out):
    k = out[0]
    if k == "exc":
        return "OExc"
    if k == "skip":
        return "OSkip"
    if k == "err":
        return "(OErr %s)" % ERR.get(out[1], "EOther")
    if k == "inactive":
        return "OInactive"
    if k == "login":
        return "OLogin"
    if k == "active":
        cls = {"access_token": "Access", "refresh_token": "Refresh"}.get(out[4], "Code")
        return "(OActive %s %s %s)" % (coq_strs(out[1]), coq_str(out[2] or ""), cls)
    if op[0] == "authzr":
        d = out[3]
        f = lambda key: "(Some %s)" % coq_nat(d[key]) if key in d else "None"
        return "(OAuthzRT %s %s %s %s)" % (f("code"), f("access_token"), f("id_token"), coq_strs(sorted(out[2] or [])))
    if op[0] in ("authz", "authzc"):
        return "(OAuthz %s %s)" % (coq_nat(out[1][0]) if out[1] else "0%nat", coq_strs(sorted(out[2] or [])))
    if op[0] == "proc":
        d = out[1]
        f = lambda key: "(Some %s)" % coq_nat(d[key]) if key in d and d[key] >= 0 else "None"
        return "(OTokens %s %s %s %s)" % (f("access_token"), f("refresh_token"), f("id_token"), coq_strs(out[3] or []))
    if op[0] == "userinfo":
        return "OUserinfo"
    return "OOk"


def coq_state(rs):
    gs, tl = [], []
    for gi, (sid, g, u, c) in enumerate(rs.grants):
        toks = []
        for t in g.issued_token:
            idx = next(i for i, o in enumerate(rs.tokobj) if o is t)
            based = rs.tokens.index(t.based_on) if t.based_on in rs.tokens else None
            mx = t.usage_rules.get("max_usage")
            mints = t.usage_rules.get("supports_minting")
            toks.append("(%s, mkTok %s %s %s %s %s %s %s %s %s" % (
                coq_nat(idx), coq_nat(gi), MINTS[t.token_class], "None" if based is None else "(Some %s)" % coq_nat(based),
                coq_z(t.used), "None" if mx is None else "(Some %s)" % coq_z(mx),
                "None" if mints is None else "(Some %s)" % coq_list([MINTS[m] for m in mints], "tcls"),
                coq_bool(bool(t.revoked)), coq_z(t.expires_at), coq_strs(t.scope)) + " false)")
        areq = g.authorization_request
        gs.append("(mkGrant %s %s %s %s %s %s %s %s %s)" % (
            coq_str(u), coq_str(c), coq_bool(bool(g.revoked)), coq_z(g.expires_at), coq_strs(g.scope),
            coq_strs(areq.get("scope", [])), coq_str(areq.get("redirect_uri", "")),
            coq_z(g.authentication_event["valid_until"]), coq_bool(not rs.in_db(gi))))
        tl.append(coq_list(toks, "(nat * token)"))
    return "(%s, %s)" % (coq_list(gs, "grant"), coq_list(tl, "list (nat * token)"))


SCOPES = ["openid", "profile", "email", "address", "phone", "offline_access", "custom"]
SCOPES_KNOWN = ["openid", "profile", "email", "address", "phone", "offline_access"]


def gen_multi_prefix(rng):
    """One user who logs in two or three times at the same client and (mostly) also at a second client, every code
    redeemed; then sessions are removed / the user session is revoked / a client session or grant is revoked, and the
    tokens that should have survived - and those that should not - are presented at userinfo, introspection, the
    refresh grant and the revocation endpoint."""
    def scope():
        sc = ["openid", "offline_access"] + rng.sample(["profile", "email", "address", "phone"], rng.randint(0, 2))
        if rng.random() < 0.15:
            sc.remove("offline_access")
        return sc
    u = rng.choice(USERS)
    a, b = rng.sample(CLIENTS, 2)
    logins = [(u, a)] * rng.choice([2, 2, 3]) + [(u, b)] * rng.choice([0, 1, 1, 2])
    if rng.random() < 0.6:      # a bystander: another user at the same client, whose tokens nothing here may touch
        logins.append((rng.choice([x for x in USERS if x != u]), rng.choice([a, b])))
    rng.shuffle(logins)
    plan = []
    for (uu, cc) in logins:
        plan += [("authz_fixed", uu, cc, scope()), ("natural", rng.random(), rng.random()), ("natural", rng.random(), rng.random())]
        if rng.random() < 0.3:      # some grants have been refreshed once already
            plan += [("rparse", rng.random(), 0.0, 0.3), ("natural", rng.random(), rng.random())]
    def exercise(k):
        out = []
        for _ in range(k):
            r = rng.random()
            if r < 0.25:
                out.append(("userinfo", rng.random()))
            elif r < 0.55:
                out.append(("introspect", rng.random(), rng.random() * 0.9))
            elif r < 0.85:
                out += [("rparse", rng.random(), rng.random() * 0.9, rng.random() * 0.8 + 0.16), ("natural", rng.random(), rng.random())]
            else:
                out.append(("revoke_ep", rng.random(), rng.random() * 0.9))
        return out
    for _ in range(rng.randint(2, 4)):
        r = rng.random()
        ev = ("remove_grant" if r < 0.5 else "revoke_user" if r < 0.8 else "revoke_client" if r < 0.9 else "revoke_grant")
        plan.append((ev, rng.random()))
        plan += exercise(rng.randint(2, 6))
        if rng.random() < 0.25:     # a later login of the same user (re-creates whatever nodes the removal took away)
            plan += [("authz_fixed", u, rng.choice([a, b]), scope()), ("natural", rng.random(), rng.random()), ("natural", rng.random(), rng.random())]
    return plan


def gen_cookie_prefix(rng):
    """Authorizing again within one browser session.  A first authorization whose code stays PENDING, then one to three
    authorization requests carrying the provider's session cookie (same / other client, same / other registered
    redirect_uri, same / narrower / wider / disjoint / reordered scope, same or new state and nonce), then every code is
    presented with each registered redirect_uri (in either order), and what was minted is refreshed, used at userinfo and
    introspected.  Sometimes the first code is redeemed, or the first grant revoked / removed / expired, BEFORE the cookie
    comes back."""
    u = rng.choice(USERS)
    cl = rng.choice(CLIENTS)
    base = ["openid", "offline_access"] + rng.sample(["profile", "email", "address", "phone", "custom"], rng.randint(1, 3))
    if rng.random() < 0.25:
        base.remove("offline_access")
    rng.shuffle(base)
    plan = []
    if rng.random() < 0.3:       # other sessions exist already
        plan += [("authz", rng.choice(USERS), rng.choice(CLIENTS), rng.sample(SCOPES, 3)), ("natural", rng.random(), rng.random())]
    first_alt = rng.random() < 0.3
    plan.append(("authzc", 2.0, 0.0, 0.0, ("fixed", u, cl, base, first_alt), 1.0))      # no cookie: the login (on either registered redirect_uri)
    r = rng.random()
    if r < 0.15:
        plan += [("natural", rng.random(), rng.random()), ("natural", rng.random(), rng.random())]       # redeemed first
    elif r < 0.22:
        plan.append((rng.choice(["revoke_grant", "remove_grant", "revoke_client", "revoke_user"]), 0.999))
    elif r < 0.28:
        plan.append(("tick", rng.choice([299, 301, 3599, 3600, 3601, 43201])))
    for j in range(rng.choice([1, 1, 2, 3])):
        # (kind, which grant's cookie, who/where, scope variant, redirect / freshness, ...)
        plan.append(("authzc", 0.999 if rng.random() < 0.8 else rng.random(), rng.random(), rng.random(), rng.random(), rng.random()))
        if rng.random() < 0.2:
            plan.append(("tick", rng.choice([1, 10, 100, 299])))
    reds = ["same", "alt"] if rng.random() < 0.5 else ["alt", "same"]
    for red in reds + (["other"] if rng.random() < 0.2 else []):
        for slot in (0.0, 0.34, 0.67, 0.99):
            plan += [("tparse_code", slot, red), ("proc", 0.0, 0.0)]
    for _ in range(rng.randint(3, 8)):
        r = rng.random()
        if r < 0.35:
            plan += [("rparse", rng.random(), 0.0, rng.random() * 0.8 + 0.16), ("natural", rng.random(), rng.random())]
        elif r < 0.6:
            plan.append(("userinfo", rng.random()))
        elif r < 0.9:
            plan.append(("introspect", rng.random(), rng.random() * 0.9))
        else:
            plan.append(("authzc", rng.random(), rng.random(), rng.random(), rng.random(), rng.random()))
    return plan


RT_OIDC = ["token", "id_token token", "code token", "code id_token token", "code id_token", "id_token", "code"]
RT_OAUTH2 = ["token", "code token", "token", "code token", "code"]


def gen_history(rng, n, focus="mixed", p_cookie=0.0, p_front=0.0):
    """Generate a plan of abstract ops; token / grant / parsed indices are chosen relative to what exists
    when the op runs (resolved by `materialise`).  focus "multi": the history starts with gen_multi_prefix; focus
    "cookie": it starts with gen_cookie_prefix.  p_cookie: the share of the authorization requests of the random part that
    come with a session cookie.  p_front: the share of the (cookie-less) authorization requests of the random part that use
    an implicit / hybrid response type (the authorization endpoint itself mints an access token and / or an ID Token)."""
    plan = gen_multi_prefix(rng) if focus == "multi" else gen_cookie_prefix(rng) if focus == "cookie" else []
    for i in range(len(plan), max(n, len(plan) + 8) if plan else n):
        r = rng.random()
        if i > 0 and rng.random() < 0.45:
            plan.append(("natural", rng.random(), rng.random()))
            continue
        if i > 0 and r < 0.16 and p_cookie and rng.random() < p_cookie:
            plan.append(("authzc", rng.random(), rng.random(), rng.random(), rng.random(), rng.random()))
        elif i == 0 or r < 0.16:
            sc = rng.sample(SCOPES, rng.randint(0, 5))
            if rng.random() < 0.7 and "openid" not in sc:
                sc.insert(0, "openid")
            if rng.random() < 0.5 and "offline_access" not in sc:
                sc.append("offline_access")
            if p_front and rng.random() < p_front:
                plan.append(("authzr", rng.choice(USERS), rng.choice(CLIENTS), sc, rng.random()))
            else:
                plan.append(("authz", rng.choice(USERS), rng.choice(CLIENTS), sc))
        elif r < 0.33:
            plan.append(("tparse", rng.random(), rng.random(), rng.random()))
        elif r < 0.50:
            plan.append(("proc", rng.random(), rng.random()))
        elif r < 0.59:
            plan.append(("rparse", rng.random(), rng.random(), rng.random()))
        elif r < 0.665:
            plan.append(("userinfo", rng.random()))
        elif r < 0.74:
            plan.append(("introspect", rng.random(), rng.random()))
        elif r < 0.79:
            plan.append(("revoke_ep", rng.random(), rng.random()))
        elif r < 0.835:
            plan.append(("api_revoke", rng.random(), rng.random() < 0.5))
        elif r < 0.865:
            plan.append(("revoke_grant", rng.random()))
        elif r < 0.885:
            plan.append(("revoke_client", rng.random()))
        elif r < 0.91:
            plan.append(("remove_grant", rng.random()))
        elif r < 0.93:
            plan.append(("revoke_user", rng.random()))
        else:
            plan.append(("tick", rng.choice([1, 10, 100, 299, 300, 301, 600, 601, 3000, 3600, 3601, 43201, 50000, 86401])))
    return plan


def pick_token(rs, x, want=None, p_wrong=0.15, xx=None):
    """choose a token reference: mostly a token of class `want`, sometimes another class or garbage"""
    if not rs.tokens:
        return ("garbage", 1)
    xx = x if xx is None else xx
    ids = list(range(len(rs.tokens)))
    if want is not None and xx >= p_wrong:
        cand = [i for i in ids if CLS[rs.tokobj[i].token_class] == want]
        if cand:
            return ("tok", cand[int(x * len(cand)) % len(cand)])
    if xx < 0.04:
        return ("garbage", int(x * 1000))
    return ("tok", ids[int(x * len(ids)) % len(ids)])


def _fit_scope(rs, client, sc):
    """what materialise does to the scope of every generated authorization request"""
    sc = list(sc)
    if rs.oidc and "openid" not in sc:     # an OIDC authorization request must ask for openid
        sc.insert(0, "openid")
    if getattr(rs, "deny", False) and client != "client_1":
        al = rs.ctx.cdb[client].get("allowed_scopes")
        if al is not None:
            sc = [x for x in sc if x in al]
        sc = [x for x in sc if x in SCOPES_KNOWN]
        if not sc:      # with the policy on, a request without any scope parameter is outside the modelled fragment
            sc = [(al or SCOPES_KNOWN)[-1]] if (al or SCOPES_KNOWN) else sc
    return sc


def materialise_authzc(rs, p):
    """("authzc", x_prev, x_who, x_scope, x_redirect | ("fixed", user, client, scope, alt), x_fresh)"""
    _, xp, xw, xs, xr, xf = p
    two = len(rs.ctx.cdb[CLIENTS[0]]["redirect_uris"]) > 1
    if isinstance(xr, tuple):      # the login that opens a browser session: no cookie
        _, u, cl, sc, alt = xr
        sc = _fit_scope(rs, cl, sc)
        if not two or (rs.rules == "per-client" and getattr(rs, "model_compared", True)):
            return ("authz", u, cl, sc)
        return ("authzc", len(rs.grants), u, cl, sc, registered_redirects(cl)[1 if alt else 0], True)
    if not rs.grants:
        return ("authz", USERS[int(xw * 3) % 3], CLIENTS[int(xs * 3) % 3], _fit_scope(rs, CLIENTS[int(xs * 3) % 3], ["openid", "email", "offline_access"]))
    # whose cookie: mostly a grant that still has a pending code (xp close to 1: the latest such grant)
    pending = [gi for gi, (sid, g, u, c) in enumerate(rs.grants)
               if any(t.token_class == "authorization_code" and t.used == 0 and not t.revoked for t in g.issued_token)]
    pool = pending if pending and xp >= 0.2 else list(range(len(rs.grants)))
    prev = pool[min(int(xp * len(pool)), len(pool) - 1)]
    if xp < 0.04:
        prev = len(rs.grants)      # a browser without cookie
    _, g, gu, gc = rs.grants[min(prev, len(rs.grants) - 1)]
    client = gc if xw < 0.85 else CLIENTS[int(xw * 100) % 3]
    user = gu if (xw * 7) % 1 < 0.8 else USERS[int(xw * 1000) % 3]
    held = list(g.authorization_request.get("scope", [])) if prev < len(rs.grants) else ["openid", "email"]
    v = xs
    if v < 0.34:
        sc = list(held)                                                  # the same
    elif v < 0.54:
        sc = held[:max(1, len(held) // 2)]                               # narrower
        if rs.oidc and "openid" in held and "openid" not in sc:
            sc = ["openid"] + sc[:-1] if len(sc) > 1 else ["openid"]
    elif v < 0.74:
        sc = held + [x for x in SCOPES if x not in held][:1 + int(v * 100) % 3]      # wider
    elif v < 0.84:
        sc = [x for x in SCOPES if x not in held][:3]                    # disjoint
    elif v < 0.92:
        sc = list(reversed(held))                                        # the same set in another order
    else:
        sc = [x for i, x in enumerate(SCOPES) if int(v * 1000) >> i & 1]
    sc = _fit_scope(rs, client, sc)
    if not two or (rs.rules == "per-client" and getattr(rs, "model_compared", True)):
        # (a provider whose usage rules are configured per client only gives the grant it makes for a cookie request no usage
        # rules at all; the model's configuration is per provider, so these providers see no cookie requests here)
        return ("authz", user, client, sc)
    own = g.authorization_request.get("redirect_uri") if prev < len(rs.grants) else registered_redirects(client)[0]
    uris = registered_redirects(client)
    redirect = own if (client == gc and xr < 0.5) else uris[1] if (own == uris[0] or client != gc and xr < 0.75) else uris[0]
    # a grant made for an implicit / hybrid request: a cookie-carrying request (response_type=code) differs from the stored
    # one by its response type whatever else it says, so it never re-sends that grant's nonce (the model's "same request"
    # compares scope, redirect_uri and nonce)
    front = prev < len(rs.grants) and list(g.authorization_request.get("response_type", ["code"])) != ["code"]
    if xs < 0.12 and client == gc and prev < len(rs.grants):
        return ("authzc", prev, user, client, sc, own, front)      # the identical request once more
    return ("authzc", prev, user, client, sc, redirect, front or xf < 0.5)


def materialise(rs, p):
    k = p[0]
    if k == "authzc":
        return materialise_authzc(rs, p)
    if k == "authzr":
        types = RT_OIDC if rs.oidc else RT_OAUTH2
        return ("authzr", p[1], p[2], _fit_scope(rs, p[2], p[3]), types[min(int(p[4] * len(types)), len(types) - 1)])
    if k == "tparse_code":
        # the slot-th code (by position among all codes ever issued), presented by its own client with redirect variant p[2]
        codes = [i for i, t in enumerate(rs.tokobj) if t.token_class == "authorization_code"]
        if not codes:
            return ("tick", 1)
        i = codes[min(int(p[1] * len(codes)), len(codes) - 1)]
        red = p[2] if len(rs.ctx.cdb[CLIENTS[0]]["redirect_uris"]) > 1 or p[2] != "alt" else "other"
        return ("tparse", rs.grants[rs.tok_grant[i]][3], ("tok", i), red)
    if k in ("authz", "authz_fixed"):
        sc = list(p[3])
        if k == "authz" and rs.grants and (hash((p[1], p[2], len(rs.tokens))) % 3 == 0):
            # a further login of a user at a client they already have a (possibly revoked) session with
            _, _, u0, c0 = rs.grants[hash((p[2], p[1])) % len(rs.grants)]
            p = ("authz", u0, c0, sc)
        if rs.oidc and "openid" not in sc:     # an OIDC authorization request must ask for openid
            sc.insert(0, "openid")
        if getattr(rs, "deny", False) and p[2] != "client_1":
            al = rs.ctx.cdb[p[2]].get("allowed_scopes")
            if al is not None:
                sc = [x for x in sc if x in al]
            sc = [x for x in sc if x in SCOPES_KNOWN]
            if not sc:      # with the policy on, a request without any scope parameter is outside the modelled fragment
                sc = [(al or SCOPES_KNOWN)[-1]] if (al or SCOPES_KNOWN) else sc
        return ("authz", p[1], p[2], sc)
    if k == "natural":
        # the next step an honest client would take
        if rs.parsed and len(rs.parsed) - 1 not in rs.processed and "error" not in rs.parsed[-1]:
            return ("proc", len(rs.parsed) - 1, None)
        codes = [i for i, t in enumerate(rs.tokobj) if t.token_class == "authorization_code" and t.used == 0
                 and not t.revoked and i not in rs.presented]
        if codes:
            i = codes[int(p[1] * len(codes)) % len(codes)]
            return ("tparse", rs.grants[rs.tok_grant[i]][3], ("tok", i), "same")
        refs = [i for i, t in enumerate(rs.tokobj) if t.token_class == "refresh_token" and not t.revoked]
        if refs and p[2] < 0.7:
            i = refs[int(p[1] * len(refs)) % len(refs)]
            g = rs.grants[rs.tok_grant[i]][1]
            sc = None
            if p[2] < 0.3 and g.scope:
                sc = list(g.scope)[:max(1, int(p[1] * 10) % (len(g.scope) + 1))]
            return ("rparse", rs.grants[rs.tok_grant[i]][3], ("tok", i), sc)
        accs = [i for i, t in enumerate(rs.tokobj) if t.token_class == "access_token"]
        if accs:
            i = accs[int(p[1] * len(accs)) % len(accs)]
            return ("userinfo", ("tok", i)) if p[2] < 0.85 and rs.oidc else ("introspect", rs.grants[rs.tok_grant[i]][3], ("tok", i))
        return ("authz", USERS[int(p[1] * 3) % 3], CLIENTS[int(p[2] * 3) % 3], ["openid", "email", "offline_access"])
    if k == "tparse":
        ref = pick_token(rs, p[1], 0, xx=p[3])
        owner = rs._owner_client(ref, CLIENTS[0])
        client = owner if p[2] < 0.85 else CLIENTS[int(p[2] * 100) % 3]
        red = "same" if p[3] < 0.85 else ("other" if p[3] < 0.95 else "absent")
        if len(rs.ctx.cdb[CLIENTS[0]]["redirect_uris"]) > 1 and 0.75 <= p[3] < 0.9:
            red = "alt"      # the client's OTHER registered redirect_uri
        return ("tparse", client, ref, red)
    if k == "rparse":
        ref = pick_token(rs, p[1], 2, xx=p[3])
        owner = rs._owner_client(ref, CLIENTS[0])
        client = owner if p[2] < 0.85 else CLIENTS[int(p[2] * 100) % 3]
        sc = None
        if p[3] > 0.5 and ref[0] == "tok":
            g = rs.grants[rs.tok_grant[ref[1]]][1]
            base = list(g.scope) or ["openid"]
            kk = max(1, int(p[3] * 10) % (len(base) + 1))
            sc = base[:kk]
            if p[3] > 0.9:
                sc = sc + ["phone"]          # possibly beyond the grant
        return ("rparse", client, ref, sc)
    if k == "proc":
        n = len(rs.parsed)
        if n == 0:
            return ("proc", 0)
        idx = n - 1 if p[1] < 0.7 else int(p[1] * 1000) % n
        kw = None if p[2] < 0.7 else (p[2] < 0.85)
        return ("proc", idx, kw)
    if k == "userinfo":
        ref = pick_token(rs, p[1], 1, 0.25)
        if not rs.oidc:      # the OAuth2 flavour has no userinfo endpoint
            return ("introspect", rs._owner_client(ref, CLIENTS[0]), ref)
        return ("userinfo", ref)
    if k == "introspect":
        ref = pick_token(rs, p[1], None)
        owner = rs._owner_client(ref, CLIENTS[0])
        return ("introspect", owner if p[2] < 0.8 else CLIENTS[int(p[2] * 100) % 3], ref)
    if k == "revoke_ep":
        ref = pick_token(rs, p[1], None)
        owner = rs._owner_client(ref, CLIENTS[0])
        hint = [None, None, "access_token", "refresh_token", "bogus_type"][int(p[1] * 1000) % 5]
        return ("revoke_ep", owner if p[2] < 0.8 else CLIENTS[int(p[2] * 100) % 3], ref, hint)
    if k == "api_revoke":
        ref = pick_token(rs, p[1], None, 0.0)
        if ref[0] != "tok":
            return ("tick", 1)
        return ("api_revoke", ref, p[2])
    if k in ("revoke_grant", "revoke_client", "remove_grant", "revoke_user"):
        if not rs.grants:
            return ("tick", 1)
        return (k, int(p[1] * len(rs.grants)) % len(rs.grants))
    return p


def run_history(rs, plan, observer=None):
    """returns (coq term of the case body [(op,out)...] , python record)"""
    pairs, rec = [], []
    for p in plan:
        op = materialise(rs, p)
        term_op = coq_op(rs, op)          # before running (owner lookup uses current state)
        pre = getattr(observer, "before", None)
        if pre:
            pre(rs, op)
        out = rs.run(op)
        if out[0] == "skip" and op[0] != "proc":
            continue
        pairs.append("(%s, %s)" % (term_op, coq_out(op, out)))
        rec.append([list(op) if not isinstance(op, list) else op, out])
        if observer:
            observer(rs, op, out)
    return pairs, rec
