"""Builders for real idpy-oidc providers used by the drivers. Never points the server at the
repository tree for anything it writes: cwd/base_path is a scratch directory under /verif/build."""
import copy
import json
import os
import sys

VERIF = os.path.dirname(os.path.dirname(os.path.abspath(__file__)))
RUN = os.path.join(VERIF, "build", "run")
os.makedirs(RUN, exist_ok=True)

from idpyoidc.server import Server
from idpyoidc.server.configure import OPConfiguration, ASConfiguration
from idpyoidc.server.cookie_handler import CookieHandler
from idpyoidc.server import user_info
from idpyoidc.server.user_authn.authn_context import INTERNETPROTOCOLPASSWORD

USERS = os.path.join(VERIF, "harness", "fixtures", "users.json")
CRYPT_CONFIG = {"kwargs": {"keys": {"key_defs": [
    {"type": "OCT", "use": ["enc"], "kid": "password"},
    {"type": "OCT", "use": ["enc"], "kid": "salt"}]}, "iterations": 1}}
KEYDEFS = [{"type": "RSA", "key": "", "use": ["sig"]}, {"type": "EC", "crv": "P-256", "use": ["sig"]}]
ISSUER = "https://example.com/"


def crypt_config(password="pw-verif-0123456789", salt="salt-verif-0123456789"):
    """A pinned (reproducible) crypt configuration: same password/salt => same keys."""
    return {"kwargs": {"password": password, "salt": salt, "iterations": 1}}


def op_conf(jwt_access=False, jwt_refresh=False, oidc=True, endpoints=None, add_ons=None, extra=None,
            pinned=True, token_endpoint_authn=None, authz=None, lifetimes=None, alias_kwargs=False, sub_func=None):
    """sub_func: session_params.sub_func (configured subject minters: {type: {"class": .., "kwargs": ..} | {"function": ..}}),
    handed to the provider as it is (dict order kept); None = the key is absent (built-in minters).
    alias_kwargs: the handler slots that have the same kind of handler reference ONE kwargs dict (what a shared
    constant in a Python configuration, or a YAML anchor, produces) instead of equal copies"""
    cc = crypt_config() if pinned else copy.deepcopy(CRYPT_CONFIG)
    lt = {"code": 600, "token": 3600, "refresh": 86400}
    lt.update(lifetimes or {})
    if jwt_access:
        tok = {"class": "idpyoidc.server.token.jwt_token.JWTToken",
               "kwargs": {"lifetime": lt["token"], "add_claims_by_scope": True, "aud": ["https://example.org/appl"]}}
    else:
        tok = {"lifetime": lt["token"], "kwargs": {"crypt_conf": copy.deepcopy(cc)}}
    if jwt_refresh:
        ref = {"class": "idpyoidc.server.token.jwt_token.JWTToken",
               "kwargs": {"lifetime": lt["refresh"], "aud": ["https://example.org/appl"]}}
    else:
        ref = {"lifetime": lt["refresh"], "kwargs": {"crypt_conf": copy.deepcopy(cc)}}
    code_kwargs = {"crypt_conf": copy.deepcopy(cc)}
    if alias_kwargs:
        if jwt_access and jwt_refresh:
            ref["kwargs"] = tok["kwargs"]
            tok["lifetime"], ref["lifetime"] = lt["token"], lt["refresh"]
            tok["kwargs"].pop("lifetime", None)
        if not jwt_access:
            tok["kwargs"] = code_kwargs
        if not jwt_refresh:
            ref["kwargs"] = code_kwargs
    if oidc:
        from idpyoidc.server.oidc.authorization import Authorization
        from idpyoidc.server.oidc.token import Token
        from idpyoidc.server.oidc.provider_config import ProviderConfiguration
    else:
        from idpyoidc.server.oauth2.authorization import Authorization
        from idpyoidc.server.oauth2.token import Token
        from idpyoidc.server.oauth2.server_metadata import ServerMetadata as ProviderConfiguration
    from idpyoidc.server.oidc.registration import Registration
    from idpyoidc.server.oidc.read_registration import RegistrationRead
    from idpyoidc.server.oidc import userinfo
    from idpyoidc.server.oidc.session import Session
    from idpyoidc.server.oauth2.introspection import Introspection
    from idpyoidc.server.oauth2.token_revocation import TokenRevocation
    from idpyoidc.server.oauth2.pushed_authorization import PushedAuthorization
    tea = token_endpoint_authn or ["client_secret_post", "client_secret_basic", "client_secret_jwt", "private_key_jwt"]
    eps = {
        "provider_config": {"path": ".well-known/openid-configuration", "class": ProviderConfiguration, "kwargs": {}},
        "registration": {"path": "registration", "class": Registration, "kwargs": {"client_authn_method": None}},
        "registration_read": {"path": "registration_api", "class": RegistrationRead, "kwargs": {"client_authn_method": ["bearer_header"]}},
        "authorization": {"path": "authorization", "class": Authorization, "kwargs": {}},
        "token": {"path": "token", "class": Token, "kwargs": {"client_authn_method": tea}},
        "userinfo": {"path": "userinfo", "class": userinfo.UserInfo, "kwargs": {"client_authn_method": ["bearer_header", "bearer_body"]}},
        "introspection": {"path": "introspection", "class": Introspection, "kwargs": {"client_authn_method": ["client_secret_post", "client_secret_basic"], "enable_claims_per_client": False}},
        "token_revocation": {"path": "revocation", "class": TokenRevocation, "kwargs": {"client_authn_method": ["client_secret_post", "client_secret_basic"]}},
        "session": {"path": "end_session", "class": Session, "kwargs": {"post_logout_uri_path": "post_logout", "signing_alg": "ES256", "logout_verify_url": "https://example.com/verify_logout", "client_authn_method": None}},
        "pushed_authorization": {"path": "par", "class": PushedAuthorization, "kwargs": {"client_authn_method": ["client_secret_post", "client_secret_basic", "private_key_jwt", "client_secret_jwt"]}},
    }
    if not oidc:
        for k in ("registration", "registration_read", "userinfo", "session"):
            eps.pop(k)
    if endpoints is not None:
        for k, v in endpoints.items():
            if v is None:
                eps.pop(k, None)
            elif k in eps:
                eps[k]["kwargs"].update(v)
            else:
                eps[k] = v
    conf = {
        "issuer": ISSUER,
        "httpc_params": {"verify": False, "timeout": 1},
        "subject_types_supported": ["public", "pairwise", "ephemeral"],
        "cookie_handler": {"class": CookieHandler, "kwargs": {"keys": {"key_defs": [
            {"type": "OCT", "use": ["enc"], "kid": "enc"}, {"type": "OCT", "use": ["sig"], "kid": "sig"}]},
            "name": {"session": "oidc_op", "register": "oidc_op_reg", "session_management": "oidc_op_sman"}}},
        "keys": {"uri_path": "jwks.json", "key_defs": KEYDEFS, "private_path": os.path.join(RUN, "op_jwks.json"), "read_only": False},
        "endpoint": eps,
        "userinfo": {"class": user_info.UserInfo, "kwargs": {"db_file": USERS}},
        "authentication": {"anon": {"acr": INTERNETPROTOCOLPASSWORD, "class": "idpyoidc.server.user_authn.user.NoAuthn", "kwargs": {"user": "diana"}}},
        "template_dir": "template",
        "session_params": {"encrypter": copy.deepcopy(cc)},
        "token_handler_args": {
            "code": {"lifetime": lt["code"], "kwargs": code_kwargs},
            "token": tok,
            "refresh": ref,
            "id_token": {"class": "idpyoidc.server.token.id_token.IDToken", "kwargs": {}},
        },
    }
    if sub_func is not None:
        conf["session_params"]["sub_func"] = sub_func
    if oidc:
        conf["claims_interface"] = {"class": "idpyoidc.server.session.claims.ClaimsInterface", "kwargs": {}}
    if authz is not None:
        conf["authz"] = authz
    if add_ons:
        conf["add_on"] = add_ons
    if extra:
        conf.update(extra)
    return conf


def client_record(cid, **over):
    rec = {
        "client_id": cid,
        "client_secret": "hemligt_" + cid + "_0123456789abcdef0123456789",
        "redirect_uris": [("https://%s.example.com/cb" % cid, None)],
        "client_salt": "salted",
        "token_endpoint_auth_method": "client_secret_post",
        "response_types_supported": ["code", "code id_token", "id_token", "token", "code token", "id_token token", "code id_token token"],
        "allowed_scopes": ["openid", "profile", "email", "address", "phone", "offline_access"],
    }
    rec.update(over)
    return rec


def make_server(clients=("client_1", "client_2"), client_over=None, **kw):
    oidc = kw.get("oidc", True)
    conf = op_conf(**kw)
    cls = OPConfiguration if oidc else ASConfiguration
    server = Server(cls(conf=conf, base_path=RUN), cwd=RUN)
    ctx = server.context
    for cid in clients:
        ctx.cdb[cid] = client_record(cid, **((client_over or {}).get(cid, {})))
        server.keyjar.add_symmetric(cid, ctx.cdb[cid]["client_secret"])
    return server


def set_user(server, uid):
    for _, spec in server.context.authn_broker.db.items():
        spec["method"].user = uid


class Clock:
    """Controlled clock: rebinds utc_time_sans_frac / time_sans_frac in every loaded idpyoidc.*
    and cryptojwt.* module (each holds its own imported reference). No change to /repo."""

    def __init__(self, start=1_700_000_000):
        self.now = start
        self.saved = []

    def __call__(self):
        return self.now

    def install(self):
        import idpyoidc.time_util  # noqa
        for name, mod in list(sys.modules.items()):
            if mod is None or not (name.startswith("idpyoidc") or name.startswith("cryptojwt")):
                continue
            for fn in ("utc_time_sans_frac", "time_sans_frac"):
                if hasattr(mod, fn):
                    self.saved.append((mod, fn, getattr(mod, fn)))
                    setattr(mod, fn, self)
        return self

    def uninstall(self):
        for mod, fn, old in self.saved:
            setattr(mod, fn, old)
        self.saved = []

    def tick(self, d):
        self.now += d
